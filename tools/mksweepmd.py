#!/venv/bin/python
"""write /verif/seeded/SWEEP.md (development wave) and HELDOUT.md (held-out wave) from the meta.json files"""
import json, os, glob
rows = {'dev': [], 'heldout': [], 'heldout2': [], 'heldout3': []}
for d in sorted(glob.glob('/verif/seeded/C*')):
    m = json.load(open(d + '/meta.json'))
    wave = m.get('wave', 'dev')
    rows[wave].append((os.path.basename(d), m.get('site', '?'), (m.get('summary', '') or '').replace('\n', ' ')[:150],
                       (m.get('needs_to_manifest', '') or '').replace('\n', ' ')[:120], ', '.join(m.get('caught_by', [])) or '**missed**',
                       m.get('not_caught_reason', ''), ', '.join(m.get('caught_by_initial', []) + ['exit 2: ' + x for x in m.get('caught_by_initial_exit2', [])]) or 'missed'))
FROZEN = {'heldout': '44b4fcb', 'heldout2': 'a476181', 'heldout3': '158d893'}
for wave, fn, title in (('dev', 'SWEEP.md', 'Development wave'), ('heldout', 'HELDOUT.md', 'Held-out wave'), ('heldout2', 'HELDOUT2.md', 'Second held-out wave'), ('heldout3', 'HELDOUT3.md', 'Third held-out wave')):
    if not rows[wave]:
        continue
    with open('/verif/seeded/' + fn, 'w') as f:
        n = len(rows[wave]); c = sum(1 for r in rows[wave] if 'missed' not in r[4])
        f.write('# %s of seeded changes: %d / %d reported by a check\n\n' % (title, c, n))
        f.write('Produced by `tools/sweep_seeds.py` (applies each patch to /repo, runs every quick check, resets the tree).\n\n')
        if wave in FROZEN:
            ci = sum(1 for r in rows[wave] if r[6] != 'missed' and not r[6].startswith('exit 2'))
            ce = sum(1 for r in rows[wave] if r[6].startswith('exit 2'))
            f.write('**Generalisation figure (checks as they were before any change of this wave had been looked at, /verif commit ' + FROZEN[wave] + '): %d / %d reported, '
                    '%d more stopped a check with ANALYSIS-ERROR (exit 2).**  The last column is the result with the checks as committed now, i.e. after the rules '
                    'were generalised from the misses (see DESIGN section 11).\n\n' % (ci, n, ce))
            f.write('| seed | site | change | needs | first evaluation | reported by (now) |\n|---|---|---|---|---|---|\n')
            for r in rows[wave]:
                f.write('| %s | %s | %s | %s | %s | %s |\n' % (r[0], r[1].replace('|', '/'), r[2].replace('|', '/'), r[3].replace('|', '/'), r[6], r[4]))
            continue
        f.write('| seed | site | change | needs | reported by |\n|---|---|---|---|---|\n')
        for r in rows[wave]:
            f.write('| %s | %s | %s | %s | %s%s |\n' % (r[0], r[1].replace('|', '/'), r[2].replace('|', '/'), r[3].replace('|', '/'), r[4], (' — ' + r[5]) if r[5] else ''))
print('written')
