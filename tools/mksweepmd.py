#!/venv/bin/python
"""write /verif/seeded/SWEEP.md (development wave) and HELDOUT.md (held-out wave) from the meta.json files"""
import json, os, glob
rows = {'dev': [], 'heldout': [], 'heldout2': [], 'heldout3': [], 'heldout4': [], 'heldout5': [], 'heldout6': [], 'heldout7': [], 'refactor': [], 'refactor2': [], 'refactor3': [], 'refactor4': [], 'refactor5': []}
for d in sorted(glob.glob('/verif/seeded/C*')):
    m = json.load(open(d + '/meta.json'))
    wave = m.get('wave', 'dev')
    rows[wave].append((os.path.basename(d), m.get('site', '?'), (m.get('summary', '') or '').replace('\n', ' ')[:150],
                       (m.get('needs_to_manifest', '') or '').replace('\n', ' ')[:120], ', '.join(m.get('caught_by', [])) or '**missed**',
                       m.get('not_caught_reason', ''), ', '.join(m.get('caught_by_initial', []) + ['exit 2: ' + x for x in m.get('caught_by_initial_exit2', [])]) or 'missed'))
FROZEN = {'heldout': '44b4fcb', 'heldout2': 'a476181', 'heldout3': '158d893', 'heldout4': 'bff74e2', 'heldout5': 'e62add6', 'heldout6': 'b3bf94d', 'heldout7': 'ed33d28'}
for wave, fn, title in (('dev', 'SWEEP.md', 'Development wave'), ('heldout', 'HELDOUT.md', 'Held-out wave'), ('heldout2', 'HELDOUT2.md', 'Second held-out wave'), ('heldout3', 'HELDOUT3.md', 'Third held-out wave'), ('heldout4', 'HELDOUT4.md', 'Fourth held-out wave'), ('heldout5', 'HELDOUT5.md', 'Fifth held-out wave'), ('heldout6', 'HELDOUT6.md', 'Sixth held-out wave'), ('heldout7', 'HELDOUT7.md', 'Seventh held-out wave')):
    if not rows[wave]:
        continue
    with open('/verif/seeded/' + fn, 'w') as f:
        n = len(rows[wave]); c = sum(1 for r in rows[wave] if 'missed' not in r[4])
        f.write('# %s of seeded changes: %d / %d reported by a check\n\n' % (title, c, n))
        f.write('Produced by `tools/sweep_seeds.py` (applies each patch to /repo, runs every quick check, resets the tree); the column for the committed checks was last refreshed with `tools/presweep.py --record`, which does the same on private scratch worktrees of /repo.\n\n')
        if wave in FROZEN:
            ci = sum(1 for r in rows[wave] if r[6] != 'missed' and not r[6].startswith('exit 2'))
            ce = sum(1 for r in rows[wave] if r[6].startswith('exit 2'))
            f.write('**Generalisation figure (checks as they were before any change of this wave had been looked at, /verif commit ' + FROZEN[wave] + '): %d / %d reported, '
                    '%d more stopped a check with ANALYSIS-ERROR (exit 2).**  The last column is the result with the checks as committed now, i.e. after the rules '
                    'were generalised from the misses (see DESIGN section 11).\n\n' % (ci, n, ce))
            f.write('| seed | site | change | needs | first evaluation | reported by (now) |\n|---|---|---|---|---|---|\n')
            for r in rows[wave]:
                f.write('| %s | %s | %s | %s | %s | %s |\n' % (r[0], r[1].replace('|', '/'), r[2].replace('|', '/'), r[3].replace('|', '/'), r[6], r[4]))
            continue
        f.write('| seed | site | change | needs | reported by |\n|---|---|---|---|---|\n')
        for r in rows[wave]:
            f.write('| %s | %s | %s | %s | %s%s |\n' % (r[0], r[1].replace('|', '/'), r[2].replace('|', '/'), r[3].replace('|', '/'), r[4], (' — ' + r[5]) if r[5] else ''))
# behaviour-preserving refactorings: any report is a false alarm of the checker
with open('/verif/seeded/REFACTORS.md', 'w') as f:
    f.write('# Behaviour-preserving refactorings from independent sub-agents\n\n')
    f.write('Each edit was validated (the seed\'s demo prints the same digest on the clean and the patched tree; the pinned suite is unchanged). A report (exit 1) or an '
            'ANALYSIS-ERROR (exit 2) on one of them is a defect of the checker, corrected in the machinery (DESIGN sections 8 and 12). '
            '`first evaluation`: the checks as they stood before the wave was looked at (wave 2: /verif commit d8c005c; wave 3: 37eed7a; wave 4: f408def; wave 5: db03701); `now`: the committed checks.\n\n')
    for wave, title in (('refactor', 'First wave'), ('refactor2', 'Second wave'), ('refactor3', 'Third wave'), ('refactor4', 'Fourth wave'), ('refactor5', 'Fifth wave')):
        rs = []
        for d in sorted(glob.glob('/verif/seeded/C*')):
            m = json.load(open(d + '/meta.json'))
            if m.get('wave') != wave:
                continue
            first = m.get('reported_by_initial') if wave in ('refactor2', 'refactor3', 'refactor4', 'refactor5') else m.get('reported_by_first', m.get('reported_by_initial'))
            first2 = m.get('reported_by_initial_exit2', []) if wave in ('refactor2', 'refactor3', 'refactor4', 'refactor5') else m.get('reported_by_first_exit2', [])
            now = m.get('reported_by', [])
            now2 = m.get('reported_by_exit2', [])
            rs.append((os.path.basename(d), (m.get('site', '') or '').replace('|', '/')[:60], (m.get('summary', '') or m.get('description', '') or '').replace('\n', ' ').replace('|', '/')[:170],
                       (', '.join(first or []) + (' exit 2: ' + ','.join(first2) if first2 else '')) if first is not None else 'n/a', (', '.join(now) + (' exit 2: ' + ','.join(now2) if now2 else '')) or 'silent'))
        if not rs:
            continue
        nf = sum(1 for r in rs if r[3] not in ('', 'n/a') and not r[3].startswith(' exit 2'))
        ne = sum(1 for r in rs if r[3].startswith(' exit 2'))
        f.write('## %s: %d edits; now silent on %d\n\n' % (title, len(rs), sum(1 for r in rs if r[4] == 'silent')))
        if wave in ('refactor2', 'refactor3', 'refactor4', 'refactor5'):
            f.write('First evaluation with the frozen checks: %d reported, %d more stopped a check with exit 2.\n\n' % (nf, ne))
        else:
            f.write('First evaluation (64 of these edits, checks at /verif commit 93fdd8a): 20 reported, 26 more stopped a check with exit 2 (per-seed record not kept for this wave).\n\n')
        f.write('| seed | site | refactoring | first evaluation | now |\n|---|---|---|---|---|\n')
        for r in rs:
            f.write('| %s | %s | %s | %s | %s |\n' % r)
print('written')
