#!/venv/bin/python
"""write /verif/seeded/SWEEP.md (development wave) and HELDOUT.md (held-out wave) from the meta.json files"""
import json, os, glob
rows = {'dev': [], 'heldout': []}
for d in sorted(glob.glob('/verif/seeded/C*')):
    m = json.load(open(d + '/meta.json'))
    wave = m.get('wave', 'dev')
    rows[wave].append((os.path.basename(d), m.get('site', '?'), (m.get('summary', '') or '').replace('\n', ' ')[:150],
                       (m.get('needs_to_manifest', '') or '').replace('\n', ' ')[:120], ', '.join(m.get('caught_by', [])) or '**missed**',
                       m.get('not_caught_reason', '')))
for wave, fn, title in (('dev', 'SWEEP.md', 'Development wave'), ('heldout', 'HELDOUT.md', 'Held-out wave')):
    if not rows[wave]:
        continue
    with open('/verif/seeded/' + fn, 'w') as f:
        n = len(rows[wave]); c = sum(1 for r in rows[wave] if 'missed' not in r[4])
        f.write('# %s of seeded changes: %d / %d reported by a check\n\n' % (title, c, n))
        f.write('Produced by `tools/sweep_seeds.py` (applies each patch to /repo, runs every quick check, resets the tree).\n\n')
        f.write('| seed | site | change | needs | reported by |\n|---|---|---|---|---|\n')
        for r in rows[wave]:
            f.write('| %s | %s | %s | %s | %s%s |\n' % (r[0], r[1].replace('|', '/'), r[2].replace('|', '/'), r[3].replace('|', '/'), r[4], (' — ' + r[5]) if r[5] else ''))
print('written')
