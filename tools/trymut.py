#!/venv/bin/python
"""dev helper: run one property check on an in-memory variant of the tree.
usage: trymut.py C15 relpath 'old text' 'new text' [relpath old new ...]"""
import sys, os, importlib, warnings
sys.path.insert(0, os.path.dirname(os.path.dirname(os.path.abspath(__file__))))
warnings.simplefilter('ignore')
from pncstatic import engine, report
prop = sys.argv[1]
ov = {}
args = sys.argv[2:]
base = engine.Source()
for i in range(0, len(args), 3):
    rp, old, new = args[i:i+3]
    t = ov.get(rp, base.text(rp))
    assert t.count(old) >= 1, 'old text not found in %s' % rp
    ov[rp] = t.replace(old, new, 1)
    compile(ov[rp], rp, 'exec')
src = engine.Source(overlay=ov)
mod = importlib.import_module('pncstatic.rules.%s' % prop.lower())
ctx = report.Ctx(prop.upper(), 'quick', src, quiet=True)
try:
    mod.run(ctx)
except engine.AnalysisError as e:
    print('ANALYSIS-ERROR', e); sys.exit(2)
for f in ctx.findings:
    print('FINDING', f.rule, f.where(), '|', f.stmt[:90], '|', f.message[:100])
print('findings=%d obligations=%d' % (len(ctx.findings), len(ctx.obligations)))
