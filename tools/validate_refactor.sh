#!/bin/bash
# usage: validate_refactor.sh <SRC dir> <prop>     (validates m1..m4 of one property, serially, in the agent's own clean worktree
# /tmp/wt5/<prop>, because the demos assert that path)  prints one line per refactoring
src=$1; p=$2
wt=${WTROOT:-/tmp/wt5}/$p
[ -d $wt ] || git -C /repo worktree add --detach $wt HEAD -q
cd $wt && git checkout -q -- . && git checkout -q --detach $(git -C /repo rev-parse HEAD) 2>/dev/null
export PYTHONPATH=$wt/src
for k in 1 2 3 4; do
  sd=$src/$p/m$k
  [ -f $sd/patch.diff ] || continue
  git checkout -q -- .
  (cd $sd && timeout 900 /venv/bin/python -W ignore demo.py > val_clean.out 2>/dev/null); c1=$?
  if git apply --check $sd/patch.diff 2>/dev/null; then git apply $sd/patch.diff; how=apply
  elif git apply --3way $sd/patch.diff >/dev/null 2>&1; then how=3way; git reset -q
  else echo "R$p-m$k PATCH-DOES-NOT-APPLY"; git reset -q --hard; continue; fi
  git diff > $sd/patch.rebased.diff
  (cd $sd && timeout 900 /venv/bin/python -W ignore demo.py > val_patched.out 2>/dev/null); c2=$?
  same=$(cmp -s $sd/val_clean.out $sd/val_patched.out && echo 1 || echo 0)
  tests=$(/verif/tools/baseline.py $wt 2>/dev/null | head -1)
  echo "R$p-m$k how=$how demo_clean=$c1 demo_patched=$c2 identical=$same tests: $tests"
  git checkout -q -- .
done
