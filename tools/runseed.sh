#!/bin/bash
# usage: runseed.sh <patch.diff> <prop> [prop...]   -- applies a seeded change to /repo, runs checks, reverts.
set -u
patch=$1; shift
cd /repo || exit 9
if [ -n "$(git status --porcelain --untracked-files=no)" ]; then echo "repo dirty"; exit 9; fi
if ! git apply --check "$patch" 2>/dev/null; then
  if ! git apply --3way --check "$patch" 2>/dev/null; then echo "PATCH-DOES-NOT-APPLY $patch"; exit 8; fi
fi
git apply "$patch" 2>/dev/null || git apply --3way "$patch"
rc=0
for p in "$@"; do
  out=$(/venv/bin/python /verif/check $p --tier quick --no-evidence 2>&1); r=$?
  echo "--- $p rc=$r"; echo "$out" | grep -E "VIOLATION|ANALYSIS-ERROR|^  R-" | head -8
  [ $r -ne 0 ] && rc=$r
done
git reset -q --hard HEAD
exit $rc
