#!/venv/bin/python
"""development aid: run one property's quick rules on another checkout of the library (never used by a registered command)
usage: check_at.py <PROP> <path to a worktree of /repo>"""
import importlib, os, sys, traceback
sys.path.insert(0, os.path.dirname(os.path.dirname(os.path.abspath(__file__))))
from pncstatic import engine, report
prop, root = sys.argv[1].upper(), sys.argv[2]
engine.PKGROOT = os.path.join(root, 'src', 'PseudoNetCDF')
mod = importlib.import_module('pncstatic.rules.%s' % prop.lower())
try:
    src = engine.Source(root=engine.PKGROOT)
    ctx = report.Ctx(prop, 'quick', src)
    mod.run(ctx)
    from pncstatic import generic
    generic.run(ctx)
    rc, ev = ctx.finish(mod.LEVEL_TEXT, 0)
    sys.exit(rc)
except engine.AnalysisError as e:
    print('ANALYSIS-ERROR %s: %s' % (prop, e)); sys.exit(2)
except Exception:
    traceback.print_exc(); sys.exit(2)
