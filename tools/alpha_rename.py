#!/venv/bin/python
"""Robustness test of the checkers against a behaviour-preserving edit that can be generated mechanically: alpha-renaming of the
local variables of one function at a time (parameters, attributes, globals and names used by eval/exec/locals() are left alone).
For every anchored function the renamed variant is analysed in memory (overlay) by every check whose scope contains the file;
a VIOLATION that was not there before is a false alarm of the checker; an ANALYSIS-ERROR means the rule recognises the code by a
local name.  usage: alpha_rename.py [PROP ...] [--jobs N] [--list]"""
import ast
import importlib
import json
import multiprocessing
import os
import sys
import warnings

sys.path.insert(0, os.path.dirname(os.path.dirname(os.path.abspath(__file__))))
warnings.simplefilter('ignore')
from pncstatic import engine, report, generic  # noqa


def local_names(fn):
    params = set(a.arg for a in fn.args.posonlyargs + fn.args.args + fn.args.kwonlyargs)
    if fn.args.vararg:
        params.add(fn.args.vararg.arg)
    if fn.args.kwarg:
        params.add(fn.args.kwarg.arg)
    declared = set()
    names = set()
    for n in ast.walk(fn):
        if isinstance(n, (ast.Global, ast.Nonlocal)):
            declared |= set(n.names)
        if n is not fn and isinstance(n, (ast.FunctionDef, ast.AsyncFunctionDef, ast.ClassDef, ast.Lambda)):
            # nested scopes: leave everything they touch alone (closures)
            for x in ast.walk(n):
                if isinstance(x, ast.Name):
                    declared.add(x.id)
                if isinstance(x, ast.arg):
                    declared.add(x.arg)
            if not isinstance(n, ast.Lambda):
                declared.add(n.name)
    for n in ast.walk(fn):
        if isinstance(n, ast.Name) and isinstance(n.ctx, (ast.Store, ast.Del)):
            names.add(n.id)
        if isinstance(n, ast.ExceptHandler) and n.name:
            declared.add(n.name)
        if isinstance(n, (ast.Import, ast.ImportFrom)):
            for a in n.names:
                declared.add((a.asname or a.name).split('.')[0])
    return names - params - declared


def unsafe(fn):
    for n in ast.walk(fn):
        if isinstance(n, ast.Call) and isinstance(n.func, ast.Name) and n.func.id in ('eval', 'exec', 'locals', 'vars', 'globals', 'compile'):
            return True
        if isinstance(n, ast.Call) and isinstance(n.func, ast.Attribute) and n.func.attr in ('eval', 'symtable'):
            return True
    return False


class Ren(ast.NodeTransformer):
    def __init__(self, names, root):
        self.names, self.root = names, root

    def visit_Name(self, n):
        if n.id in self.names:
            return ast.copy_location(ast.Name(id=n.id + '_rn', ctx=n.ctx), n)
        return n

    def visit_FunctionDef(self, n):
        if n is self.root:
            self.generic_visit(n)
        return n
    visit_AsyncFunctionDef = visit_FunctionDef

    def visit_ClassDef(self, n):
        return n

    def visit_Lambda(self, n):
        return n


def variant(text, fn):
    """source text with fn's locals renamed (the function is re-emitted with ast.unparse at its indentation)"""
    names = local_names(fn)
    if not names or unsafe(fn):
        return None, names
    lines = text.split('\n')
    start = min([fn.lineno] + [d.lineno for d in fn.decorator_list]) - 1
    end = fn.end_lineno
    indent = len(lines[fn.lineno - 1]) - len(lines[fn.lineno - 1].lstrip())
    import copy
    new = Ren(names, None)
    fcopy = copy.deepcopy(fn)
    new.root = fcopy
    fcopy = new.visit(fcopy)
    ast.fix_missing_locations(fcopy)
    code = ast.unparse(fcopy)
    code = '\n'.join((' ' * indent + l) if l.strip() else l for l in code.split('\n'))
    return '\n'.join(lines[:start] + [code] + lines[end:]), names


def findings(prop, overlay):
    mod = importlib.import_module('pncstatic.rules.%s' % prop.lower())
    src = engine.Source(overlay=overlay)
    ctx = report.Ctx(prop, 'quick', src, quiet=True)
    try:
        mod.run(ctx)
        generic.run(ctx)
    except engine.AnalysisError as e:
        return None, str(e)
    except Exception as e:
        return None, 'internal: %s: %s' % (type(e).__name__, e)
    return set((f.rule, f.relpath, f.func, f.stmt) for f in ctx.findings), None


def scope(prop, src):
    """files a check reads: its generic anchors plus whatever its rule module names"""
    files = set(generic.anchor_files(prop, src))
    mtext = open(os.path.join(os.path.dirname(os.path.dirname(os.path.abspath(__file__))), 'pncstatic', 'rules', prop.lower() + '.py')).read()
    for rp in src.relpaths():
        if ("'%s'" % rp) in mtext or rp in mtext:
            files.add(rp)
    return files


def one(task):
    prop, rp, q, base = task
    src = engine.Source()
    m = src.mod(rp)
    fn = m.functions[q]
    text = src.text(rp)
    v, names = variant(text, fn)
    if v is None:
        return (prop, rp, q, 'skipped', '')
    try:
        compile(v, rp, 'exec')
    except SyntaxError as e:
        return (prop, rp, q, 'skipped', 'variant does not compile: %s' % e)
    got, err = findings(prop, {rp: v})
    if got is None:
        return (prop, rp, q, 'exit2', err)
    # findings are keyed by statement text, which changes with the names: compare by (rule, file, function) multiset
    def key(s):
        out = {}
        for f in s:
            out[(f[0], f[1], f[2])] = out.get((f[0], f[1], f[2]), 0) + 1
        return out
    kb, kg = key(base), key(got)
    new = [k for k in kg if kg[k] > kb.get(k, 0)]
    if new:
        return (prop, rp, q, 'FALSE-ALARM', '; '.join('%s in %s' % (k[0], k[2]) for k in new))
    return (prop, rp, q, 'ok', '')


def main():
    argv = sys.argv[1:]
    jobs = 16
    if '--jobs' in argv:
        i = argv.index('--jobs')
        jobs = int(argv[i + 1])
        del argv[i:i + 2]
    args = [a for a in argv if not a.startswith('--')]
    props = args or [c['property_id'] for c in json.load(open('/verif/MANIFEST.json'))['checks']]
    src = engine.Source()
    tasks = []
    for prop in props:
        base, err = findings(prop, {})
        if base is None:
            print('BASELINE-ERROR', prop, err)
            continue
        for rp in sorted(scope(prop, src)):
            try:
                m = src.mod(rp)
            except Exception:
                continue
            for q, fn in sorted(m.functions.items()):
                if '<locals>' in q or 'Test' in q or q.split('.')[-1].startswith('test'):
                    continue
                tasks.append((prop, rp, q, base))
    with multiprocessing.Pool(jobs) as pool:
        res = pool.map(one, tasks, chunksize=4)
    cnt = {}
    for r in res:
        cnt[r[3]] = cnt.get(r[3], 0) + 1
        if r[3] in ('FALSE-ALARM', 'exit2'):
            print('%-11s %s %s %s :: %s' % (r[3], r[0], r[1], r[2], r[4][:160]))
    print('variants: %d  %s' % (len(res), cnt))


if __name__ == '__main__':
    main()
