#!/venv/bin/python
"""Regenerate /verif/MANIFEST.json from the table below (kept in one place)."""
import json, os, sys
HERE = os.path.dirname(os.path.dirname(os.path.abspath(__file__)))
sys.path.insert(0, HERE)
import importlib

CLAIMED = {
 # id: (technique, level_note, design_ref)
 'C02': ('abstract interpretation over the finite selector-kind domain {INT, SLICE, SEQ}: predicate and rewrite evaluation per kind, guard-derived kind multisets per numpy subscript, numpy advanced-indexing rule; mask/attribute/time-flag lints',
         'Decides the orthogonality precondition: at no numpy subscript of sliceDimensions can an arbitrary-length sequence meet another advanced index (enumerated for all kind multisets up to rank 4, '
         'which covers every combination since only the count of sequences matters); selected values keep their mask; attributes are copied; the IOAPI wrapper keeps the selected time flags. '
         'Not decided: value equality with a per-axis take for every selector, keyword-order independence. Trusted: numpy indexing rule as documented.', '4/C02'),
 'C09': ('symbolic interpreter of the writers + size algebra: emission sequences parsed into Fortran records, marker == payload as polynomial identity; pad stores vs dtype-literal byte sums; record-kind sequence vs reader record; shared slot/cell-count rules',
         'Decides: for 7 CAMx writers and writeline, every record has equal markers whose value is the payload byte count for all sizes and the sequence tiles into records; SPAD/EPAD pads (CAMx, landuse key, bpch) equal the bracketed bytes; '
         'per-layer record pieces match the reader record; header dates/cell counts agree with content; met readers detect time steps with the full identifier. Undecided (listed): wind LSTAGGER size, records copied from a reader, land-use data pads. '
         'Not decided: that an independent decoder recovers the content, reference-encoder -> reader direction.', '4/C09'),
 'C13': ('struct-format expansion vs dtype-literal layouts, identifier-window extraction, slot-consistency of the layer count, stride constants derived from the writer record sizes, finite case analysis of time normalisation',
         'Decides: uamiv record formats and memmap layouts are one word sequence; met readers agree on the two identifier words; step detection uses the full identifier; uamiv record offsets use one layer count; wind per-step stride = '
         'padded time header + dummy record size the writer emits; timeadd normalises into [0, eod); record readers use existing numpy APIs. Not decided: termination and data equality of both readers for every file.', '4/C13'),
 'C18': ('dtype-literal evaluator with byte offsets across reader/writer/second reader, inverse-relation and mirrored-branch checks, provenance check that the writer leaves its input untouched, row-aliasing lint, lookup-preference template',
         'Decides: block layouts agree in all three implementations; positional reader fields sit at the writer named fields; scale applied/removed on mirrored branches with key id + offset and a new array; tracer-table rows are fresh dicts; '
         'second reader prefers the offset row; pads; numpy API incl. dtype strings from plain integers. Not decided: byte identity of a rewrite, multi-block strides.', '4/C18'),
 'C08': ('dtype-literal evaluator + size algebra: writer/reader header layout comparison, inverse-relation check of header field <-> attribute/dimension maps, slot-pairing rules for begin/end flags, sibling table agreement, installed-numpy API resolution',
         'Decides: uamiv / lateral_boundary / landuse record layouts agree between Write.py and Memmap.py; every header field filled from an attribute or dimension is read back into the same one; '
         'begin/end date-time fields are paired within their slot (also at roll-over); boundary edge/cell-count and cloud/rain variable-order tables agree; writers and readers use only existing numpy APIs. '
         'Not decided: float32 identity of payloads, date roll-over arithmetic values, byte-identical rewrite.', '4/C08'),
 'C01': ('ast pairing rule createDimension/setunlimited with a survive-from-source relation (loop key, bulk copy, indexed read), verification of the two dimension-copy primitives, who-may-write rule for the attribute-name list',
         'Decides: every re-creation of a dimension that survives from a source propagates the unlimited flag; copyDimension/addDimension keep it on all branches; the attribute '
         'list is written only by life-cycle methods in step with the attribute store. Not decided: shape/dimension agreement after arbitrary operation sequences, completion of '
         'in-domain operations (run-time shapes).', '4/C01'),
 'C04': ('order-preserving dataflow over the file list, typestate (present/absent) walk of the per-variable loop, pairing rules, for/else lint, delegation template',
         'Decides: inputs reach numpy.ma.concatenate/stack in argument order with the receiver first; stacked length is the sum over the same list; every concatenation keeps masks; '
         'a variable already in the output is never overwritten by a later file; unlimited flags kept; search loops can terminate; helpers delegate to stack. Not decided: equality '
         'of data/masks, the split/stack inverse law.', '4/C04'),
 'C07': ('ast checks of the netCDF converter: unlimited-branch verification, getattr-chain source of the fill value, sibling agreement of fill-attribute sets, aliasing of class-level defaults (provenance), definition order',
         'Decides: unlimited source dimensions are created unlimited on every path; masked cells are filled from the destination variable; the three fill-attribute sets agree; '
         'keywords are copied from class defaults; the converter writes neither its source nor class state; dimensions/definitions precede data. Not decided: attribute/dtype/flavour '
         'fidelity, bit-identical data (netCDF C library at run time).', '4/C07'),
 'C19': ('line algebra (symbolic count of print statements with loop trip counts as polynomial atoms), writer/reader line-order table comparison, source-agreement and format lints',
         'Decides: declared header-line, variable and comment counts equal the emitted ones for every attribute/variable set; k-th written line is what the reader reads at '
         'line k; declared missing code = fill of masked cells; %.6e from a float64 matrix; reader masks by exact equality. Not decided: seven-digit value equality, '
         'idempotence of a second cycle, attribute values containing newlines.', '4/C19'),
 'C20': ('constant/width agreement between pack2d and unpack, finite case analysis of the exponent rounding over sign/integrality classes, width algebra writer/reader/length formula, shape agreement of the layer-key table',
         'Decides: encoder and decoder share exponent bias, byte offset and float32 working precision; stored exponent is strictly above log2(max difference) in all five '
         'classes; index-record widths and header field formats agree; elapsed hours from total_seconds. Reports that the ARL writer cannot run (known finding). Not decided: '
         'the quantisation error bound, checksum value.', '4/C20'),
 'C10': ('override resolution along the statically computed MRO + DIRTY/SYNCED typestate walk (path walker, parameter defaults / literal call arguments, memoised summaries) + table checks on updatemeta',
         'Decides: every public file-returning operation resolved for receiver ioapi_base returns after updatemeta() on all paths; copy contract; the four encodings of '
         'the variable count are each reconciled under a test of themselves; count attributes set from dimensions; level-edge guard is a tautology. Operations still '
         'inheriting the IOAPI-unaware base definition are reported (2 recorded as known findings). Not decided: that updatemeta computes right values (e.g. SDATE after '
         'a time reduction). Trusted: frozen BASE_OK table with reasons.', '4/C10'),
 'C11': ('ast slot-consistency template for the origin updates, exhaustive per-dimension handler table, size algebra on the level-edge guard, source-of-times check',
         'Decides for ioapi_base.sliceDimensions: handlers for COL/ROW/LAY/TSTEP store the named attributes before updatemeta; each horizontal handler uses only its own axis names '
         'and the source length; the VGLVLS guard holds for every layer window; start date/time come from the source decoded times. Not decided: numeric agreement of '
         'coordinates, edges and times for every window.', '4/C11'),
 'C06': ('ast table/dispatch checks: exhaustive operator and predicate tables, must-pass-through of masked_invalid, mask-dropping-conversion lint on the value paths, result-dtype source',
         'Decides the dispatch structure for all 16 operators and 8 mask predicates, masked_invalid on the value path, no mask-dropping conversion '
         'between computation and store (pncbo, eval), result dtype from the computed value, coordinate pass-through. Not decided: elementwise values, '
         'what an eval expression computes. Trusted: frozen table of mask-dropping numpy conversions.', '4/C06'),
 'C12': ('size algebra on the unit table, constant evaluation of the calendar table, information-flow lint for time of day, radix (units-of-measure) typing of YYYYJJJ/HHMMSS values with reaching-use reporting',
         'Decides: unit-denominator table consistent for all calendar lengths; calendar aliases map to years of the right length; sub-day offset reaches the '
         'output; date values meet only date radices/slots and time values only time radices/slots in 14 decoder/encoder functions; astimezone before dropping '
         'tzinfo. Not decided: agreement with an independent CF-time implementation, reference-date parsing. Trusted: IOAPI column convention; calendar.isleap on literals.', '4/C12'),
 'C05': ('ast path walker + alias/view provenance lattice (must-alias write sinks, result-aliasing sinks), typestate rule for the native close',
         'Decides: no non-mutator method/function writes storage that must-alias its receiver or arguments; no result variable / dimension '
         'table is a view of an input (incl. the zero-iteration path of copying loops); native close guarded by isopen(). Not decided: aliasing '
         'created by user eval text, values of UNKNOWN provenance (listed as undecided), GC schedules as such. Trusted: numpy view/copy fact '
         'table, netCDF4 close/isopen semantics, frozen mutator-by-contract table.', '4/C05'),
 'C16': ('ast lints on the lookup functions: discarded-pure-expression, direction-branch pairing, installed-numpy API resolution, provenance write check, exact-membership and tz-conversion idioms',
         'Decides structural necessary conditions only (no discarded reversal, every interp abscissa reversed with the index vector, API exists, '
         'coordinate never written, exact mask by exact membership, astimezone before dropping tzinfo). Not decided: nearest/containing-cell '
         'correctness at every edge. Trusted: np.interp needs an increasing abscissa; hasattr() on the installed numpy.', '4/C16'),
 'C15': ('ast who-may-mutate analysis with alias provenance of module globals; purity lint of isMine',
         'Decides only: the reader registry is mutated by registerreader alone (through any alias) and isMine writes no '
         'global/class state. Not decided: equality of auto-detected vs explicitly named results. Trusted: CPython ast; '
         'frozen list of list/dict mutating methods.', '4/C15'),
}

# clauses added when rules were generalised after the seeded waves: (technique suffix, level_note suffix)
EXTRA = {
 'C01': ('None-guard lint on optional numeric parameters, attribute-store bypass rule, dimension-source and axis-permutation rules, variable-store rule',
         'Also decides: optional numeric arguments are tested with "is None"; attributes are never stored/deleted behind the attribute-name list; re-created dimensions take their length from the right source; '
         'axis moves name the axis they move; variables enter a result through the copying primitives.'),
 'C02': ('numpy-integer kind NPINT in the kind domain, unit-slice constant evaluation, per-variable axis rule, dimension-length rule',
         'Also decides: numpy integers are classified like Python integers; the unit slice built for an integer selects exactly that index (incl. -1); the axis of a selection is computed per variable; '
         'result dimension lengths come from the selected values; joins of per-point pieces keep masks.'),
 'C04': ('axis-source rule for every concatenation, call-vs-reference rule for the unlimited flag',
         'Also decides: every concatenation passes axis= the position of the stack dimension in that variable; the unlimited flag handed on is the result of calling isunlimited(), never the bound method.'),
 'C05': ('numpy fact: np.ma.masked_*(copy=False) writes into the mask of an already masked argument',
         'Also decides: no query applies a masked-array constructor with copy=False to storage of its receiver/arguments.'),
 'C06': ('namespace-priority rule for eval, template lint for mask predicates',
         'Also decides: file variables take priority over helper names in the eval namespace; each mask predicate applies its own numpy constructor to the values.'),
 'C07': ('verbatim-flow lint, attribute-completeness and iteration-order rules',
         'Also decides: names/values read from the source reach the destination unchanged; no global attribute is filtered out; variables are defined in source order.'),
 'C08': ('local alias analysis for in-place updates, raw-dtype taint for dtype views',
         'Also decides: no writer updates in place an array that aliases one still to be written (begin vs end dates); input data reach the file through astype, never through a reinterpreting dtype view.'),
 'C10': ('finite case analysis of the VAR-LIST eligibility predicate, must-store walk of the time handler, origin analysis of the stored level edges',
         'Also decides: a name stays listed only with one of the two standard dimension tuples; SDATE/STIME are set on every path of a time selection; interpSigma stores the requested edges.'),
 'C11': ('kind-domain comparison wrapper vs base, HHMMSS radix rule for arithmetic encodings, layer-selector normalisation rule',
         'Also decides: the wrapper classifies selector kinds like the base method; a step encoded arithmetically is hours*10000 + minutes*100 + seconds; the layer selector is resolved against the layer count before it indexes the edge array.'),
 'C12': ('format-string rules for reference dates and TSTEP text, parameter dead-store lint',
         'Also decides: strptime formats have no field gaps; the TSTEP text is sliced from the right; a resolved parameter value is not overwritten unread.'),
 'C13': ('size algebra on the uamiv record position and the wind header scan, normal-form rule for the equality-terminated time loop, dead-parameter rule over all record-reader methods',
         'Also decides: the number of time headers before a record equals the number of whole steps; the wind scan skips exactly the records counted between two headers; both tuples of the terminating comparison of timerange are normalised; '
         'no selector parameter of a record-reader method is ignored.'),
 'C15': ('control-dependence rule on the acceptance call, one-shot-iterator lint on module state read by isMine, finite case analysis of the ICARTT sniffer on sample first lines',
         'Also decides: getreader returns a reader only under a call of its acceptance test; isMine reads no module-level one-shot iterator; ffi1001.isMine accepts exactly the first lines the reader accepts (frozen samples, anchored in the reader grammar).'),
 'C16': ('mask-keeping and parameter dead-store lints, documented-default agreement',
         'Also decides: looked-up values keep their mask; resolved parameters are used; documented defaults equal the coded ones.'),
 'C18': ('keyword-forwarding table vs back-end signatures, per-block dependence rule in the writer loop, attribute<-field name pairing in the second reader',
         'Also decides: the combined reader forwards to each back end exactly the options both accept; every header field of a block depends on that block only (no leftover loop variable); cached header attributes come from the like-named field.'),
 'C19': ('finite case analysis of the variable-line branch of the reader (constant evaluator incl. re on constants), shape typestate of the parsed data block, significant-digit comparison of text conversions, reader line-constant algebra',
         'Also decides: a written "NAME, UNITS" line reads back exactly (also empty units); the parsed block is reshaped to (records, variables) before per-variable indexing; the declared missing code keeps at least the digits of the data format; '
         'reader line constants make the header blocks contiguous. Assumes codes with at most 7 significant digits.'),
 'C20': ('shape rule max(abs(.)) for the range estimate, slot pairing of the extended-grid offsets, finite case analysis of the 6-character level text, record-length algebra',
         'Also decides: both range components are max of absolute differences; x/y grid offsets come from GRID[0]/GRID[1] and go to NX/NY; level texts of magnitudes below 1e5 (incl. exact powers of ten) parse back within half a unit of the last place; '
         'index and data records have 50 + nx*ny bytes.'),
}

# clauses added after the second held-out wave
EXTRA2 = {
 'C01': 'Also: `x = x or default` on optional numeric parameters; squeeze without axis= in removeSingleton.',
 'C02': 'Also: a dimension length computed from slice.indices() is checked on 15 sample slices (reversed, strided, empty); np.resize/append/insert/delete/pad/broadcast_to are mask droppers (calibrated).',
 'C04': 'Also: a sequence argument that is materialised with list() is iterated nowhere else (one-shot iterables); global attributes come from the first file; variables copied through the converter into an in-memory file keep their mask (R-PASSMASK).',
 'C05': 'Also: no dimension object of an input is stored in the dimension table of a possibly new file.',
 'C06': 'Also: finite case analysis of the condition that applies a positional mask to a variable (10 cases); a structure-only copy keeps the coordinate keys. Every masked_* step of mask() is checked against a numpy.ma contract table (keeps / rebuilds the incoming mask); the masked_values step it flagged is fixed in /repo (7bb5efd).',
 'C07': 'Also: every parameter of the converter functions is read (options forwarded); the 0-d branch stores the array, never an extracted scalar; a looked-up fill value is never tested for truth (0 is a fill value); attributes reach the destination through setncattr (R-NCATTRAPI; the global-attribute defect it flagged is fixed in /repo d8f8c27).',
 'C08': 'Also: century pivot and offsets decode 00-69 as 20xx and 70-99 as 19xx per element; boundary keys are split at the first underscore only; writers never write storage of their input (provenance); dtype-preserving astype is not a conversion; cloud/rain record order is a literal list; every value a CAMx writer emits has its byte order fixed by the writer, never that of an input attribute (R-BYTEORDER, 70 sites); the land-use writer emits the category record first (R-LUORDER); the memory-mapped met readers define the step-boundary search for single-step files (R-ONESTEP; defects fixed in /repo 83cdc6c, c58f3b1).',
 'C09': 'Also: an astype that keeps the input item size gives a symbolic item size, so marker = payload fails as a polynomial identity. Reader direction: a key probe with a no-key branch must read the probed bytes with an operation that is total over byte strings (R-PROBETOTAL; the land-use reader defect it flagged is fixed in /repo, ab9dd89). List pieces built by repetition are checked for a count that is negative at the smallest lengths the statement admits (the lateral-boundary defect it flagged is fixed in /repo, 0e9d1a3).',
 'C10': 'Also: handler guards are membership tests (not truthiness / selector kind / elif of another dimension); applyAlongDimensions and ncf2ioapi store NLAYS + 1 edges (size algebra); every decode of the fixed-width VAR-LIST cuts 16-character fields (R-VARLISTWIDTH; defect fixed in /repo e1e7347).',
 'C11': 'Also: each georeferencing handler runs whenever its dimension is selected (no truthiness test of the selector, no elif chaining of ROW after COL).',
 'C12': 'Also: datetime64 unit no coarser than the resolution found; epoch seconds never cast to 4-byte integers; updatetflag deletes the old TFLAG before it asks getTimes(); in 365/366-day calendars the reference date enters as its positive offset into the model year (R-REFSHIFT).',
 'C13': 'Also: one end-of-day constant per record reader (run-time choices undecided); wind memmap step size = header + 2 x layers x record + dummy (size algebra); a record scan driven by record_size can leave at end of file, where RecordFile.next() is silent (R-SCANEOF).',
 'C15': 'Also: registerreader refuses a taken name whatever the class (case analysis); the extension is derived with os.path functions only; pncmfopen passes the caller keywords unchanged.',
 'C16': 'Also: time2t unit table; both range limits from the edge array; no sorting/merging of coordinate or edge values.',
 'C18': 'Also: [tau0, tau1] paired by transposition; attribute <- like-named header field through nested subscripts.',
 'C19': 'Also: column-name line and data columns built from one ordered key list; lower/upper detection-limit blocks use only their own names.',
 'C20': 'Also: both sweeps of pack2d use the same integer conversion; VAR1 and EXP handed to unpack are indexed alike; no function reads and fills a mutable default argument.',
}
# clauses added after the fourth held-out wave
EXTRA4 = {
 'C01': 'eval gives borrowed dimension names only to results that carry none; the new length in the N-d branch of interpDimension is shape[axis of the dimension].',
 'C02': 'Companion dimensions of the string form are exactly D<digits> (10 sample names); the new zipped dimension is placed by the order of the variable dimensions; the fill-value lookup of copyVariable is not restricted to ncattrs().',
 'C03': 'Companion dimensions of reduce_dim are exactly D<digits>; convolve_dim applies np.convolve with the given weights.',
 'C04': 'The pieces handed to the concatenation are data reads, not variable objects; copyDimension(D, key=K) takes D from the dimension named K.',
 'C05': 'In-place writes on a view of a file that is the input on at least one path are reported.',
 'C06': 'Besides coordinate keys pncbo copies a variable only when the right operand lacks it; the parse of mask definitions keeps every argument (5 cases); every name in an expression template that mask_vals evaluates is bound there and no template strips an existing mask (R-MASKTMPL; defect fixed in /repo d50a86d).',
 'C08': 'A day carry is never computed from a value already reduced modulo the day length; the cloud/rain size probe tries the layout the writer emits first.',
 'C10': 'updatetflag stores SDATE/STIME from the rebuilt TFLAG; adddims deletes every dimension only some FTYPE branch creates; applyAlongDimensions has a TSTEP handler that stores SDATE/STIME from decoded times and replaces the arithmetically reduced TFLAG (R-TIMEREDUCE; defect fixed in /repo 3bd4abb).',
 'C11': 'No arithmetic on a YYYYDDD-coded attribute in the new SDATE; the TSTEP store is controlled only by the selector and the number of retained times.',
 'C12': 'calendar and units are read from the time variable before the name is re-bound to bounds.',
 'C13': 'LAY, TSTEP and the reshape of the variable getter agree on the records per step; no generator-valued attribute is iterated by a method; __timerecords measures from (start_date, start_time).',
 'C15': 'Helpers called by a sniffer are neither memoised nor write module state; mutable default arguments in the selection code.',
 'C16': 'Every edge-taking path of the candidate loop ends in break; the request is not converted with a dtype taken from the coordinate; limits held in names are read after the reversal of a descending edge array.',
 'C17': 'The thickness factor of the mass weights comes from the source edges along the source axis; sigma = (p - top) / (p[0] - top) in both GEOS-Chem implementations; with coordkey given the old coordinate is self.variables[coordkey].',
 'C18': 'The per-block structure assertions cover every time step; the time blocks of a variable are iterated in file order.',
 'C19': 'A declared count len(<anything>) is compared with the block it announces; the scale / missing-code parsers accept what the writer emits.',
 'C20': 'Written pieces have width intervals: caller data cut to N is 0..N wide unless padded first.',
}
# clauses added after the fifth held-out wave
EXTRA5 = {
 'C01': 'No loop body reads the loop variable of an earlier, finished loop; a `K not in A.dimensions` guard adds K to A itself.',
 'C02': 'The default type of a copied variable is the complete dtype of the source, not its one-letter code.',
 'C03': 'The level edges the IOAPI wrapper recomputes keep the order and number of the new layers (no unique / sort / reversal).',
 'C04': 'The default stack dimension is the unlimited one, a time-like name only as fallback; names imported from the standard library inside a stack method exist (defect fixed in /repo 0b4a2a2).',
 'C05': 'close / __del__ / __exit__ of a class never close an object that was handed to its constructor.',
 'C06': 'Thresholds of mask() are compared as given (no conversion to the data type); with the default of `missing`, setCoords registers every key; copies keep the complete dtype.',
 'C07': 'The data of every variable are written on every path through the converter; attribute copies are skipped only on the documented conditions.',
 'C08': 'The land-use reader records the style under the name the writer asks for; a single element of a flat map is not re-interpreted with an explicit byte order; a text attribute whose length sizes a record is stored as decoded; a Julian date that received a day carry is normalised for the year end (defect fixed in /repo 2c22140).',
 'C09': '.nbytes of an emitted array is a symbolic item-size product in the frame algebra.',
 'C10': 'The length tested for a multiple of 16 is that of VAR-LIST itself, not of a stripped copy; names appended to VAR-LIST never include TFLAG / ETFLAG.',
 'C12': 'datetime64 precision, all of hours / minutes / seconds of HHMMSS reach the decoded time, time stores keep the decoded value; in 365/366-day calendars the time of day of the reference date enters the shift on every path (defect fixed in /repo 1d2cf32).',
 'C13': 'The step identifier compares the named date and time columns; the step count divides by the records per step.',
 'C14': 'The first-step probe and the strided time flags use the same records-per-step constant.',
 'C15': 'No isMine hands the decision to the isMine of a reader class that is not its base class.',
 'C16': 'Range checks use both ends of the coordinate; exact membership does not assume uniqueness; date2num reads the calendar under the CF attribute name.',
 'C17': 'A local bound to an array attribute of the receiver is not updated in place; no shortcut around the weight matrix for equal grids.',
 'C18': 'Column tiles, rewind copies and the three-block window of the bpch readers agree with the writer.',
 'C19': 'The independent-variable header line names the variable written as first column; an encoding fixed by the writer is the default encoding of the reader.',
 'C20': 'The checksum is the byte sum modulo 255; the YYMMDDHHFF stamp is cut to eight characters and parsed as %y%m%d%H.',
}
# clauses added after the sixth held-out wave
EXTRA6 = {
 'C01': 'The attribute-name list extended with += (k, ) is always a tuple; insertDimension creates a dimension only when the result lacks it.',
 'C02': 'The test of the pointwise branch of sliceDimensions is evaluated on 9 cases when it is not in the known spelling; fill values are never used as truth values; `p = p or <tuple>` is reported.',
 'C03': 'Every reducer call of reduce_dim keeps the axis; the weights of convolve_dim are not rescaled; elapsed times come from total_seconds().',
 'C04': 'A stack override that rebuilds the time coordinate writes the unit word of its own divisor.',
 'C05': 'np.ma.fix_invalid(copy=False) on a view of an input and getVarlist() without update=False are writes to the receiver.',
 'C06': 'createVariable hands the initial values over as given; seqpncbo re-inserts the intermediate result at the front.',
 'C07': 'A type code is never taken from dtype.kind.',
 'C08': 'The year-end helper uses the pivot of the readers; a local that fills a header count has one definition, a dimension length; time stamps written inside the time loop of a met writer are defined per step.',
 'C10': 'ioapi_sort_meta counts the names decoded from VAR-LIST; add_ioapi_from_cf takes SDATE / STIME from record 0 of the arrays that fill TFLAG; time flags are encoded per time.',
 'C11': 'A step is not encoded through strftime of a date plus the step (wraps at 24 h; defect fixed in /repo f1a6a62).',
 'C12': 'Arithmetic decoding of packed H..HMMSS values uses the radices 10000 and 100 and never reduces the hours.',
 'C13': 'Header-layout branches of an end-of-file scan update the same attributes, no stamp-comparison exit; both readers of a format share the default grid shape (defect fixed in /repo 429fc54).',
 'C14': 'The tested remainder is that of the TSTEP quotient itself; the bpch header scan compares for equality only; bpch1 does not raise on a partial trailing block.',
 'C15': 'Module-level containers (also built with +) are not mutated through an alias.',
 'C16': 'time2t examines the resolution of the queries and of the file times; the closing-edge clamp lets NaN through; the UTC conversion gate covers every element.',
 'C17': 'Options reach getinterpweights on the parameter of their name; interpvars keeps the source type.',
 'C18': 'RESERVED is kept as read; each record type uses the dimensions of its own header; a group view looks the group-prefixed key up first.',
 'C19': 'Per-variable lists are read at the loop index; column names come from split(); a made-up revision date has the format the reader parses.',
 'C20': 'The within-row differences cover every column; nothing is stored into the decoded array after the cumulative sums; levels between 0 and 1 with five decimals format back.',
}
# clauses added after the seventh held-out wave
EXTRA7 = {
 'C01': 'slice_dim measures the new length on the sliced values; the last store of sliceDimensions keeps the reshape fallback.',
 'C02': 'No slice with the bare stop index + 1; nothing is stored into a selector array; anyisarray is evaluated on 5 cases.',
 'C03': 'The per-axis loop of applyAlongDimensions runs from the last axis to the first.',
 'C05': 'values= view chains of an input variable in splitdim are aliases.',
 'C06': 'eval never stores into an existing variable; the default --coordkeys keeps every pinned key.',
 'C07': 'The type code of a values= variable is the dtype char of the values; convert / addVariables end with an unconditional sync(); the netcdf reader never switches auto-scaling off.',
 'C09': 'LAY is max(header nz, 1).',
 'C12': 'getTimes drops tzinfo only after astimezone.',
 'C13': 'time_step of a record reader is a timediff of stamps; getArray keeps no work array on the reader; the species wrap test is spc > nspec; step detection never uses an ordering test.',
 'C14': 'No open-ended strided slice feeds TFLAG in the temperature / height_pressure getters; records per step are not unique counts.',
 'C15': 'pncopen pops its own options before the sniffers see the keywords.',
 'C16': 'The out-of-range action triggers on any value outside; no tolerance is added before truncation to a cell number.',
 'C17': 'exp under the same test as log; VGLVLS is not read again after the converted edges were bound.',
 'C18': 'add_lat reads STARTJ, add_lon STARTI; the per-tracer block table is keyed by (tau0, tau1).',
 'C19': 'Nothing is stored into a per-variable value array after it is built; a data cell that holds the missing code is written with every digit of the code, as the header declares it (defect fixed in /repo 84c90cb); a comment attribute is flattened to one line before it is printed (defect fixed in /repo 5cfa62d).',
 'C20': 'PREC follows the last assignment to NEXP; blanks of the stamp become zeros before parsing.',
}
# clauses added with the defects repaired after the fifth refactoring wave
EXTRA8 = {
 'C02': "slice_dim supplies the stop of the one-element form as index + 1 or None (defect fixed in /repo 99f1ca0: 'x,-1' was empty).",
 'C03': 'The output variable of applyAlongDimensions is created with the dtype of the computed values (defect fixed in /repo cf7dfff: the mean of integers was truncated).',
 'C04': 'Every stack override accepts the keywords the package passes to .stack() and binds its locals on every path (defect fixed in /repo 16a9565).',
 'C07': "A type code taken from dtype.char maps numpy's 'S' to the character type before createVariable (defect fixed in /repo 46d9062).",
 'C12': 'A TSTEP attribute of a CAMx reader computed from the first begin / end flags uses their dates as well (defect fixed in /repo e7c903c).',
 'C13': 'No squeeze() result of a record reader is indexed by position (defect fixed in /repo 18e2ae9: EMISSIONS files with one step, row or column).',
 'C16': 'A file attribute reaches timedelta() in getTimes only through int() / float() (defect fixed in /repo bc98fd6: numpy TSTEP); time2t reverses abscissae and index vector together for a descending time axis (defect fixed in /repo 0bbfed1).',
 'C18': 'The diaginfo text is not stripped of leading blanks (defect fixed in /repo 3a34f82); a block that repeats the first one is never added to the per-step layout (defect fixed in /repo c3b7dfd).',
 'C19': 'Header line 9 carries the units of the independent variable (defect fixed in /repo 62900c9).',
}
NA = {}

CLAIMED.update({
 'C03': ('ast checks of applyAlongDimensions: per-variable axis lookup, keepdims/axis agreement of both call forms, measured output lengths, mask-keeping value path, exhaustive store, wrapper delegation',
         'Decides structural necessary conditions only: the axis is the position of the dimension in the current variable; named reducers keep the axis (keepdims=True) and work on the running value; '
         'new dimension lengths are measured with the same function on the coordinate; no mask-dropping conversion; every variable is stored; the IOAPI wrapper delegates; the string forms pass untouched variables through a copy that keeps the mask of an in-memory target (R-PASSMASK). '
         'Not decided: equality of values with the numpy reduction for every shape, reducer and mask; commutation. Trusted: numpy reducer/apply_along_axis semantics.', '4/C03'),
 'C14': ('dtype-literal evaluator + size algebra on the file-size arithmetic of the memmap readers; guard/raise pairing; rounding lint',
         'Decides structural necessary conditions only: the divisor of the step count equals the item size of the mapped block type (uamiv, lateral_boundary: polynomial identity in nx, ny, nz, nspec); '
         'counts come from floor division or from a true division with an integrality test that raises; nothing rounds up; bpch maps exactly the counted blocks; the wind step size includes the dummy record; the wind record scan raises at end of file instead of looping (R-SCANEOF). '
         'Not decided: the outcome at every byte offset of a cut (numpy.memmap / reshape validation at run time).', '4/C14'),
 'C17': ('ast shape checks of the weight construction and of every application (broadcast axis vs summed axis), same-weights rule for the normaliser, overlap-fraction form',
         'Decides structural necessary conditions only: weights = linear interpolant of identity(xs.size) at the targets, clipped at 0 then divided by their sum over the source axis; six applications contract the '
         'source axis; the mass-conserving form divides by the sum of the weights it multiplies with; overlap fractions are clipped top minus clipped bottom at [source, target]. '
         'Not decided: linear exactness and conservation for every grid (floating-point algebra). Trusted: scipy interp1d, numpy broadcasting.', '4/C17'),
})
PENDING = 'static checker for this property is not built yet in this round (see DESIGN 10); not claimed until it is'
ALL = ['C%02d' % i for i in range(1, 21)]

def main():
    checks = []
    for pid in ALL:
        if pid not in CLAIMED:
            continue
        tech, note, ref = CLAIMED[pid]
        if pid in EXTRA:
            tech, note = tech + '; ' + EXTRA[pid][0], note + ' ' + EXTRA[pid][1]
        if pid in EXTRA2:
            note = note + ' ' + EXTRA2[pid]
        if pid in EXTRA4:
            note = note + ' ' + EXTRA4[pid]
        if pid in EXTRA5:
            note = note + ' ' + EXTRA5[pid]
        if pid in EXTRA6:
            note = note + ' ' + EXTRA6[pid]
        if pid in EXTRA7:
            note = note + ' ' + EXTRA7[pid]
        if pid in EXTRA8:
            note = note + ' ' + EXTRA8[pid]
        note = note + ' Generic baseline-relative rules over the anchored files (pncstatic/generic.py): unused parameters, read mutable defaults, collapsed element-wise choices, uncalled methods, one-shot iterators, module and class state, truthiness defaults of numeric options, broken swaps, un-adapted sibling statements. Clauses added wave by wave are listed in DESIGN section 4.'
        mod = importlib.import_module('pncstatic.rules.%s' % pid.lower())
        checks.append(dict(
            property_id=pid,
            quick_cmd='/venv/bin/python /verif/check %s --tier quick' % pid,
            thorough_cmd='/venv/bin/python /verif/check %s --tier thorough' % pid,
            evidence_file='/verif/evidence/%s.json' % pid,
            replay_cmd_template='/venv/bin/python /verif/check %s --replay {path}' % pid,
            engine='pncstatic',
            level_claimed=dict(category='other', text=mod.LEVEL_TEXT, design_ref='DESIGN.md section ' + ref),
            level_note=note, technique='static analysis: ' + tech))
    na = []
    for pid in ALL:
        if pid in CLAIMED:
            continue
        na.append(dict(property_id=pid, reason=NA.get(pid, PENDING)))
    man = dict(
        version=1,
        setup_cmd='/venv/bin/python -c "import ast, sys; sys.path.insert(0, \'/verif\'); import pncstatic.engine"',
        hooks=dict(guard='PSEUDONETCDF_VERIF', enable='none needed: the checks parse /repo/src with ast and never import or run it',
                   baseline_off_cmd='/venv/bin/python /verif/tools/baseline.py /repo', source_commits=[], add_only=True),
        engines=[dict(name='pncstatic', path='/verif/pncstatic', serves_properties=sorted(CLAIMED),
                      kind_free_text='repository-specific static analysis on the stdlib ast: source model with MRO/alias '
                                     'resolution, path walker, alias/view provenance lattice, size algebra, dtype-literal evaluator')],
        checks=checks,
        notes='All checks are static (ast only); exit 0/1/2 = holds / VIOLATION / ANALYSIS-ERROR. Known findings: /verif/known_findings.json.',
        not_applicable=na)
    with open(os.path.join(HERE, 'MANIFEST.json'), 'w') as f:
        json.dump(man, f, indent=1)
    import jsonschema  # noqa
if __name__ == '__main__':
    try:
        main()
    except ImportError:
        pass
    print('MANIFEST.json written')
