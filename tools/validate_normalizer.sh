#!/bin/bash
# usage: validate_normalizer.sh <seed id>      (development aid, not a check: nothing here decides a property)
# Soundness test of pncstatic/normalize.py on a behaviour-preserving seed: the patched modules are replaced by the *normalised* source
# (ast.unparse of what the rules are shown) in a scratch worktree, and the seed's demo - a behaviour digest - must print what it prints
# on the clean tree.  A difference means the normaliser changed behaviour.
id=$1
sd=/verif/seeded/$id
wt=/tmp/wtn/$id
git -C /repo worktree add --detach $wt HEAD -q 2>/dev/null || exit 9
cd $wt
out=/tmp/wtn/$id.out; mkdir -p $out
(cd $out && cp $sd/demo.py . && PYTHONPATH=$wt/src timeout 900 /venv/bin/python -W ignore demo.py > clean.out 2>/dev/null); c1=$?
git apply $sd/patch.diff 2>/dev/null || git apply --3way $sd/patch.diff >/dev/null 2>&1
(cd $out && PYTHONPATH=$wt/src timeout 900 /venv/bin/python -W ignore demo.py > patched.out 2>/dev/null); c2=$?
stats=$(/venv/bin/python - $wt <<'PY'
import ast, os, subprocess, sys
sys.path.insert(0, '/verif')
from pncstatic import normalize as N
wt = sys.argv[1]
changed = subprocess.check_output(['git', '-C', wt, 'diff', '--name-only'], text=True).split()
tot = {}
for f in changed:
    if not f.endswith('.py') or not f.startswith('src/PseudoNetCDF/'):
        continue
    rp = f[len('src/PseudoNetCDF/'):]
    text = open(os.path.join(wt, f)).read()
    tree = ast.parse(text)
    st = N.normalize(rp, text, tree)
    if st:
        open(os.path.join(wt, f), 'w').write(ast.unparse(tree) + '\n')
        for k, v in st.items():
            if isinstance(v, int):
                tot[k] = tot.get(k, 0) + v
print(','.join('%s=%s' % kv for kv in sorted(tot.items())) or 'none')
PY
)
(cd $out && PYTHONPATH=$wt/src timeout 900 /venv/bin/python -W ignore demo.py > normalised.out 2>/dev/null); c3=$?
same12=$(cmp -s $out/clean.out $out/patched.out && echo 1 || echo 0)
same13=$(cmp -s $out/clean.out $out/normalised.out && echo 1 || echo 0)
echo "N$id rewrites[$stats] demo_exit=$c1/$c2/$c3 patched_same=$same12 normalised_same=$same13"
cd /; git -C /repo worktree remove --force $wt; rm -rf $out
