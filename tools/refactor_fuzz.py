#!/venv/bin/python
"""Mechanical behaviour-preserving rewrites as a test of the checkers (never of the repository).

For every function in the scope of a check, one rewrite kind at a time is applied to that function alone (all sites of the kind in the
function at once), the variant is analysed in memory (overlay) by the check, and the findings are compared with those on the
unchanged tree: a new finding is a FALSE-ALARM of the checker, an ANALYSIS-ERROR means a rule recognises the code by its spelling.
Each rewrite is behaviour-preserving by construction:

  flip      if c: A else: B              ->  if not c: B else: A           (plain if/else, no elif chain on either side)
  guard     loop body ending in `if c: A` (no else)  ->  `if not c: continue` then A
  nest      if a and b: A  (no else)     ->  if a: if b: A
  merge     if a: if b: A  (no elses, nothing else in the outer body)  ->  if a and b: A
  ifexp     if c: x = E1 else: x = E2    ->  x = E1 if c else E2
  unifexp   x = E1 if c else E2          ->  if c: x = E1 else: x = E2
  temp      x = f(...).attr / call result used as a whole right-hand side  ->  t = <call>; x = t   (a fresh single-use local)
  keys      k in d.keys()                ->  k in d          (only where d is spelled `<name>.variables`, `<name>.dimensions` or a plain dict local)
  dictcomp  dict([(k, v) for ...])       ->  {k: v for ...}
  demorgan  not (a or b) / not (a and b) ->  not a and not b / not a or not b  (and back, on `not x and not y`)

usage: refactor_fuzz.py [PROP ...] [--kinds flip,guard,...] [--jobs N]"""
import ast
import copy
import importlib
import json
import multiprocessing
import os
import sys
import warnings

sys.path.insert(0, os.path.dirname(os.path.dirname(os.path.abspath(__file__))))
warnings.simplefilter('ignore')
from pncstatic import engine, report, generic  # noqa


def neg(e):
    if isinstance(e, ast.UnaryOp) and isinstance(e.op, ast.Not):
        return e.operand
    if isinstance(e, ast.Compare) and len(e.ops) == 1:
        inv = {ast.Eq: ast.NotEq, ast.NotEq: ast.Eq, ast.Is: ast.IsNot, ast.IsNot: ast.Is, ast.In: ast.NotIn, ast.NotIn: ast.In}
        if type(e.ops[0]) in inv:
            return ast.Compare(left=e.left, ops=[inv[type(e.ops[0])]()], comparators=e.comparators)
    return ast.UnaryOp(op=ast.Not(), operand=e)


class Flip(ast.NodeTransformer):
    n = 0

    def visit_If(self, node):
        self.generic_visit(node)
        if node.orelse and not (len(node.orelse) == 1 and isinstance(node.orelse[0], ast.If)) and not (len(node.body) == 1 and isinstance(node.body[0], ast.If)):
            self.n += 1
            return ast.If(test=neg(node.test), body=node.orelse, orelse=node.body)
        return node


class Guard(ast.NodeTransformer):
    n = 0

    def _loop(self, node):
        self.generic_visit(node)
        last = node.body[-1] if node.body else None
        if isinstance(last, ast.If) and not last.orelse and len(node.body) >= 1 and not node.orelse:
            self.n += 1
            node.body = node.body[:-1] + [ast.If(test=neg(last.test), body=[ast.Continue()], orelse=[])] + last.body
        return node
    visit_For = visit_While = _loop


class Nest(ast.NodeTransformer):
    n = 0

    def visit_If(self, node):
        self.generic_visit(node)
        if not node.orelse and isinstance(node.test, ast.BoolOp) and isinstance(node.test.op, ast.And) and len(node.test.values) == 2:
            self.n += 1
            return ast.If(test=node.test.values[0], body=[ast.If(test=node.test.values[1], body=node.body, orelse=[])], orelse=[])
        return node


class Merge(ast.NodeTransformer):
    n = 0

    def visit_If(self, node):
        self.generic_visit(node)
        if not node.orelse and len(node.body) == 1 and isinstance(node.body[0], ast.If) and not node.body[0].orelse:
            self.n += 1
            return ast.If(test=ast.BoolOp(op=ast.And(), values=[node.test, node.body[0].test]), body=node.body[0].body, orelse=[])
        return node


class IfExp(ast.NodeTransformer):
    n = 0

    def visit_If(self, node):
        self.generic_visit(node)
        if len(node.body) == 1 and len(node.orelse) == 1 and isinstance(node.body[0], ast.Assign) and isinstance(node.orelse[0], ast.Assign) \
                and len(node.body[0].targets) == 1 and ast.dump(node.body[0].targets[0]) == ast.dump(node.orelse[0].targets[0]) and isinstance(node.body[0].targets[0], ast.Name):
            self.n += 1
            return ast.Assign(targets=node.body[0].targets, value=ast.IfExp(test=node.test, body=node.body[0].value, orelse=node.orelse[0].value), lineno=node.lineno)
        return node


class UnIfExp(ast.NodeTransformer):
    n = 0

    def visit_Assign(self, node):
        if isinstance(node.value, ast.IfExp) and len(node.targets) == 1 and isinstance(node.targets[0], ast.Name):
            self.n += 1
            return ast.If(test=node.value.test, body=[ast.Assign(targets=node.targets, value=node.value.body, lineno=node.lineno)],
                          orelse=[ast.Assign(targets=copy.deepcopy(node.targets), value=node.value.orelse, lineno=node.lineno)])
        return node


class Temp(ast.NodeTransformer):
    """x = <call>  ->  t = <call>; x = t  for plain-name targets (done by the caller on statement lists)"""
    n = 0


def temp_blocks(fn):
    n = 0
    taken = set(x.id for x in ast.walk(fn) if isinstance(x, ast.Name)) | set(a.arg for a in ast.walk(fn) if isinstance(a, ast.arg))
    for node in ast.walk(fn):
        for fld in ('body', 'orelse', 'finalbody'):
            blk = getattr(node, fld, None)
            if not (isinstance(blk, list) and blk and isinstance(blk[0], ast.stmt)):
                continue
            i = 0
            while i < len(blk):
                st = blk[i]
                if isinstance(st, ast.Assign) and len(st.targets) == 1 and isinstance(st.targets[0], (ast.Subscript, ast.Attribute)) and isinstance(st.value, (ast.Call, ast.BinOp, ast.Subscript)) \
                        and not any(isinstance(x, (ast.Yield, ast.Await, ast.NamedExpr)) for x in ast.walk(st.value)) \
                        and not any(isinstance(x, ast.Call) for x in ast.walk(st.targets[0])):
                    name = 'newvalue%d' % n
                    while name in taken:
                        name += '_'
                    taken.add(name)
                    blk[i:i + 1] = [ast.Assign(targets=[ast.Name(id=name, ctx=ast.Store())], value=st.value, lineno=st.lineno),
                                    ast.Assign(targets=st.targets, value=ast.Name(id=name, ctx=ast.Load()), lineno=st.lineno)]
                    n += 1
                    i += 2
                    continue
                i += 1
    return n


class Keys(ast.NodeTransformer):
    n = 0

    def visit_Compare(self, node):
        self.generic_visit(node)
        if len(node.ops) == 1 and isinstance(node.ops[0], (ast.In, ast.NotIn)):
            c = node.comparators[0]
            if isinstance(c, ast.Call) and isinstance(c.func, ast.Attribute) and c.func.attr == 'keys' and not c.args and isinstance(c.func.value, ast.Attribute) \
                    and c.func.value.attr in ('variables', 'dimensions'):
                self.n += 1
                node.comparators = [c.func.value]
        return node


class DictComp(ast.NodeTransformer):
    n = 0

    def visit_Call(self, node):
        self.generic_visit(node)
        if isinstance(node.func, ast.Name) and node.func.id == 'dict' and len(node.args) == 1 and not node.keywords and isinstance(node.args[0], (ast.ListComp, ast.GeneratorExp)) \
                and isinstance(node.args[0].elt, ast.Tuple) and len(node.args[0].elt.elts) == 2:
            self.n += 1
            return ast.DictComp(key=node.args[0].elt.elts[0], value=node.args[0].elt.elts[1], generators=node.args[0].generators)
        return node


class DeMorgan(ast.NodeTransformer):
    n = 0

    def visit_UnaryOp(self, node):
        self.generic_visit(node)
        if isinstance(node.op, ast.Not) and isinstance(node.operand, ast.BoolOp):
            self.n += 1
            op = ast.And() if isinstance(node.operand.op, ast.Or) else ast.Or()
            return ast.BoolOp(op=op, values=[neg(v) for v in node.operand.values])
        return node


KINDS = {'flip': Flip, 'guard': Guard, 'nest': Nest, 'merge': Merge, 'ifexp': IfExp, 'unifexp': UnIfExp, 'temp': None, 'keys': Keys, 'dictcomp': DictComp, 'demorgan': DeMorgan}


def variant(text, fn, kind):
    fcopy = copy.deepcopy(fn)
    if kind == 'temp':
        n = temp_blocks(fcopy)
    else:
        t = KINDS[kind]()
        # never rewrite nested function bodies differently from the outer: the transformer visits them too, which is fine
        fcopy = t.visit(fcopy)
        n = t.n
    if not n:
        return None
    ast.fix_missing_locations(fcopy)
    lines = text.split('\n')
    start = min([fn.lineno] + [d.lineno for d in fn.decorator_list]) - 1
    end = fn.end_lineno
    indent = len(lines[fn.lineno - 1]) - len(lines[fn.lineno - 1].lstrip())
    code = ast.unparse(fcopy)
    code = '\n'.join((' ' * indent + l) if l.strip() else l for l in code.split('\n'))
    return '\n'.join(lines[:start] + [code] + lines[end:])


def findings(prop, overlay):
    mod = importlib.import_module('pncstatic.rules.%s' % prop.lower())
    src = engine.Source(overlay=overlay)
    ctx = report.Ctx(prop, 'quick', src, quiet=True)
    try:
        mod.run(ctx)
        generic.run(ctx)
    except engine.AnalysisError as e:
        return None, str(e)
    except Exception as e:
        return None, 'internal: %s: %s' % (type(e).__name__, e)
    return set((f.rule, f.relpath, f.func, f.stmt) for f in ctx.findings), None


def scope(prop, src):
    files = set(generic.anchor_files(prop, src))
    mtext = open(os.path.join(os.path.dirname(os.path.dirname(os.path.abspath(__file__))), 'pncstatic', 'rules', prop.lower() + '.py')).read()
    for rp in src.relpaths():
        if rp in mtext:
            files.add(rp)
    return files


def one(task):
    prop, rp, q, kind, base = task
    src = engine.Source(canon=False)
    from pncstatic import normalize as _N
    fns = _N.index_functions(ast.parse(src.text(rp)))      # a fresh tree: no parent links to drag along when copying
    if q not in fns:
        return (prop, rp, q, kind, 'skipped', '')
    fn = fns[q][0]
    # the same scope-independent text is needed: unparse of a function that uses textual names (eval/exec) is still sound for these rewrites
    try:
        v = variant(src.text(rp), fn, kind)
    except RecursionError:
        return (prop, rp, q, kind, 'skipped', '')
    if v is None:
        return (prop, rp, q, kind, 'skipped', '')
    try:
        compile(v, rp, 'exec')
    except SyntaxError as e:
        return (prop, rp, q, kind, 'skipped', 'variant does not compile: %s' % e)
    got, err = findings(prop, {rp: v})
    if got is None:
        return (prop, rp, q, kind, 'exit2', err)

    def key(s):
        out = {}
        for f in s:
            out[(f[0], f[1], f[2])] = out.get((f[0], f[1], f[2]), 0) + 1
        return out
    kb, kg = key(base), key(got)
    new = [k for k in kg if kg[k] > kb.get(k, 0)]
    if new:
        return (prop, rp, q, kind, 'FALSE-ALARM', '; '.join('%s in %s' % (k[0], k[2]) for k in new))
    return (prop, rp, q, kind, 'ok', '')


def main():
    argv = sys.argv[1:]
    kinds = list(KINDS)
    if '--kinds' in argv:
        i = argv.index('--kinds')
        kinds = argv[i + 1].split(',')
        del argv[i:i + 2]
    jobs = 16
    if '--jobs' in argv:
        i = argv.index('--jobs')
        jobs = int(argv[i + 1])
        del argv[i:i + 2]
    props = argv or [c['property_id'] for c in json.load(open('/verif/MANIFEST.json'))['checks']]
    src = engine.Source()
    tasks = []
    for prop in props:
        base, err = findings(prop, {})
        if base is None:
            print('BASELINE-ERROR', prop, err)
            continue
        for rp in sorted(scope(prop, src)):
            try:
                m = src.mod(rp)
            except Exception:
                continue
            for q, fn in sorted(m.functions.items()):
                if '<locals>' in q or 'Test' in q or q.split('.')[-1].startswith('test'):
                    continue
                for kind in kinds:
                    tasks.append((prop, rp, q, kind, base))
    with multiprocessing.Pool(jobs) as pool:
        res = pool.map(one, tasks, chunksize=8)
    cnt = {}
    for r in res:
        cnt.setdefault(r[3], {}).setdefault(r[4], 0)
        cnt[r[3]][r[4]] += 1
        if r[4] in ('FALSE-ALARM', 'exit2'):
            print('%-11s %-8s %s %s %s :: %s' % (r[4], r[3], r[0], r[1], r[2], r[5][:150]))
    for k in sorted(cnt):
        print('%-9s %s' % (k, cnt[k]))


if __name__ == '__main__':
    main()
