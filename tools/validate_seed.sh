#!/bin/bash
# usage: validate_seed.sh <seeddir(with patch.diff, demo.py)> <name>
# confirms in a scratch worktree of /repo HEAD: patch applies, demo exit 0 clean / 1 mutated, pinned suite keeps
# every stable_pass test passing with the patch.  Prints one summary line; removes the worktree.
sd=$1; name=$2
wt=/tmp/wt/val-$name
git -C /repo worktree remove --force $wt 2>/dev/null
git -C /repo worktree add --detach $wt HEAD -q || { echo "$name WORKTREE-FAIL"; exit 9; }
cd $wt
export PYTHONPATH=$wt/src
/venv/bin/python -W ignore $sd/demo.py >/dev/null 2>&1; clean=$?
if git apply --check $sd/patch.diff 2>/dev/null; then git apply $sd/patch.diff; how=apply
elif git apply --3way $sd/patch.diff >/dev/null 2>&1; then how=3way; git reset -q
else echo "$name PATCH-DOES-NOT-APPLY clean_demo=$clean"; cd /; git -C /repo worktree remove --force $wt; exit 8; fi
git diff > $sd/patch.rebased.diff
/venv/bin/python -W ignore -c "import PseudoNetCDF" >/dev/null 2>&1; imp=$?
/venv/bin/python -W ignore $sd/demo.py >/dev/null 2>&1; mut=$?
tests=$(/verif/tools/baseline.py $wt | head -1)
echo "$name how=$how import=$imp demo_clean=$clean demo_mutant=$mut tests: $tests"
cd /; git -C /repo worktree remove --force $wt
