#!/venv/bin/python
"""dev helper (never run by a check): print the findings of a property on the current tree as
known_findings entries, for manual triage and pasting into known_findings.json."""
import sys, os, importlib, warnings, json
sys.path.insert(0, os.path.dirname(os.path.dirname(os.path.abspath(__file__))))
warnings.simplefilter('ignore')
from pncstatic import engine, report
out = []
for prop in sys.argv[1:]:
    mod = importlib.import_module('pncstatic.rules.%s' % prop.lower())
    ctx = report.Ctx(prop.upper(), 'quick', engine.Source(), quiet=True)
    mod.run(ctx)
    for f in ctx.findings:
        out.append(dict(property=prop.upper(), rule=f.rule, file=f.relpath, function=f.func, statement=f.stmt,
                        what_fails=f.message))
print(json.dumps(out, indent=1))
