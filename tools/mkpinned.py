#!/venv/bin/python
"""Regenerate pncstatic/pinned_src.zip: the .py files of the package as committed at /repo's HEAD.  The archive is the *naming
reference* of pncstatic/normalize.py (which names are new in the analysed tree: helpers, constants, locals); verdicts are always
computed on /repo's working tree.  Run after every `fix:` commit in /repo; a stale archive only makes the normaliser do less."""
import os, subprocess, sys, zipfile
out = os.path.join(os.path.dirname(os.path.dirname(os.path.abspath(__file__))), 'pncstatic', 'pinned_src.zip')
names = subprocess.check_output(['git', '-C', '/repo', 'ls-tree', '-r', 'HEAD', '--name-only', 'src/PseudoNetCDF'], text=True).split('\n')
names = sorted(n for n in names if n.endswith('.py'))
head = subprocess.check_output(['git', '-C', '/repo', 'rev-parse', 'HEAD'], text=True).strip()
with zipfile.ZipFile(out, 'w', zipfile.ZIP_DEFLATED) as z:
    zi = zipfile.ZipInfo('HEAD', date_time=(1980, 1, 1, 0, 0, 0)); z.writestr(zi, head + '\n')
    for n in names:
        data = subprocess.check_output(['git', '-C', '/repo', 'show', 'HEAD:' + n])
        zi = zipfile.ZipInfo(os.path.relpath(n, 'src/PseudoNetCDF'), date_time=(1980, 1, 1, 0, 0, 0))
        zi.compress_type = zipfile.ZIP_DEFLATED
        z.writestr(zi, data)
print(len(names), 'files at', head[:7], '->', out, os.path.getsize(out), 'bytes')
