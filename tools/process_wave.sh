#!/bin/bash
# usage: process_wave.sh <SRC dir> <tag> <wave> <frozen checks dir> <prop>...
# validates the three mutants of each property in scratch worktrees, imports them, and records the first evaluation with the frozen checks.
src=$1; tag=$2; wave=$3; frozen=$4; shift 4
(for p in "$@"; do for k in 1 2 3; do [ -f $src/$p/m$k/patch.diff ] && echo "$p $k"; done; done) | \
  xargs -P 9 -L 1 bash -c '/verif/tools/validate_seed.sh '$src'/$0/m$1 H$0-m$1 2>/dev/null | grep "^H"' >> $src/validation.txt
/verif/tools/import_seeds.py $src $tag $wave | tail -1
pre=""; for p in "$@"; do pre="$pre $p-$tag"; done
/verif/tools/sweep_seeds.py --checks-at $frozen --key caught_by_initial $pre
