#!/bin/bash
# usage: [WTROOT=/tmp/wt6 TAG=s FROZEN=/tmp/verif-r6] process_refactors.sh <SRC dir> <prop>...   validates in the agents' worktrees, imports as
# seeded/<prop>-<TAG><k> (kind refactor; TAG r = first wave, s = second wave), records the first evaluation with the frozen checks (if given) and runs every check on each
src=$1; shift
(for p in "$@"; do echo $p; done) | xargs -P 10 -L 1 bash -c '/verif/tools/validate_refactor.sh '$src' $0 2>/dev/null | grep "^R"' >> $src/validation.txt
TAG=${TAG:-r} /venv/bin/python - "$src" "$@" <<'PY'
import json, os, re, shutil, subprocess, sys
src, props = sys.argv[1], sys.argv[2:]
val = {}
for l in open(src + '/validation.txt'):
    m = re.match(r'R(C\d\d)-m(\d) how=(\w+) demo_clean=(\d+) demo_patched=(\d+) identical=(\d) tests: passed=(\d+) stable_pass=(\d+) missing=(\d+)', l)
    if m:
        val[(m.group(1), m.group(2))] = dict(how=m.group(3), c1=int(m.group(4)), c2=int(m.group(5)), same=int(m.group(6)), passed=int(m.group(7)), missing=int(m.group(9)))
head = subprocess.check_output(['git', '-C', '/repo', 'rev-parse', '--short', 'HEAD'], text=True).strip()
for (p, k), v in sorted(val.items()):
    if p not in props:
        continue
    sd = '%s/%s/m%s' % (src, p, k)
    if not (v['c1'] == 0 and v['c2'] == 0 and v['same'] == 1 and v['missing'] == 0):
        print('SKIP', p, k, v); continue
    dst = '/verif/seeded/%s-%s%s' % (p, os.environ.get('TAG', 'r'), k)
    os.makedirs(dst, exist_ok=True)
    shutil.copy(sd + '/patch.rebased.diff', dst + '/patch.diff')
    shutil.copy(sd + '/demo.py', dst + '/demo.py')
    try:
        meta = json.load(open(sd + '/meta.json'))
    except Exception:
        meta = {}
    old = json.load(open(dst + '/meta.json')) if os.path.exists(dst + '/meta.json') else {}
    meta.update(dict(property=p, wave={'r': 'refactor', 's': 'refactor2', 't': 'refactor3', 'u': 'refactor4', 'p': 'refactor5'}.get(os.environ.get('TAG', 'r'), 'refactor4'), kind='refactor', origin='independent sub-agent asked for a behaviour-preserving refactoring (only the property text and a scratch worktree)',
                     validated=dict(repo_head=head, patch_applied_with='git ' + v['how'], demo_output_identical=True,
                                    pinned_suite='%d tests pass with the patch; all 145 stable_pass tests still pass' % v['passed'])))
    for key in old:
        if key.startswith('reported_by') or key.startswith('analysis_error'):
            meta[key] = old[key]
    json.dump(meta, open(dst + '/meta.json', 'w'), indent=1)
    print('imported', p, k)
PY
pre=""; for p in "$@"; do pre="$pre $p-${TAG:-r}"; done
if [ -n "$FROZEN" ]; then /verif/tools/sweep_seeds.py --checks-at $FROZEN --key reported_by_initial $pre | tail -1; fi
[ -n "$NOCURRENT" ] || /verif/tools/sweep_seeds.py --key reported_by $pre
