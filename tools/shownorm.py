#!/venv/bin/python
"""shownorm.py [relpath ...]: what the normaliser did to the modules of /repo's working tree that differ from the pinned ones; with
-v the functions that still differ from the pinned ones are printed as unified diffs of their unparsed (normalised) source"""
import ast, difflib, os, subprocess, sys
sys.path.insert(0, os.path.dirname(os.path.dirname(os.path.abspath(__file__))))
from pncstatic import engine, normalize
src = engine.Source()
verbose = '-v' in sys.argv
rps = [a for a in sys.argv[1:] if not a.startswith('-')]
if not rps:
    out = subprocess.check_output(['git', '-C', '/repo', 'status', '--porcelain', '--untracked-files=no'], text=True)
    rps = [l[3:].strip().replace('src/PseudoNetCDF/', '') for l in out.splitlines() if l.strip().endswith('.py')]
for rp in rps:
    m = src.mod(rp)
    print('==', rp, m.normalized)
    pin = normalize.pinned_tree(rp)
    pf = normalize.index_functions(pin)
    cf = normalize.index_functions(m.tree)
    for q in sorted(set(pf) | set(cf)):
        if q not in pf:
            print('  new function kept:', q); continue
        if q not in cf:
            print('  function gone:', q); continue
        a, b = ast.unparse(pf[q][0]), ast.unparse(cf[q][0])
        if a != b:
            print('  differs:', q)
            if verbose:
                for l in difflib.unified_diff(a.split('\n'), b.split('\n'), lineterm='', n=1):
                    print('     ', l)
