#!/venv/bin/python
"""Apply every /verif/seeded/<id>/patch.diff to /repo in turn (git apply, then git reset --hard), run every claimed
check's quick command without evidence, and record which properties' checks report a VIOLATION (exit 1).
Writes caught_by into each meta.json and prints a table.  /repo must be clean."""
import json, os, subprocess, sys
V = '/verif'
man = json.load(open(V + '/MANIFEST.json'))
props = [c['property_id'] for c in man['checks']]
st = subprocess.run(['git', '-C', '/repo', 'status', '--porcelain', '--untracked-files=no'], capture_output=True, text=True).stdout
if st.strip():
    print('repo dirty'); sys.exit(9)
args = sys.argv[1:]
CHK, KEY = V, 'caught_by'
if '--checks-at' in args:        # evaluate with another checkout of /verif (e.g. the commit before a held-out wave was looked at)
    i = args.index('--checks-at'); CHK = args[i + 1]; del args[i:i + 2]
if '--key' in args:              # meta.json key to record under (default caught_by)
    i = args.index('--key'); KEY = args[i + 1]; del args[i:i + 2]
DRY = False
if '--props' in args:            # run only these checks (comma separated) and do not record anything
    i = args.index('--props'); props = args[i + 1].split(','); del args[i:i + 2]; DRY = True
only = args
rows = []
for d in sorted(os.listdir(V + '/seeded')):
    if only and not any(d.startswith(o) for o in only):
        continue
    sd = os.path.join(V, 'seeded', d)
    patch = os.path.join(sd, 'patch.diff')
    if not os.path.isfile(patch):
        continue
    r = subprocess.run(['git', '-C', '/repo', 'apply', '--3way', patch], capture_output=True, text=True)
    if r.returncode != 0:
        rows.append((d, 'PATCH-DOES-NOT-APPLY', []))
        subprocess.run(['git', '-C', '/repo', 'reset', '-q', '--hard', 'HEAD'])
        continue
    caught, broken = [], []
    procs = {}
    for p in props:
        procs[p] = subprocess.Popen(['/venv/bin/python', CHK + '/check', p, '--tier', 'quick', '--no-evidence'], stdout=subprocess.PIPE, stderr=subprocess.STDOUT, text=True)
    for p, pr in procs.items():
        out = pr.communicate()[0]
        if pr.returncode == 1 and 'VIOLATION property=%s' % p in out:
            rules = sorted(set(l.strip().split(':')[0] for l in out.splitlines() if l.startswith('  R-')))
            caught.append('%s(%s)' % (p, ','.join(rules)))
        elif pr.returncode == 2:
            broken.append(p)
    subprocess.run(['git', '-C', '/repo', 'reset', '-q', '--hard', 'HEAD'])
    if DRY:
        rows.append((d, 'caught' if caught else 'MISSED', caught + (['exit2:' + ','.join(broken)] if broken else [])))
        continue
    meta = json.load(open(sd + '/meta.json'))
    meta[KEY] = caught
    meta['analysis_error_in' if KEY == 'caught_by' else KEY + '_exit2'] = broken
    json.dump(meta, open(sd + '/meta.json', 'w'), indent=1)
    rows.append((d, 'caught' if caught else 'MISSED', caught + (['exit2:' + ','.join(broken)] if broken else [])))
for d, s, c in rows:
    print('%-8s %-7s %s' % (d, s, ' '.join(c)))
print('caught %d / %d' % (sum(1 for r in rows if r[1] == 'caught'), len(rows)))
