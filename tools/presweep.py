#!/venv/bin/python
"""development aid: fast parallel pre-sweep.  Every /verif/seeded/<id>/patch.diff is applied to a private scratch worktree of /repo
(never to /repo itself) and the quick rules of all properties are run on that worktree through tools/check_at.py.  Nothing is
recorded in the metas unless --record is given; with it the result goes where tools/sweep_seeds.py (which patches /repo itself, one
seed after the other) puts it: caught_by / analysis_error_in for breaking seeds, reported_by / reported_by_exit2 for refactorings.
The analysed text is the same in both procedures (the commit of /repo plus the patch); this one never leaves /repo patched.
usage: presweep.py [-j N] [--record] [seed prefixes...]     prints one line per seed and a summary of surprises"""
import json, os, subprocess, sys
from multiprocessing import Pool
V = '/verif'
ROOT = os.environ.get('PRESWEEP_ROOT', '/tmp/sw')
PROPS = ['C%02d' % i for i in range(1, 21)]
REFACTOR_TAGS = ('r', 's', 't', 'u', 'p')


def work(args):
    slot, seeds = args
    wt = os.path.join(ROOT, 'w%d' % slot)
    head = subprocess.check_output(['git', '-C', '/repo', 'rev-parse', 'HEAD'], text=True).strip()
    if not os.path.isdir(wt):
        subprocess.run(['git', '-C', '/repo', 'worktree', 'add', '--detach', '-q', wt, head], check=True)
    subprocess.run(['git', '-C', wt, 'reset', '-q', '--hard'])      # a killed run may have left a patched tree behind
    subprocess.run(['git', '-C', wt, 'checkout', '-q', '--detach', head], check=True)
    out = []
    for d in seeds:
        subprocess.run(['git', '-C', wt, 'reset', '-q', '--hard', 'HEAD'])
        patch = os.path.join(V, 'seeded', d, 'patch.diff')
        r = subprocess.run(['git', '-C', wt, 'apply', patch], capture_output=True, text=True)
        if r.returncode != 0:
            out.append((d, ['PATCH-DOES-NOT-APPLY'], []))
            continue
        caught, broken = [], []
        for p in PROPS:
            pr = subprocess.run(['/venv/bin/python', V + '/tools/check_at.py', p, wt], capture_output=True, text=True)
            o = pr.stdout + pr.stderr
            if pr.returncode == 1 and 'VIOLATION property=%s' % p in o:
                rules = sorted(set(l.strip().split(':')[0] for l in o.splitlines() if l.startswith('  R-')))
                caught.append('%s(%s)' % (p, ','.join(rules)))
            elif pr.returncode == 2:
                broken.append(p)
        out.append((d, caught, broken))
        subprocess.run(['git', '-C', wt, 'reset', '-q', '--hard', 'HEAD'])
    return out


def main():
    args = sys.argv[1:]
    j = 14
    record = '--record' in args
    if record:
        args.remove('--record')
    global PROPS
    if '--props' in args:
        i = args.index('--props'); PROPS = args[i + 1].split(','); del args[i:i + 2]
        only = set(PROPS)
    else:
        only = None
    if '-j' in args:
        i = args.index('-j'); j = int(args[i + 1]); del args[i:i + 2]
    seeds = [d for d in sorted(os.listdir(V + '/seeded')) if os.path.isfile(os.path.join(V, 'seeded', d, 'patch.diff'))
             and (not args or any(d.startswith(a) for a in args))]
    os.makedirs(ROOT, exist_ok=True)
    chunks = [(k, seeds[k::j]) for k in range(j)]
    rows = []
    with Pool(j) as pool:
        for res in pool.imap_unordered(work, chunks):
            rows += res
    rows.sort()
    bad = 0
    for d, caught, broken in rows:
        tag = d.split('-')[1][0]
        refactor = tag in REFACTOR_TAGS
        mp = os.path.join(V, 'seeded', d, 'meta.json')
        meta = json.load(open(mp))
        k1, k2 = ('reported_by', 'reported_by_exit2') if refactor else ('caught_by', 'analysis_error_in')
        if only is not None and caught != ['PATCH-DOES-NOT-APPLY']:
            # partial sweep: keep what the other properties' checks said
            caught = sorted([x for x in meta.get(k1, []) if x.split('(')[0] not in only] + caught)
            broken = sorted([x for x in meta.get(k2, []) if x not in only] + broken)
        ok = (not caught and not broken) if refactor else (bool(caught) and not broken)
        if not ok:
            bad += 1
        if record and caught != ['PATCH-DOES-NOT-APPLY']:
            meta[k1], meta[k2] = caught, broken
            json.dump(meta, open(mp, 'w'), indent=1)
        print('%-8s %-9s %s %s%s' % (d, 'refactor' if refactor else 'mutant', 'ok ' if ok else 'BAD', ' '.join(caught), (' exit2:' + ','.join(broken)) if broken else ''))
    print('seeds %d, surprises %d' % (len(rows), bad))


if __name__ == '__main__':
    main()
