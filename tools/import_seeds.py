#!/venv/bin/python
"""Copy validated sub-agent mutants from /tmp/seedout into /verif/seeded/<prop>-m<k>/ (patch.diff rebased on the
current /repo HEAD, demo.py, meta.json with what was run)."""
import json, os, re, shutil, subprocess, sys
SRC = sys.argv[1] if len(sys.argv) > 1 else '/tmp/seedout'
TAG = sys.argv[2] if len(sys.argv) > 2 else 'm'
WAVE = sys.argv[3] if len(sys.argv) > 3 else 'dev'
val = {}
for l in open(SRC + '/validation.txt'):
    m = re.match(r'H?(C\d\d)-m(\d) how=(\w+) import=(\d) demo_clean=(\d+) demo_mutant=(\d+) tests: passed=(\d+) stable_pass=(\d+) missing=(\d+)', l)
    if m:
        val[(m.group(1), m.group(2))] = dict(how=m.group(3), demo_clean=int(m.group(5)), demo_mutant=int(m.group(6)),
                                             passed=int(m.group(7)), missing=int(m.group(9)))
head = subprocess.check_output(['git', '-C', '/repo', 'rev-parse', '--short', 'HEAD'], text=True).strip()
n = 0
for (p, k), v in sorted(val.items()):
    sd = SRC + '/%s/m%s' % (p, k)
    if not (v['demo_clean'] == 0 and v['demo_mutant'] == 1 and v['missing'] == 0):
        print('SKIP', p, k, v); continue
    dst = '/verif/seeded/%s-%s%s' % (p, TAG, k)
    os.makedirs(dst, exist_ok=True)
    shutil.copy(sd + '/patch.rebased.diff', dst + '/patch.diff')
    shutil.copy(sd + '/demo.py', dst + '/demo.py')
    try:
        meta = json.load(open(sd + '/meta.json'))
    except Exception:
        meta = {}
    old = {}
    if os.path.exists(dst + '/meta.json'):
        old = json.load(open(dst + '/meta.json'))
    meta.update(dict(property=p, wave=WAVE, origin='independent sub-agent given only the property text and a scratch worktree',
                     validated=dict(repo_head=head, patch_applied_with='git ' + v['how'],
                                    demo_exit_clean=v['demo_clean'], demo_exit_mutant=v['demo_mutant'],
                                    pinned_suite='%d tests pass with the patch; all 145 stable_pass tests still pass' % v['passed'],
                                    commands=['git -C <worktree> apply patch.diff', 'PYTHONPATH=<worktree>/src /venv/bin/python demo.py',
                                              '/verif/tools/baseline.py <worktree>'])))
    for key in old:
        if key.startswith('caught_by') or key.startswith('analysis_error') or key == 'not_caught_reason':
            meta[key] = old[key]
    json.dump(meta, open(dst + '/meta.json', 'w'), indent=1)
    n += 1
print('imported', n)
