#!/venv/bin/python
"""Run the pinned pytest suite of /repo (hooks: none exist) and compare the
set of passing tests with /root/.vp/BASELINE.json stable_pass.
usage: baseline.py [repo_dir]   exit 0 iff every stable_pass test passes."""
import json, os, subprocess, sys, tempfile, xml.etree.ElementTree as ET
repo = sys.argv[1] if len(sys.argv) > 1 else '/repo'
base = json.load(open('/root/.vp/BASELINE.json'))
fd, xml = tempfile.mkstemp(suffix='.xml'); os.close(fd)
env = dict(os.environ); env['PYTHONPATH'] = os.path.join(repo, 'src')
subprocess.run(['/venv/bin/python', '-m', 'pytest', '-q', '-p', 'no:cacheprovider',
                '--timeout=900', '--continue-on-collection-errors',
                '--junitxml=' + xml], cwd=repo, env=env,
               stdout=subprocess.DEVNULL, stderr=subprocess.DEVNULL)
passed = set()
for tc in ET.parse(xml).getroot().iter('testcase'):
    if not any(c.tag in ('failure', 'error', 'skipped') for c in tc):
        passed.add(tc.get('classname') + '::' + tc.get('name'))
os.unlink(xml)
want = set(base['stable_pass'])
missing = sorted(want - passed)
print('passed=%d stable_pass=%d missing=%d extra_passing=%d' % (len(passed), len(want), len(missing), len(passed - want)))
for m in missing: print('  MISSING', m)
for m in sorted(passed - want): print('  NEWPASS', m)
sys.exit(1 if missing else 0)
