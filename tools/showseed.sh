#!/bin/bash
# usage: showseed.sh <seed id>   -- prints the recorded reports of a seed and re-runs the reporting checks
id=$1
/venv/bin/python - $id <<'PY'
import json,sys
m=json.load(open('/verif/seeded/%s/meta.json'%sys.argv[1]))
print(m.get('reported_by'), m.get('reported_by_exit2'))
print(' '.join(c.split('(')[0] for c in m.get('reported_by',[]))+' '+' '.join(m.get('reported_by_exit2',[])), file=open('/tmp/_props','w'))
PY
/verif/tools/runseed.sh /verif/seeded/$id/patch.diff $(cat /tmp/_props) 2>&1 | cut -c1-600
