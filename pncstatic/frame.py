"""R-FRAME: symbolic interpreter of a binary writer function.

Every emission (x.tofile(f), f.write(e), buf += x.tobytes() ... f.write(buf)) is typed with its byte
count (polynomial over array sizes) and, for 4-byte integer scalars, its value.  The emission sequence
of each block is then parsed greedily as Fortran records:  marker M, payload ..., the same marker M; the
obligation is  value(M) == sum(bytes(payload)).   Anything the interpreter cannot type makes the record
*undecided* (listed, never alarmed).
"""
import ast

from .engine import dotted, iter_stmts, norm, walk_expr, const_str, kw
from .sizealg import Poly, to_poly
from . import dtypes as DT

INT_DT = ("'>i'", "'i'", "'>i4'", "'i4'", "'<i'", "'<i4'")
FLT_DT = ("'>f'", "'f'", "'>f4'", "'f4'", "'<f'")


def dt_size(e):
    if e is None:
        return None, None
    t = norm(e)
    if t in INT_DT:
        return 4, 'i'
    if t in FLT_DT:
        return 4, 'f'
    if t in ("'c'", "'>c'", "'S1'"):
        return 1, 'S'
    if t in ("'d'", "'>d'", "'>f8'", "'f8'"):
        return 8, 'd'
    return None, None


class Arr(object):
    def __init__(self, n, isz=None, kind=None, val=None, ident=None, dims=None):
        self.n, self.isz, self.kind, self.val, self.ident, self.dims = n, isz, kind, val, ident, dims

    def nbytes(self):
        if self.isz is None or self.n is None:
            return None
        return self.n * self.isz

    def copy(self, **kw_):
        a = Arr(self.n, self.isz, self.kind, self.val, self.ident, self.dims)
        for k, v in kw_.items():
            setattr(a, k, v)
        return a


class Item(object):
    """one emitted piece"""

    def __init__(self, nb, marker, ident, text, node, kind=None, struct=None):
        self.nb, self.marker, self.ident, self.text, self.node, self.kind, self.struct = nb, marker, ident, text, node, kind, struct

    def __repr__(self):
        return '%s[%s]' % (self.text[:24], self.nb)


class Loop(object):
    def __init__(self, node, seq):
        self.node, self.seq = node, seq


class Writer(object):
    def __init__(self, mod, fn, var_dims=None, dtype_bindings=None, outname='outfile'):
        self.mod, self.fn = mod, fn
        self.var_dims = var_dims or {}          # variable key -> tuple of dim names (from the matching reader)
        self.out = outname
        self.env = {}
        self.dtb = dict(dtype_bindings or {})
        self.undecided = []
        self.accum = {}      # name -> list of items (tempout += ...)
        self.flag_params = set()
        a = fn.args
        pos = a.posonlyargs + a.args
        for arg, d in zip(pos[len(pos) - len(a.defaults):], a.defaults):
            if isinstance(d, ast.Constant) and isinstance(d.value, str):
                self.env[arg.arg] = ('str', d.value)

    # ------------------------------------------------------------ evaluation
    def poly(self, e):
        def atomize(n):
            v = self.ev(n)
            if isinstance(v, Poly):
                return None
            return None
        env = dict((k, v) for k, v in self.env.items() if isinstance(v, Poly))
        # X.size / len(X...)
        return to_poly(e, env, atomize=self._atom)

    def _atom(self, n):
        if isinstance(n, ast.Attribute) and n.attr == 'size':
            v = self.ev(n.value)
            if isinstance(v, Arr) and v.n is not None:
                return '@poly:' + repr(v.n)
        if isinstance(n, ast.Call) and dotted(n.func) == 'len' and n.args:
            return 'len(%s)' % norm(n.args[0])
        return None

    def topoly(self, e):
        p = to_poly(e, dict((k, v) for k, v in self.env.items() if isinstance(v, Poly)), atomize=self._atom)
        # expand '@poly:' atoms back
        m = {}
        for a in p.atoms():
            if a.startswith('@poly:'):
                m[a] = self._parsed.get(a)
        if m and all(v is not None for v in m.values()):
            p = p.subst(m)
        return p

    def ev(self, e):
        """-> Arr | Poly | ('bytes', [Item]) | ('str', s) | None"""
        if isinstance(e, ast.Name):
            return self.env.get(e.id)
        if isinstance(e, ast.Constant):
            if isinstance(e.value, (int, float)) and not isinstance(e.value, bool):
                return Poly.const(e.value)
            if isinstance(e.value, (bytes, str)):
                return ('bytes', []) if e.value in (b'', '') else ('str', e.value)
            return None
        if isinstance(e, ast.Attribute):
            if e.attr == 'size':
                v = self.ev(e.value)
                if isinstance(v, Arr):
                    return v.n
                return None
            if e.attr == 'nbytes':
                # elements x item size; an array whose item size is not fixed by a conversion (the caller's data as they are) has the
                # symbolic size itemsize(<expr>), which equals no constant: a marker built from it is judged against the payload
                v = self.ev(e.value)
                if isinstance(v, Arr) and v.n is not None:
                    isz = v.isz if v.isz is not None else Poly.atom('itemsize(%s)' % norm(e.value))
                    return v.n * isz
                return None
            if e.attr == 'itemsize':
                lay = self.layout_of(e.value)
                if lay is not None:
                    return DT.nbytes(lay)
                return None
            if isinstance(e.value, ast.Name) and e.value.id == 'ncffile':
                return Arr(Poly.atom('len(ncffile.%s)' % e.attr), None, None, ident='ncffile.' + e.attr)
            return None
        if isinstance(e, ast.BinOp):
            l, r = self.ev(e.left), self.ev(e.right)
            if isinstance(e.op, ast.Add) and isinstance(l, tuple) and l[0] == 'bytes' and isinstance(r, tuple) and r[0] == 'bytes':
                return ('bytes', l[1] + r[1])
            if isinstance(l, Poly) and isinstance(r, Poly):
                if isinstance(e.op, ast.Add):
                    return l + r
                if isinstance(e.op, ast.Sub):
                    return l - r
                if isinstance(e.op, ast.Mult):
                    return l * r
            if isinstance(l, Arr) and isinstance(e.op, (ast.Mod, ast.FloorDiv, ast.Div, ast.Mult, ast.Add, ast.Sub)):
                return l.copy(val=None, ident=None)     # elementwise arithmetic keeps the size
            return None
        if isinstance(e, ast.Subscript):
            b = self.ev(e.value)
            # ncffile.variables[K]
            if isinstance(e.value, ast.Attribute) and e.value.attr == 'variables':
                k = e.slice
                key = const_str(k)
                if key is None and isinstance(k, ast.Name) and isinstance(self.env.get(k.id), tuple) and self.env[k.id][0] == 'str':
                    key = self.env[k.id][1]
                dims = self.var_dims.get(key)
                ident = 'var:%s' % (key or norm(k))
                if dims:
                    n = Poly.const(1)
                    for d in dims:
                        n = n * Poly.atom('dim:' + d)
                    return Arr(n, None, None, ident=ident, dims=tuple(dims))
                return Arr(Poly.atom('size(%s)' % ident), None, None, ident=ident)
            if isinstance(b, Arr):
                idx = e.slice.elts if isinstance(e.slice, ast.Tuple) else [e.slice]
                nint = sum(1 for i in idx if not isinstance(i, ast.Slice) and not (isinstance(i, ast.Constant) and i.value is Ellipsis))
                hasslice = any(isinstance(i, ast.Slice) for i in idx)
                if b.dims is not None and not hasslice:
                    dims = b.dims[nint:]
                    n = Poly.const(1)
                    for d in dims:
                        n = n * Poly.atom('dim:' + d)
                    return b.copy(n=n, dims=dims, val=None, ident=None)
                if hasslice and all(isinstance(i, ast.Slice) and i.lower is None and i.upper is None for i in idx if isinstance(i, ast.Slice)) and b.dims is not None:
                    # [:, 0] style: slices keep their axis, ints drop theirs
                    dims = tuple(d for d, i in zip(b.dims, idx) if isinstance(i, ast.Slice)) + tuple(b.dims[len(idx):])
                    n = Poly.const(1)
                    for d in dims:
                        n = n * Poly.atom('dim:' + d)
                    return b.copy(n=n, dims=dims, val=None, ident=None)
                # unknown shape: a fresh size atom tied to this expression
                return b.copy(n=Poly.atom('size(%s)' % norm(e)), dims=None, val=None, ident=None)
            # structured array element / field
            lay = self.layout_of(e)
            if lay is not None:
                return ('struct', lay)
            return None
        if isinstance(e, ast.Call):
            return self.ev_call(e)
        return None

    def layout_of(self, e):
        """layout (list of Field) of a structured-array expression: name bound to np.zeros(..., dtype=D),
        X[i], X[0]['F'] (field), or a dtype name"""
        if isinstance(e, ast.Name):
            v = self.env.get(e.id)
            if isinstance(v, tuple) and v[0] in ('structarr', 'struct'):
                return v[1]
            if e.id in self.dtb:
                try:
                    return DT.DtypeEnv(self.dtb, polyenv=self._polyenv()).eval(self.dtb[e.id])
                except Exception:
                    return None
            return None
        if isinstance(e, ast.Subscript):
            base = self.layout_of(e.value)
            if base is None:
                return None
            key = const_str(e.slice)
            if key is not None:
                for f in base:
                    if f.name == key:
                        if f.sub is not None:
                            return f.sub
                        return [f]
                return None
            return base     # integer index into the record array: one element, same layout
        return None

    def _polyenv(self):
        return dict((k, v) for k, v in self.env.items() if isinstance(v, Poly))

    def ev_call(self, c):
        d = dotted(c.func) or ''
        last = d.split('.')[-1]
        if last in ('array',) and (d in ('np.array', 'array', 'numpy.array')) and c.args:
            a0 = c.args[0]
            if isinstance(a0, ast.Name) and a0.id in getattr(self, 'listdefs', {}):
                a0 = self.listdefs[a0.id]          # a list built in one or several statements: the same concatenation
            isz, kind = dt_size(kw(c, 'dtype'))
            if isinstance(a0, ast.List):
                if len(a0.elts) == 1:
                    v = self.ev(a0.elts[0])
                    return Arr(Poly.const(1), isz, kind, v if isinstance(v, Poly) else None, None)
                return Arr(Poly.const(len(a0.elts)), isz, kind, None, None)
            if isinstance(a0, ast.BinOp) and isinstance(a0.op, ast.Add) and self._list_count(a0) is not None:
                return Arr(self._list_count(a0), isz, kind, None, None, dims=('@list', a0))
            v = self.ev(a0)
            if isinstance(v, Poly):
                return Arr(Poly.const(1), isz, kind, v, None)
            if isinstance(v, Arr):
                if isz is not None:
                    return v.copy(isz=isz, kind=kind, val=v.val if kind == 'i' else None)
                return v.copy()
            if isinstance(v, tuple) and v[0] == 'str':
                return Arr(Poly.const(len(v[1])), isz, kind)
            # scalar of unknown value (loop targets d, t)
            return Arr(Poly.const(1), isz, kind, None, None)
        if isinstance(c.func, ast.Attribute):
            recv = self.ev(c.func.value)
            m = c.func.attr
            if m == 'astype' and isinstance(recv, Arr) and c.args:
                isz, kind = dt_size(c.args[0])
                if isz is None and any(isinstance(x, ast.Attribute) and x.attr in ('dtype', 'newbyteorder') for x in ast.walk(c.args[0])):
                    # target type taken from the array's own dtype: the item size stays that of the input (a symbol, not 4)
                    isz, kind = Poly.atom('itemsize(%s)' % norm(c.func.value)), 'f'
                return recv.copy(isz=isz, kind=kind, val=recv.val if kind == 'i' else None)
            if m in ('tobytes', 'tostring'):
                if isinstance(recv, Arr):
                    return ('bytes', [Item(recv.nbytes(), recv.val if recv.kind == 'i' and recv.n == Poly.const(1) else None,
                                           recv.ident, norm(c.func.value), c, recv.kind)])
                if isinstance(recv, tuple) and recv[0] in ('struct', 'structarr'):
                    return ('bytes', [Item(DT.nbytes(recv[1]), None, None, norm(c.func.value), c, 'struct', recv[1])])
                return ('bytes', [Item(None, None, None, norm(c.func.value), c)])
            if m in ('copy', 'ravel', 'transpose', 'view') and isinstance(recv, Arr):
                return recv.copy()
        if d in ('np.ma.filled', 'filled', 'np.asarray', 'np.ascontiguousarray') and c.args:
            v = self.ev(c.args[0])
            return v.copy() if isinstance(v, Arr) else None
        if last in ('zeros', 'empty', 'ones') and kw(c, 'dtype') is not None:
            try:
                lay = DT.DtypeEnv(self.dtb, polyenv=self._polyenv()).eval(kw(c, 'dtype'))
                return ('structarr', lay)
            except Exception:
                return None
        if d == 'len' and c.args:
            return Poly.atom('len(%s)' % norm(c.args[0]))
        return None

    def _list_count_at(self, e, n):
        """element count of a list expression with every length atom = n, Python semantics (a negative repetition count gives the
        empty list, a slice takes what is there); None when not evaluable"""
        def val(x):
            v = self.ev(x)
            if not isinstance(v, Poly):
                try:
                    v = to_poly(x, self._polyenv())
                except Exception:
                    return None
            tot = 0
            for mono, c in v.t.items():
                tot += c * (n ** sum(pw for a_, pw in mono))
            return tot
        if isinstance(e, ast.Name) and e.id in getattr(self, 'listdefs', {}):
            return self._list_count_at(self.listdefs[e.id], n)
        if isinstance(e, ast.List):
            return len(e.elts)
        if isinstance(e, ast.BinOp) and isinstance(e.op, ast.Add):
            a, b = self._list_count_at(e.left, n), self._list_count_at(e.right, n)
            return None if a is None or b is None else a + b
        if isinstance(e, ast.BinOp) and isinstance(e.op, ast.Mult):
            a, k = self._list_count_at(e.left, n), val(e.right)
            return None if a is None or k is None else a * max(0, k)
        if isinstance(e, ast.Subscript) and isinstance(e.slice, ast.Slice) and e.slice.upper is not None:
            a, k = self._list_count_at(e.value, n), val(e.slice.upper)
            return None if a is None or k is None else min(a, max(0, k))
        return None

    def _list_count(self, e):
        """number of elements of a list expression built with + and * from list literals"""
        if isinstance(e, ast.Name) and e.id in getattr(self, 'listdefs', {}):
            return self._list_count(self.listdefs[e.id])
        if isinstance(e, ast.List):
            return Poly.const(len(e.elts))
        if isinstance(e, ast.Subscript) and isinstance(e.slice, ast.Slice) and e.slice.lower is None and e.slice.step is None and e.slice.upper is not None:
            # <list>[:K] has K elements where the list is at least K long: checked with Python semantics for lengths 1..6
            k = self.ev(e.slice.upper)
            if not isinstance(k, Poly):
                try:
                    k = to_poly(e.slice.upper, self._polyenv())
                except Exception:
                    return None
            for n_ in range(1, 7):
                a_ = self._list_count_at(e.value, n_)
                kv = sum(c * (n_ ** sum(pw for x_, pw in mono)) for mono, c in k.t.items())
                if a_ is None or a_ < kv or kv < 0:
                    return None
            return k
        if isinstance(e, ast.BinOp) and isinstance(e.op, ast.Add):
            a, b = self._list_count(e.left), self._list_count(e.right)
            return None if a is None or b is None else a + b
        if isinstance(e, ast.BinOp) and isinstance(e.op, ast.Mult):
            a = self._list_count(e.left)
            if a is None:
                return None
            v = self.ev(e.right)
            if not isinstance(v, Poly):
                try:
                    v = to_poly(e.right, self._polyenv())
                except Exception:
                    return None
            # list repetition clamps a negative count to the empty list, so the product is the element count only where the count
            # cannot be negative: remembered as a side condition for the rule (dimension lengths are >= 1)
            if not hasattr(self, 'repeat_counts'):
                self.repeat_counts = []
            self.repeat_counts.append((e, v))
            return a * v
        return None

    # --------------------------------------------------------------- walk
    def run(self):
        return self.block(self.fn.body)

    def bind_loop(self, target, it):
        """for-loop targets"""
        call = it if isinstance(it, ast.Call) else None
        f = dotted(call.func) if call is not None else None
        if f == 'enumerate' and isinstance(target, ast.Tuple) and len(target.elts) == 2:
            self.env[target.elts[0].id] = None if not isinstance(target.elts[0], ast.Name) else Poly.atom('idx:' + target.elts[0].id)
            return self.bind_loop(target.elts[1], call.args[0])
        while f in ('list', 'tuple') and call is not None and len(call.args) == 1 and isinstance(call.args[0], ast.Call):
            call = call.args[0]
            f = dotted(call.func)
        if f == 'zip' and isinstance(target, ast.Tuple) and len(target.elts) == len(call.args):
            for t, a in zip(target.elts, call.args):
                self.bind_loop(t, a)
            return
        if f == 'range' and isinstance(target, ast.Name):
            self.env[target.id] = Poly.atom('idx:' + target.id)
            return
        v = self.ev(it) if isinstance(it, ast.expr) else None
        if isinstance(it, ast.Name) and isinstance(self.env.get(it.id), tuple) and self.env[it.id][0] == 'zipobj':
            z = self.env[it.id][1]
            if isinstance(target, ast.Tuple) and len(target.elts) == len(z):
                for t, a in zip(target.elts, z):
                    self.bind_loop(t, a)
                return
        if isinstance(target, ast.Tuple):
            for t in target.elts:
                if isinstance(t, ast.Name):
                    self.env[t.id] = Arr(Poly.const(1), None, None)    # scalar components (d, t)
            return
        if isinstance(target, ast.Name):
            if isinstance(v, Arr):
                if v.dims is not None and len(v.dims) >= 1 and not (v.dims and v.dims[0] == '@list'):
                    dims = v.dims[1:]
                    n = Poly.const(1)
                    for d in dims:
                        n = n * Poly.atom('dim:' + d)
                    self.env[target.id] = v.copy(n=n, dims=dims, val=None, ident=None)
                else:
                    self.env[target.id] = Arr(Poly.atom('size(%s)' % target.id), v.isz, v.kind)
            elif isinstance(v, tuple) and v[0] == 'struct':
                # iterating a sub-array field: one element of the leading axis
                lay = v[1]
                if len(lay) == 1 and lay[0].shape:
                    f = lay[0]
                    rest = Poly.const(1)
                    for s_ in f.shape[1:]:
                        rest = rest * s_
                    self.env[target.id] = ('struct', [DT.Field(f.name, f.kind, f.itemsize, rest, shape=f.shape[1:])])
                else:
                    self.env[target.id] = None
            else:
                self.env[target.id] = None

    def assign(self, st):
        t = st.targets[0]
        if isinstance(t, ast.Name):
            # remember list-valued locals as expressions (x = [a, b]; x = x + [c] * n ...), earlier ones substituted
            if not hasattr(self, 'listdefs'):
                self.listdefs = {}
            lv = st.value

            def listish(e):
                return isinstance(e, ast.List) or (isinstance(e, ast.Name) and e.id in self.listdefs) or \
                    (isinstance(e, ast.BinOp) and isinstance(e.op, ast.Add) and listish(e.left) and listish(e.right)) or \
                    (isinstance(e, ast.BinOp) and isinstance(e.op, ast.Mult) and (listish(e.left) or listish(e.right))) or \
                    (isinstance(e, ast.Subscript) and isinstance(e.slice, ast.Slice) and e.slice.lower is None and e.slice.step is None
                     and e.slice.upper is not None and listish(e.value))
            if listish(lv):
                from . import paths as _paths
                self.listdefs[t.id] = _paths.subst(lv, dict(self.listdefs))
            else:
                self.listdefs.pop(t.id, None)
            v = None
            zv = st.value
            while isinstance(zv, ast.Call) and dotted(zv.func) in ('list', 'tuple') and len(zv.args) == 1:
                zv = zv.args[0]             # list(zip(..)) / tuple(zip(..)): the same pairs, materialised
            if isinstance(zv, ast.Call) and dotted(zv.func) == 'zip':
                v = ('zipobj', list(zv.args))
            elif isinstance(st.value, ast.Call) and dotted(st.value.func) == 'open':
                v = None
            else:
                v = self.ev(st.value)
            if isinstance(v, Arr):
                v = v.copy(ident='%s@%d' % (t.id, st.lineno))
            elif isinstance(v, tuple) and v[0] == 'bytes' and len(v[1]) == 1:
                it = v[1][0]
                v = ('bytes', [Item(it.nb, it.marker, '%s@%d' % (t.id, st.lineno), it.text, it.node, it.kind, it.struct)])
            self.env[t.id] = v
            if isinstance(v, tuple) and v[0] == 'bytes' and not v[1]:
                self.accum[t.id] = []
            return
        if isinstance(t, ast.Tuple) and isinstance(st.value, ast.Subscript) and norm(st.value).endswith('.shape[-3:]') \
                and isinstance(st.value.value, ast.Attribute):
            a = self.ev(st.value.value.value)
            if isinstance(a, Arr) and a.dims is not None and len(a.dims) >= 3:
                for nm, d in zip(t.elts, a.dims[-3:]):
                    if isinstance(nm, ast.Name):
                        self.env[nm.id] = Poly.atom('dim:' + d)
                return
        if isinstance(t, ast.Tuple):
            for x in t.elts:
                if isinstance(x, ast.Name):
                    self.env[x.id] = None

    def items_of(self, v, node, text):
        if isinstance(v, Arr):
            if v.dims and v.dims[0] == '@list':
                return [Item(v.nbytes(), None, None, text, node, 'list', v.dims[1])]
            return [Item(v.nbytes(), v.val if (v.kind == 'i' and v.n == Poly.const(1)) else None, v.ident, text, node, v.kind)]
        if isinstance(v, tuple) and v[0] == 'bytes':
            return list(v[1])
        if isinstance(v, tuple) and v[0] in ('struct', 'structarr'):
            return [Item(DT.nbytes(v[1]), None, None, text, node, 'struct', v[1])]
        return [Item(None, None, None, text, node)]

    def block(self, stmts):
        seq = []
        for st in stmts:
            if isinstance(st, ast.Assign):
                self.assign(st)
            elif isinstance(st, ast.AugAssign) and isinstance(st.target, ast.Name) and st.target.id in self.accum and isinstance(st.op, ast.Add):
                seq.extend(self.items_of(self.ev(st.value), st, norm(st.value)))
            elif isinstance(st, ast.AugAssign) and isinstance(st.target, ast.Name):
                self.env[st.target.id] = None
            elif isinstance(st, ast.Expr) and isinstance(st.value, ast.Call):
                c = st.value
                d = dotted(c.func) or ''
                if isinstance(c.func, ast.Attribute) and c.func.attr == 'tofile' and c.args and norm(c.args[0]) == self.out:
                    seq.extend(self.items_of(self.ev(c.func.value), st, norm(c.func.value)))
                elif d == self.out + '.write' and c.args:
                    a0 = c.args[0]
                    if isinstance(a0, ast.Name) and a0.id in self.accum:
                        continue     # the accumulated pieces were emitted in order already
                    seq.extend(self.items_of(self.ev(a0), st, norm(a0)))
            elif isinstance(st, (ast.For, ast.While)):
                saved = dict(self.env)
                if isinstance(st, ast.For):
                    self.bind_loop(st.target, st.iter)
                sub = self.block(st.body)
                # names reassigned inside the loop are unknown afterwards
                for k in list(self.env):
                    if k not in saved or self.env[k] is not saved.get(k):
                        if k in saved:
                            self.env[k] = None if not isinstance(saved[k], Poly) or self.env[k] != saved[k] else saved[k]
                if sub:
                    seq.append(Loop(st, sub))
            elif isinstance(st, ast.If):
                saved = dict(self.env)
                a = self.block(st.body)
                env_a = self.env
                self.env = dict(saved)
                b = self.block(st.orelse)
                # join: keep only identical bindings
                for k in list(env_a):
                    if self.env.get(k) is not env_a.get(k):
                        if isinstance(self.env.get(k), Poly) and self.env.get(k) == env_a.get(k):
                            continue
                        self.env[k] = None if k in self.env and k in env_a and not _same(self.env[k], env_a[k]) else self.env.get(k, env_a.get(k))
                if a or b:
                    seq.append(Loop(st, a))       # branch bodies are parsed as their own sequences
                    if b:
                        seq.append(Loop(st, b))
        return seq


def _same(a, b):
    if isinstance(a, Poly) and isinstance(b, Poly):
        return a == b
    return a is b


def parse_records(seq):
    """greedy Fortran-record parse of one emission sequence.
    -> list of dict(kind='record'|'struct'|'list'|'undecided'|'loop', ...)"""
    out = []
    i = 0
    items = seq
    while i < len(items):
        it = items[i]
        if isinstance(it, Loop):
            out.append(dict(kind='loop', node=it.node, sub=parse_records(it.seq)))
            i += 1
            continue
        if it.kind == 'struct':
            out.append(dict(kind='struct', item=it))
            i += 1
            continue
        if it.kind == 'list':
            out.append(dict(kind='list', item=it))
            i += 1
            continue
        if it.nb is None:
            out.append(dict(kind='undecided', item=it, why='piece of unknown size: %s' % it.text))
            i += 1
            continue
        if it.kind == 'i' and it.nb == Poly.const(4):
            # opening marker: find the next emission of the same thing
            j = i + 1
            close = None
            while j < len(items):
                x = items[j]
                if isinstance(x, Loop):
                    break
                if x.kind == 'i' and x.nb == Poly.const(4) and ((it.ident is not None and x.ident == it.ident) or
                                                                   (it.marker is not None and x.marker is not None and x.marker == it.marker and x.text == it.text)):
                    close = j
                    break
                j += 1
            if close is None:
                out.append(dict(kind='unclosed', item=it, upto=items[i + 1:j]))
                i += 1
                continue
            payload = items[i + 1:close]
            out.append(dict(kind='record', open=it, close=items[close], payload=payload))
            i = close + 1
            continue
        out.append(dict(kind='stray', item=it))
        i += 1
    return out
