"""Normalisation of the analysed tree by behaviour-preserving rewrites, so that refactorings do not change what the rules see.

The rules recognise constructs of the repository as it is written today.  A refactoring that keeps behaviour (a block extracted into
a private helper, a literal given a name, a local renamed) must not change a verdict.  Rather than teaching every rule every
spelling, the analysed module is first rewritten, in memory, by transformations each of which preserves behaviour *by construction*:

  N1  new module constants     a module-level name that does not exist in the pinned module, is bound exactly once, to an expression
                               made of literals only (and other such names), is replaced by that expression where it is read
  N2  new helpers              a function or method that does not exist in the pinned module and is only ever *called* is inlined at
                               its call sites: an expression helper (`return E`) anywhere, a statement helper where the call is the
                               whole right-hand side / statement / returned value; early returns become if/else (or break + loop
                               else); parameters are bound by assignment unless the argument is a plain name / constant / attribute
                               chain and the parameter is never rebound; helper locals that clash with a name the caller reads are
                               suffixed.  A helper that cannot be inlined (generators, *args, recursion, returns nested in
                               try/with/inner loops) is left alone - the rules then see a call, as they would have.
  N4  new pure temporaries     a local the pinned function does not have, bound once to a call-free expression and read only afterwards in
                               the same block, with nothing it reads rebound or changed in place in between, is replaced by the
                               expression (copy propagation): `grid = self.__hdr; x = grid['nx']` is `x = self.__hdr['nx']`
  N5  new accumulation loops   `X = []; for T in IT: X.append(E)` is `X = [E for T in IT]` where a comprehension of the pinned function was unrolled
  N6  branch shapes            `if not T: B else: A`, `if not T: continue` + rest, `if T1 and T2:` are put back into the pinned function's own
                               `if T: A else: B`, `if T: rest`, `if T1: if T2:` where the pinned function has that test
  N7  new loops over tables    `for a, b in ((x1, y1), (x2, y2)): BODY` over a literal table of names / constants the pinned function does not loop
                               over is BODY[x1, y1]; BODY[x2, y2]
  N8  formatting idiom         `'({:d},{:d})f'.format(a, b)` / an f-string whose template the pinned function formats with % is shown as
                               `'(%d,%d)f' % (a, b)` (view only: the rules read templates in one spelling; the texts produced are the same for
                               the value kinds the templates are used with)
  N9  attribute spelling       `setattr(X, 'name', V)` / `X.name = V`: the spelling the pinned function uses for that attribute
  N3  renamed locals           locals of a function are renamed toward the names the pinned function uses for them.  The pairing is
                               found by aligning the statements of both versions (difflib over statement shapes with locals
                               abstracted) and voting; it is *applied* only if it is injective and the new name occurs nowhere in the
                               function, which is all that soundness of a renaming needs - a wrong pairing can make a rule not
                               recognise something (exit 2), never change behaviour.

"New" is relative to pncstatic/pinned_src.zip (the package as committed at the pinned HEAD, written by tools/mkpinned.py).  The
archive is a naming reference only: nothing in it is analysed, every verdict is about /repo's working tree.  When a module's text
equals the pinned text nothing happens; so on the unchanged tree the normaliser is the identity.
"""
import ast
import copy
import difflib
import os
import zipfile

HERE = os.path.dirname(os.path.abspath(__file__))
ARCHIVE = os.path.join(HERE, 'pinned_src.zip')
_zip = None
_texts = {}
_trees = {}

SCOPES = (ast.FunctionDef, ast.AsyncFunctionDef, ast.Lambda, ast.ClassDef)
TEXTUAL = ('eval', 'exec', 'locals', 'vars', 'globals', 'compile')


def pinned_text(relpath):
    global _zip
    if relpath in _texts:
        return _texts[relpath]
    if _zip is None:
        try:
            _zip = zipfile.ZipFile(ARCHIVE)
        except Exception:
            _zip = False
    t = None
    if _zip:
        try:
            t = _zip.read(relpath.replace(os.sep, '/')).decode('utf-8', 'replace')
        except KeyError:
            t = None
    _texts[relpath] = t
    return t


def pinned_tree(relpath):
    if relpath not in _trees:
        t = pinned_text(relpath)
        try:
            _trees[relpath] = ast.parse(t) if t is not None else None
        except SyntaxError:
            _trees[relpath] = None
    return _trees[relpath]


# ---------------------------------------------------------------------------------------------------------------- scope helpers
def own_nodes(fn, into_scopes=False):
    """nodes of fn's own scope (comprehensions included, nested def/lambda/class bodies not, unless asked)"""
    todo = list(ast.iter_child_nodes(fn))
    while todo:
        n = todo.pop()
        yield n
        if isinstance(n, SCOPES) and not into_scopes:
            # decorators/defaults belong to the enclosing scope, bodies do not
            if not isinstance(n, ast.ClassDef):
                for d in n.args.defaults + [x for x in n.args.kw_defaults if x is not None]:
                    todo.append(d)
            continue
        todo.extend(ast.iter_child_nodes(n))


def params_of(fn):
    a = fn.args
    out = [x.arg for x in a.posonlyargs + a.args + a.kwonlyargs]
    if a.vararg:
        out.append(a.vararg.arg)
    if a.kwarg:
        out.append(a.kwarg.arg)
    return out


def uses_textual_names(fn):
    for n in ast.walk(fn):
        if isinstance(n, ast.Call):
            if isinstance(n.func, ast.Name) and n.func.id in TEXTUAL:
                return True
            if isinstance(n.func, ast.Attribute) and n.func.attr in ('eval', 'symtable'):
                return True
    return False


def local_names(fn):
    """names bound in fn's own scope that a consistent renaming may touch"""
    if uses_textual_names(fn):
        return set()
    params = set(params_of(fn))
    excluded = set()
    stores = set()
    for n in own_nodes(fn):
        if isinstance(n, (ast.Global, ast.Nonlocal)):
            excluded |= set(n.names)
        elif isinstance(n, ast.Name) and isinstance(n.ctx, (ast.Store, ast.Del)):
            stores.add(n.id)
        elif isinstance(n, ast.ExceptHandler) and n.name:
            excluded.add(n.name)
        elif isinstance(n, (ast.Import, ast.ImportFrom)):
            for a in n.names:
                excluded.add((a.asname or a.name).split('.')[0])
        elif isinstance(n, (ast.FunctionDef, ast.AsyncFunctionDef, ast.ClassDef)):
            excluded.add(n.name)
        if isinstance(n, SCOPES) and not isinstance(n, ast.ClassDef):
            for x in ast.walk(n):
                if isinstance(x, ast.arg):
                    excluded.add(x.arg)          # may be passed by keyword
                if isinstance(x, (ast.Global, ast.Nonlocal)):
                    excluded |= set(x.names)
        if isinstance(n, ast.ClassDef):
            for x in ast.walk(n):
                if isinstance(x, ast.Name):
                    excluded.add(x.id)
    return stores - params - excluded


def all_ids(fn):
    out = set()
    for n in ast.walk(fn):
        if isinstance(n, ast.Name):
            out.add(n.id)
        elif isinstance(n, ast.arg):
            out.add(n.arg)
        elif isinstance(n, (ast.FunctionDef, ast.AsyncFunctionDef, ast.ClassDef)):
            out.add(n.name)
        elif isinstance(n, (ast.Global, ast.Nonlocal)):
            out |= set(n.names)
        elif isinstance(n, ast.ExceptHandler) and n.name:
            out.add(n.name)
        elif isinstance(n, (ast.Import, ast.ImportFrom)):
            for a in n.names:
                out.add((a.asname or a.name).split('.')[0])
    return out


def rename_ids(node, mapping):
    for x in ast.walk(node):
        if isinstance(x, ast.Name) and x.id in mapping:
            x.id = mapping[x.id]


def index_functions(tree):
    """qualname -> (FunctionDef, owner body list, class node or None) for module-level functions and methods (one class level)"""
    out = {}

    def visit(body, prefix, cls):
        for st in body:
            if isinstance(st, (ast.FunctionDef, ast.AsyncFunctionDef)):
                out[prefix + st.name] = (st, body, cls)
            elif isinstance(st, ast.ClassDef):
                visit(st.body, prefix + st.name + '.', st)
            elif isinstance(st, (ast.If, ast.Try)):
                for fld in ('body', 'orelse', 'finalbody'):
                    visit(getattr(st, fld, []) or [], prefix, cls)
                for h in getattr(st, 'handlers', []) or []:
                    visit(h.body, prefix, cls)
    visit(tree.body, '', None)
    return out


def module_level_names(tree):
    out = {}
    for st in tree.body:
        tg = []
        if isinstance(st, ast.Assign):
            tg = st.targets
        elif isinstance(st, (ast.AnnAssign, ast.AugAssign)):
            tg = [st.target]
        for t in tg:
            for n in ast.walk(t):
                if isinstance(n, ast.Name):
                    out.setdefault(n.id, []).append(st)
    return out


# ------------------------------------------------------------------------------------------------------------ N1: new constants
def _literal_only(e, known):
    for n in ast.walk(e):
        if isinstance(n, (ast.Constant, ast.Tuple, ast.List, ast.Dict, ast.Set, ast.BinOp, ast.UnaryOp, ast.operator, ast.unaryop,
                          ast.expr_context)):
            continue
        if isinstance(n, ast.Name) and n.id in known:
            continue
        return False
    return True


def new_constants(tree, pin):
    cur = module_level_names(tree)
    old = module_level_names(pin) if pin is not None else {}
    oldfuncs = set(n.name for n in ast.walk(pin) if isinstance(n, (ast.FunctionDef, ast.ClassDef))) if pin is not None else set()
    # names stored anywhere else in the module (global statements, augmented assignment, mutation through methods) are not constants
    touched = set()
    for n in ast.walk(tree):
        if isinstance(n, (ast.Global, ast.Nonlocal)):
            touched |= set(n.names)
    out = {}
    changed = True
    while changed:
        changed = False
        for name, sts in cur.items():
            if name in out or name in old or name in oldfuncs or name in touched or len(sts) != 1:
                continue
            st = sts[0]
            if not isinstance(st, ast.Assign) or len(st.targets) != 1 or not isinstance(st.targets[0], ast.Name):
                continue
            if _literal_only(st.value, out):
                out[name] = st
                changed = True
    # a mutable display must only ever be read whole (iterated, indexed, tested); a method call on it could mutate it
    for name in list(out):
        v = out[name].value
        if isinstance(v, (ast.List, ast.Dict, ast.Set)):
            for n in ast.walk(tree):
                if isinstance(n, ast.Attribute) and isinstance(n.value, ast.Name) and n.value.id == name and \
                        n.attr not in ('get', 'keys', 'values', 'items', 'index', 'count', 'copy'):
                    out.pop(name, None)
                if isinstance(n, ast.Subscript) and isinstance(n.value, ast.Name) and n.value.id == name and not isinstance(n.ctx, ast.Load):
                    out.pop(name, None)
    # ... and it must not escape: a use as a plain value (bound to another name, passed on, returned, used as a default) can end in a
    # mutation through the alias, which the substitution of a fresh display per use would hide
    mutable = [name for name in out if isinstance(out[name].value, (ast.List, ast.Dict, ast.Set))]
    if mutable:
        parent = {}
        for n in ast.walk(tree):
            for ch in ast.iter_child_nodes(n):
                parent[id(ch)] = n
        SAFE_CALLS = ('len', 'dict', 'list', 'tuple', 'set', 'sorted', 'frozenset', 'enumerate', 'zip', 'sum', 'min', 'max', 'any', 'all', 'OrderedDict')
        for n in ast.walk(tree):
            if isinstance(n, ast.Name) and n.id in mutable and isinstance(n.ctx, ast.Load) and n.id in out:
                par = parent.get(id(n))
                ok = False
                if isinstance(par, ast.Attribute):
                    ok = True      # method calls were vetted above
                elif isinstance(par, ast.Subscript) and par.value is n:
                    ok = True
                elif isinstance(par, (ast.For, ast.comprehension)) and par.iter is n:
                    ok = True
                elif isinstance(par, ast.Compare) and n in par.comparators and all(isinstance(o, (ast.In, ast.NotIn)) for o in par.ops):
                    ok = True
                elif isinstance(par, ast.Call) and isinstance(par.func, ast.Name) and par.func.id in SAFE_CALLS and n in par.args:
                    ok = True
                elif isinstance(par, ast.BinOp) and isinstance(par.op, ast.Add):
                    ok = True      # concatenation builds a new object
                elif isinstance(par, ast.Starred):
                    ok = True
                if not ok:
                    out.pop(n.id, None)
    return out


def _fold_constant_tests(body):
    """`if <constant> is None:` / `is not None` after a parameter was replaced by a constant argument: keep the branch that runs"""
    out = []
    for st in body:
        if isinstance(st, ast.If) and isinstance(st.test, ast.Compare) and len(st.test.ops) == 1 and isinstance(st.test.ops[0], (ast.Is, ast.IsNot)) \
                and isinstance(st.test.left, ast.Constant) and isinstance(st.test.comparators[0], ast.Constant):
            truth = (st.test.left.value is st.test.comparators[0].value) == isinstance(st.test.ops[0], ast.Is)
            out.extend(_fold_constant_tests(st.body if truth else st.orelse))
            continue
        for fld in ('body', 'orelse', 'finalbody'):
            sub_ = getattr(st, fld, None)
            if isinstance(sub_, list) and sub_ and isinstance(sub_[0], ast.stmt) and not isinstance(st, SCOPES):
                setattr(st, fld, _fold_constant_tests(sub_) or [ast.Pass()])
        out.append(st)
    return out


class _Subst(ast.NodeTransformer):
    """replace Load occurrences of names by expressions; does not enter scopes that rebind the name"""

    def __init__(self, mapping):
        self.mapping = mapping
        self.count = 0

    def visit_Name(self, n):
        if isinstance(n.ctx, ast.Load) and n.id in self.mapping:
            self.count += 1
            new = copy.deepcopy(self.mapping[n.id])
            for x in ast.walk(new):
                if hasattr(x, 'lineno') or isinstance(x, (ast.expr, ast.stmt)):
                    ast.copy_location(x, n)
            return new
        return n

    def _scope(self, n):
        bound = set(params_of(n)) if not isinstance(n, ast.ClassDef) else set()
        if not isinstance(n, ast.Lambda):
            for x in own_nodes(n):
                if isinstance(x, ast.Name) and isinstance(x.ctx, (ast.Store, ast.Del)):
                    bound.add(x.id)
        hidden = dict((k, v) for k, v in self.mapping.items() if k in bound)
        if hidden:
            keep = self.mapping
            self.mapping = dict((k, v) for k, v in keep.items() if k not in bound)
            self.generic_visit(n)
            self.mapping = keep
        else:
            self.generic_visit(n)
        return n
    visit_FunctionDef = visit_AsyncFunctionDef = visit_Lambda = visit_ClassDef = _scope


def apply_constants(tree, consts):
    if not consts:
        return 0
    # resolve constants that mention other constants
    mapping = {}
    for name, st in consts.items():
        mapping[name] = st.value
    for _ in range(4):
        for name in mapping:
            s = _Subst(dict((k, v) for k, v in mapping.items() if k != name))
            mapping[name] = s.visit(copy.deepcopy(mapping[name]))
    s = _Subst(mapping)
    for i, st in enumerate(tree.body):
        if any(st is c for c in consts.values()):
            continue
        tree.body[i] = s.visit(st)
    if s.count:
        tree.body[:] = [st for st in tree.body if not any(st is c for c in consts.values())]
    return s.count


# --------------------------------------------------------------------------------------------------------------- N2: new helpers
class NotInlinable(Exception):
    pass


def _body_sans_doc(fn):
    b = fn.body
    if b and isinstance(b[0], ast.Expr) and isinstance(b[0].value, ast.Constant) and isinstance(b[0].value.value, str):
        b = b[1:]
    return b


def _contains(stmts, kinds, stop=SCOPES):
    todo = list(stmts)
    while todo:
        n = todo.pop()
        if isinstance(n, kinds):
            return True
        if isinstance(n, stop):
            continue
        todo.extend(ast.iter_child_nodes(n))
    return False


def as_expression(body):
    """an if / elif / else chain of plain returns (or a single return) as one conditional expression, else None"""
    if not body:
        return None
    st = body[0]
    if isinstance(st, ast.Return) and st.value is not None:
        return st.value
    if isinstance(st, ast.Assign) and len(st.targets) == 1 and isinstance(st.targets[0], ast.Name) and len(body) > 1:
        # a single-use (or call-free) temporary: substitute it in the rest
        name = st.targets[0].id
        rest = body[1:]
        stored_again = any(isinstance(n, ast.Name) and n.id == name and isinstance(n.ctx, (ast.Store, ast.Del)) for r in rest for n in ast.walk(r))
        uses = sum(1 for r in rest for n in ast.walk(r) if isinstance(n, ast.Name) and n.id == name and isinstance(n.ctx, ast.Load))
        if stored_again or (uses > 1 and _contains([st.value], ast.Call) and not _is_trivial_call(st.value)):
            return None
        e = as_expression(rest)
        if e is None:
            return None
        return _Subst({name: st.value}).visit(copy.deepcopy(e))
    if isinstance(st, ast.If):
        if st.orelse and len(body) > 1:
            return None
        a = as_expression(st.body)
        b = as_expression(st.orelse if st.orelse else body[1:])
        if a is not None and b is not None:
            return ast.copy_location(ast.IfExp(test=st.test, body=a, orelse=b), st)
    return None


def _is_trivial_call(e):
    """a call that may be duplicated in the analysed view without changing what the rules conclude (pure numpy constructors)"""
    return isinstance(e, ast.Call) and ast.unparse(e.func) in ('np.arange', 'len', 'np.asarray', 'np.array', 'np.atleast_1d')


def helper_kind(fn):
    """'expr' | 'stmt' | None"""
    deco = [ast.unparse(d) for d in fn.decorator_list]
    if any(d not in ('staticmethod', 'classmethod') for d in deco):
        return None
    if fn.args.vararg or fn.args.kwarg or isinstance(fn, ast.AsyncFunctionDef):
        return None
    if _contains(fn.body, (ast.Yield, ast.YieldFrom, ast.Await, ast.Global, ast.Nonlocal)):
        return None
    if uses_textual_names(fn):
        return None
    for n in ast.walk(fn):
        if isinstance(n, ast.Name) and n.id == fn.name:
            return None            # recursive / self-referential
    b = _body_sans_doc(fn)
    if len(b) == 1 and isinstance(b[0], ast.Return) and b[0].value is not None:
        return 'expr'
    return 'stmt'


def _is_trivial_arg(e):
    if isinstance(e, (ast.Name, ast.Constant)):
        return True
    if isinstance(e, ast.Attribute):
        return _is_trivial_arg(e.value)
    return False


def _immutable_default(d):
    if isinstance(d, ast.Constant):
        return True
    if isinstance(d, (ast.Name, ast.Attribute)):
        return True
    if isinstance(d, ast.UnaryOp):
        return _immutable_default(d.operand)
    if isinstance(d, ast.Tuple):
        return all(_immutable_default(x) for x in d.elts)
    if isinstance(d, ast.BinOp) and isinstance(d.op, (ast.Add, ast.Mult, ast.Sub)):
        # arithmetic / concatenation of constants and tuples gives a new immutable value (a Name operand could be a list: refused)
        return all(_immutable_default(x) and not isinstance(x, (ast.Name, ast.Attribute)) for x in (d.left, d.right))
    return False


def _bind_args(fn, call, deco, recv):
    """-> ordered list of (param, argument expression) or raises"""
    a = fn.args
    names = [x.arg for x in a.posonlyargs + a.args]
    if recv is not None and 'staticmethod' not in deco:
        if not names:
            raise NotInlinable('no self')
        bound = [(names[0], recv)]
        names = names[1:]
    else:
        bound = []
    if any(isinstance(x, ast.Starred) for x in call.args) or any(k.arg is None for k in call.keywords):
        raise NotInlinable('star args')
    if len(call.args) > len(names):
        raise NotInlinable('too many args')
    got = dict()
    for n, v in zip(names, call.args):
        got[n] = v
    allnames = names + [x.arg for x in a.kwonlyargs]
    for k in call.keywords:
        if k.arg not in allnames or k.arg in got:
            raise NotInlinable('keyword')
        got[k.arg] = k.value
    defaults = dict(zip(names[len(names) - len(a.defaults):], a.defaults)) if a.defaults else {}
    for x, d in zip(a.kwonlyargs, a.kw_defaults):
        if d is not None:
            defaults[x.arg] = d
    for n in allnames:
        if n in got:
            bound.append((n, got[n]))
        elif n in defaults:
            # a default is evaluated once, at definition time: only a value that cannot carry state from call to call (a constant, a
            # name) may be written into the call site; a [] / {} / call default is one object shared by all calls
            if not _immutable_default(defaults[n]):
                raise NotInlinable('mutable default')
            bound.append((n, defaults[n]))
        else:
            raise NotInlinable('missing argument')
    return bound


def _rewrite_returns(body, k, in_loop=False):
    """statements of a helper body with `return v` replaced by k(v) and control flow restructured so that nothing after a return
    runs: -> (statements, terminated).  k(v) -> list of statements; in_loop: a Break follows k(v) (the caller arranged a loop else)"""
    out = []
    for i, st in enumerate(body):
        if isinstance(st, ast.Return):
            out += k(st.value) + ([ast.Break()] if in_loop else [])
            return out, True
        if isinstance(st, ast.Raise):
            out.append(st)
            return out, True
        if isinstance(st, ast.If):
            if not _contains([st], ast.Return):
                out.append(st)
                continue
            b, bt = _rewrite_returns(st.body, k, in_loop)
            o, ot = _rewrite_returns(st.orelse, k, in_loop) if st.orelse else ([], False)
            if bt and ot:
                out.append(ast.If(test=st.test, body=b, orelse=o))
                return out, True
            if bt or ot:
                rest, rt = _rewrite_returns(body[i + 1:], k, in_loop)
                if bt:
                    out.append(ast.If(test=st.test, body=b, orelse=o + rest))
                else:
                    out.append(ast.If(test=st.test, body=b + rest, orelse=o))
                return out, rt
            raise NotInlinable('return nested in a branch that continues')
        if isinstance(st, (ast.For, ast.While)):
            if not _contains([st], ast.Return):
                out.append(st)
                continue
            if in_loop or st.orelse or _contains(st.body, ast.Break, stop=SCOPES + (ast.For, ast.While)):
                raise NotInlinable('return in a loop with break/else or in a nested loop')
            lb = _loop_body(st.body, k)
            rest, rt = _rewrite_returns(body[i + 1:], k, False)
            new = copy.copy(st)
            new.body, new.orelse = lb, rest
            out.append(new)
            return out, rt
        if isinstance(st, (ast.With, ast.AsyncWith)):
            if not _contains([st], ast.Return):
                out.append(st)
                continue
            b, bt = _rewrite_returns(st.body, k, in_loop)
            if not bt:
                raise NotInlinable('return on some paths of a with block')
            new = copy.copy(st)
            new.body = b
            out.append(new)
            return out, True
        if isinstance(st, ast.Try):
            if not _contains([st], ast.Return):
                out.append(st)
                continue
            if st.finalbody and _contains(st.finalbody, ast.Return):
                raise NotInlinable('return in finally')
            b, bt = _rewrite_returns(st.body, k, in_loop)
            o, ot = _rewrite_returns(st.orelse, k, in_loop) if st.orelse else ([], False)
            hs, hts = [], []
            for h in st.handlers:
                hb, ht = _rewrite_returns(h.body, k, in_loop)
                nh = copy.copy(h)
                nh.body = hb
                hs.append(nh)
                hts.append(ht)
            normal_t = bt or ot
            if normal_t and all(hts):
                new = copy.copy(st)
                new.body, new.orelse, new.handlers = b, o, hs
                out.append(new)
                return out, True
            if not normal_t and not any(hts):
                raise NotInlinable('return nested deeper in try')
            # some ways out of the try statement return, others fall through to the rest of the helper: a flag-free rewrite
            # needs the rest inside the continuing parts; only done when the rest is short and cannot raise into the handlers
            rest, rt = _rewrite_returns(body[i + 1:], k, in_loop)
            if normal_t:
                # body returns, some handler continues: the rest goes to the end of every continuing handler
                for nh, ht in zip(hs, hts):
                    if not ht:
                        nh.body = nh.body + copy.deepcopy(rest)
                new = copy.copy(st)
                new.body, new.orelse, new.handlers = b, o, hs
                out.append(new)
                return out, rt
            raise NotInlinable('handler returns, body continues')
        out.append(st)
    return out, False


def _loop_body(body, k):
    out = []
    for i, st in enumerate(body):
        if isinstance(st, ast.Return):
            out += k(st.value) + [ast.Break()]
            return out
        if isinstance(st, ast.If) and _contains([st], ast.Return):
            b, bt = _rewrite_returns(st.body, k, True)
            o, ot = _rewrite_returns(st.orelse, k, True) if st.orelse else ([], False)
            out.append(ast.If(test=st.test, body=b, orelse=o))
            if bt and ot:
                return out
            continue
        if _contains([st], ast.Return):
            raise NotInlinable('return nested in a compound statement inside a loop')
        out.append(st)
    return out


class Inliner(object):
    def __init__(self, tree, pin):
        self.tree = tree
        self.cur = index_functions(tree)
        self.pin = index_functions(pin) if pin is not None else {}
        self.pin_toplevel = set()
        if pin is not None:
            self.pin_toplevel = set(module_level_names(pin)) | set(n.name for n in pin.body if isinstance(n, (ast.FunctionDef, ast.ClassDef)))
        self.helpers = {}
        for q, (fn, body, cls) in self.cur.items():
            if q in self.pin:
                continue
            if cls is None and fn.name in self.pin_toplevel:
                continue
            kind = helper_kind(fn)
            if kind:
                self.helpers[q] = (fn, body, cls, kind)
        self.inlined = 0
        self.failed = []
        self._uid = 0

    # -- resolution of a call to a helper ------------------------------------------------------------------------------------
    def resolve(self, call, cls):
        """-> (qualname, receiver expr or None) or None"""
        f = call.func
        if isinstance(f, ast.Name) and f.id in self.helpers and self.helpers[f.id][2] is None:
            return f.id, None
        if isinstance(f, ast.Attribute) and isinstance(f.value, ast.Name):
            if cls is not None and f.value.id in ('self', 'cls') and (cls.name + '.' + f.attr) in self.helpers:
                return cls.name + '.' + f.attr, f.value
            q = f.value.id + '.' + f.attr
            if q in self.helpers:
                deco = [ast.unparse(d) for d in self.helpers[q][0].decorator_list]
                if 'staticmethod' in deco:
                    return q, None
            # <object>._newmethod(...): a method that is new relative to the pinned module and whose name is defined by exactly one
            # class of the module (and by no pinned function) can only be that one - inlined with the object bound to its first parameter
            if f.attr.startswith('_') and not f.attr.startswith('__'):
                cands = [k for k in self.helpers if k.endswith('.' + f.attr) and self.helpers[k][2] is not None]
                clash = [k for k in list(self.cur) + list(self.pin) if (k == f.attr or k.endswith('.' + f.attr)) and k not in cands]
                if len(cands) == 1 and not clash:
                    deco = [ast.unparse(d) for d in self.helpers[cands[0]][0].decorator_list]
                    if not deco:
                        return cands[0], f.value
        return None

    def only_called(self, q):
        """every mention of the helper's name is a call that resolve() understands (not stored, passed, or used from elsewhere)"""
        fn, body, cls, kind = self.helpers[q]
        for n in ast.walk(self.tree):
            if isinstance(n, ast.Name) and n.id == fn.name and cls is None:
                p = self.parent.get(id(n))
                if not (isinstance(p, ast.Call) and p.func is n):
                    return False
            if isinstance(n, ast.Attribute) and n.attr == fn.name and cls is not None:
                p = self.parent.get(id(n))
                if not (isinstance(p, ast.Call) and p.func is n):
                    return False
            if isinstance(n, ast.Constant) and n.value == fn.name:
                return False
        return True

    # -- the two forms -------------------------------------------------------------------------------------------------------
    def expr_inline(self, call, q, recv):
        fn, body, cls, kind = self.helpers[q]
        deco = [ast.unparse(d) for d in fn.decorator_list]
        bound = _bind_args(fn, call, deco, recv)
        e = copy.deepcopy(as_expression(_body_sans_doc(fn)))
        if e is None:
            raise NotInlinable('not an expression helper')
        uses = {}
        for n in ast.walk(e):
            if isinstance(n, ast.Name):
                uses[n.id] = uses.get(n.id, 0) + 1
        for p, a in bound:
            if uses.get(p, 0) > 1 and not _is_trivial_arg(a) and _contains([a], ast.Call):
                raise NotInlinable('argument with a call would be duplicated')
        # names bound inside the expression (comprehension targets, lambda parameters) must not capture free names of the arguments
        inner = set(n.id for n in ast.walk(e) if isinstance(n, ast.Name) and isinstance(n.ctx, ast.Store)) | \
            set(n.arg for n in ast.walk(e) if isinstance(n, ast.arg))
        for p, a in bound:
            if inner & set(n.id for n in ast.walk(a) if isinstance(n, ast.Name)):
                raise NotInlinable('capture')
            if p in inner:
                raise NotInlinable('parameter rebound in the expression')
        s = _Subst(dict(bound))
        new = s.visit(e)
        for x in ast.walk(new):
            if not hasattr(x, 'lineno') and isinstance(x, (ast.expr,)):
                ast.copy_location(x, call)
        return new

    def stmt_inline(self, st, call, q, recv, caller):
        """st is `T = call`, `call` (Expr) or `return call`; -> list of statements"""
        fn, body, cls, kind = self.helpers[q]
        deco = [ast.unparse(d) for d in fn.decorator_list]
        bound = _bind_args(fn, call, deco, recv)
        hbody = copy.deepcopy(_body_sans_doc(fn))
        hfn = ast.FunctionDef(name='_', args=copy.deepcopy(fn.args), body=hbody, decorator_list=[])
        has_scopes = _contains(hbody, SCOPES, stop=())
        stored = set(n.id for n in own_nodes(hfn) if isinstance(n, ast.Name) and isinstance(n.ctx, (ast.Store, ast.Del)))
        # helper locals that clash with a name the caller reads get a suffix
        hlocals = stored - set(p for p, a in bound)
        caller_reads = _live_after(caller, st) | (set(params_of(caller)) - _target_names(st))
        arg_names = set(n.id for p, a in bound for n in ast.walk(a) if isinstance(n, ast.Name))
        taken = all_ids(caller) | all_ids(hfn)
        ren = {}
        for nme in sorted(hlocals):
            if nme in caller_reads or nme in arg_names:
                self._uid += 1
                new = '%s_%s' % (nme, fn.name.strip('_'))
                while new in taken:
                    new += '_'
                ren[nme] = new
                taken.add(new)
        if ren:
            if has_scopes:
                raise NotInlinable('clashing local in a helper with nested scopes')
            rename_ids(hfn, ren)
        pre = []
        subst = {}
        for p, a in bound:
            if isinstance(a, ast.Name) and a.id == p:
                continue
            if p not in stored and _is_trivial_arg(a) and not has_scopes:
                subst[p] = a
                continue
            if p not in stored and has_scopes and self._closure_safe(hfn, p, a, caller, st):
                # a helper that builds closures: the parameter is read by the nested functions when they run, so it may be replaced
                # by the argument only when that is a constant, or a caller name that is never bound again (late binding sees the
                # same object), and no nested scope has a name of its own that would capture it
                subst[p] = a
                continue
            if p in caller_reads and not (isinstance(a, ast.Name) and a.id == p):
                # binding the parameter by assignment would overwrite a caller variable of the same name
                newp = p + '_' + fn.name.strip('_')
                while newp in taken:
                    newp += '_'
                if has_scopes:
                    raise NotInlinable('clashing parameter in a helper with nested scopes')
                rename_ids(hfn, {p: newp})
                taken.add(newp)
                p = newp
            pre.append(ast.copy_location(ast.Assign(targets=[ast.Name(id=p, ctx=ast.Store())], value=copy.deepcopy(a), lineno=st.lineno), st))
        if subst:
            s = _Subst(subst)
            hbody = [s.visit(x) for x in hfn.body]
            hbody = _fold_constant_tests(hbody)
        else:
            hbody = hfn.body
        if isinstance(st, ast.Return):
            out = pre + hbody
            if not _always_terminates(hbody):
                out.append(ast.Return(value=ast.Constant(value=None)))
        else:
            if isinstance(st, ast.Assign):
                targets = st.targets

                def k(v):
                    return [ast.Assign(targets=copy.deepcopy(targets), value=v if v is not None else ast.Constant(value=None), lineno=getattr(v, 'lineno', st.lineno))]
            elif isinstance(st, ast.AugAssign):
                def k(v):
                    return [ast.AugAssign(target=copy.deepcopy(st.target), op=st.op, value=v if v is not None else ast.Constant(value=None))]
            else:
                def k(v):
                    if v is not None and _contains([v], ast.Call):
                        return [ast.Expr(value=v)]
                    return []
            new, term = _rewrite_returns(hbody, k)
            if not term and not isinstance(st, ast.Expr):
                new = new + k(None)
            out = _drop_self_assign(pre + new)
        # the inlined statements take the position of the call site (rules order statements by line); the line they were written
        # on is kept for the report
        # ... and, among themselves, they keep their program order: the k-th inlined statement gets the (fractional) line
        # <call site> + k/10000, which sorts after the call-site line and before the next source line; '%d' % lineno still prints the
        # call-site line
        counter = [0]

        def place(node, line):
            for y in ast.iter_child_nodes(node):
                if isinstance(y, ast.stmt):
                    continue
                if isinstance(y, (ast.expr, ast.ExceptHandler)):
                    if hasattr(y, 'lineno') and not hasattr(y, '_src_lineno'):
                        y._src_lineno = y.lineno
                    y.lineno = line
                    y.end_lineno = line
                    y.col_offset = getattr(y, 'col_offset', 0)
                    y.end_col_offset = getattr(y, 'end_col_offset', 0)
                place(y, line)

        def order(stmts):
            for x in stmts:
                counter[0] += 1
                line = st.lineno + counter[0] / 10000.0
                if hasattr(x, 'lineno') and not hasattr(x, '_src_lineno'):
                    x._src_lineno = x.lineno
                x.lineno = line
                x.end_lineno = line
                x.col_offset = getattr(x, 'col_offset', 0)
                x.end_col_offset = getattr(x, 'end_col_offset', 0)
                place(x, line)
                for f_ in ('body', 'orelse', 'finalbody'):
                    sub = getattr(x, f_, None)
                    if isinstance(sub, list) and sub and isinstance(sub[0], ast.stmt):
                        order(sub)
                for h in getattr(x, 'handlers', []) or []:
                    order(h.body)
        order(out)
        if out:
            # the first inlined statement keeps the call-site line itself (rules that look a statement up by the line of the call)
            pass
        return out

    def _closure_safe(self, hfn, p, a, caller, st):
        nested = [n for n in ast.walk(hfn) if isinstance(n, SCOPES) and n is not hfn]
        for sc in nested:
            own = set(params_of(sc)) if not isinstance(sc, ast.ClassDef) else set()
            own |= set(x.id for x in own_nodes(sc) if isinstance(x, ast.Name) and isinstance(x.ctx, (ast.Store, ast.Del)))
            if p in own:
                return False
            if isinstance(a, ast.Name) and a.id in own:
                return False
        if isinstance(a, ast.Constant):
            return True
        if isinstance(a, ast.Name):
            # every binding of the caller's name happens before the call statement, and the call is not inside a loop
            for n in ast.walk(caller):
                if isinstance(n, ast.Name) and n.id == a.id and isinstance(n.ctx, (ast.Store, ast.Del)) and getattr(n, 'lineno', 0) >= st.lineno:
                    return False
            par = self.parent.get(id(st))
            while par is not None and par is not caller:
                if isinstance(par, (ast.For, ast.While)):
                    return False
                par = self.parent.get(id(par))
            return True
        return False

    # -- driver --------------------------------------------------------------------------------------------------------------
    def run(self):
        if not self.helpers:
            return 0
        self.parent = {}
        for n in ast.walk(self.tree):
            for c in ast.iter_child_nodes(n):
                self.parent[id(c)] = n
        usable = dict((q, h) for q, h in self.helpers.items() if self.only_called(q))
        self.helpers = usable
        if not usable:
            return 0
        for _ in range(4):
            before = self.inlined
            for q, (fn, body, cls) in list(index_functions(self.tree).items()):
                self.block(fn.body, fn, cls)
                # nested functions of the function
                for n in ast.walk(fn):
                    if n is not fn and isinstance(n, (ast.FunctionDef, ast.AsyncFunctionDef)):
                        self.block(n.body, n, cls)
            if self.inlined == before:
                break
        # drop helpers that are no longer mentioned
        for q, (fn, body, cls, kind) in usable.items():
            mentioned = False
            for n in ast.walk(self.tree):
                if n is fn:
                    continue
                if isinstance(n, ast.Name) and n.id == fn.name and cls is None:
                    mentioned = True
                if isinstance(n, ast.Attribute) and n.attr == fn.name and cls is not None:
                    mentioned = True
            inside = set(id(x) for x in ast.walk(fn))
            if mentioned:
                # mentions inside the helper itself do not count (none: recursion is excluded)
                pass
            if not mentioned and fn in body:
                body.remove(fn)
                if not body:
                    body.append(ast.Pass())
        return self.inlined

    def block(self, stmts, caller, cls):
        i = 0
        while i < len(stmts):
            st = stmts[i]
            if isinstance(st, (ast.FunctionDef, ast.AsyncFunctionDef, ast.ClassDef)):
                i += 1
                continue
            # statement form: the call is the whole value
            call = None
            if isinstance(st, (ast.Assign, ast.AugAssign, ast.Expr, ast.Return)) and isinstance(st.value, ast.Call):
                call = st.value
            done = False
            if call is not None:
                r = self.resolve(call, cls)
                if r is not None and self.helpers[r[0]][0] is not caller:
                    q, recv = r
                    try:
                        if self.helpers[q][3] == 'expr':
                            st.value = self.expr_inline(call, q, recv)
                        else:
                            new = self.stmt_inline(st, call, q, recv, caller)
                            stmts[i:i + 1] = new
                            done = True
                        self.inlined += 1
                    except NotInlinable as e:
                        self.failed.append((q, str(e)))
            if not done and isinstance(st, (ast.Assign, ast.AugAssign, ast.Expr, ast.Return)) and st.value is not None:
                # a statement helper called inside the expression: if it is the first call the statement evaluates, bind its result to
                # a temporary just before the statement (same order of evaluation) and inline that
                first = _first_call(st.value)
                r = self.resolve(first, cls) if first is not None and first is not st.value else None
                if r is not None and self.helpers[r[0]][0] is not caller and self.helpers[r[0]][3] == 'stmt' \
                        and as_expression(_body_sans_doc(self.helpers[r[0]][0])) is None:
                    q, recv = r
                    tmp = '%s_result' % self.helpers[q][0].name.strip('_')
                    taken = all_ids(caller)
                    while tmp in taken:
                        tmp += '_'
                    hoisted = ast.copy_location(ast.Assign(targets=[ast.Name(id=tmp, ctx=ast.Store())], value=first, lineno=st.lineno), st)
                    try:
                        new = self.stmt_inline(hoisted, first, q, recv, caller)
                        _replace_node(st, first, ast.copy_location(ast.Name(id=tmp, ctx=ast.Load()), first))
                        stmts[i:i] = new
                        self.inlined += 1
                        done = True
                    except NotInlinable as e:
                        self.failed.append((q, str(e)))
            if done:
                continue        # re-examine the spliced statements (helpers calling helpers)
            # expression helpers anywhere in the statement's own expressions
            self.exprs(st, cls, caller)
            for fld in ('body', 'orelse', 'finalbody'):
                sub = getattr(st, fld, None)
                if isinstance(sub, list) and sub and isinstance(sub[0], ast.stmt):
                    self.block(sub, caller, cls)
            for h in getattr(st, 'handlers', []) or []:
                self.block(h.body, caller, cls)
            i += 1

    def exprs(self, st, cls, caller):
        inl = self

        class T(ast.NodeTransformer):
            def visit_Call(self, n):
                self.generic_visit(n)
                r = inl.resolve(n, cls)
                if r is not None and inl.helpers[r[0]][0] is not caller and \
                        (inl.helpers[r[0]][3] == 'expr' or as_expression(_body_sans_doc(inl.helpers[r[0]][0])) is not None):
                    try:
                        new = inl.expr_inline(n, r[0], r[1])
                        inl.inlined += 1
                        return new
                    except NotInlinable as e:
                        inl.failed.append((r[0], str(e)))
                return n

            def visit_FunctionDef(self, n):
                return n
            visit_AsyncFunctionDef = visit_ClassDef = visit_FunctionDef
        t = T()
        for fld, val in ast.iter_fields(st):
            if fld in ('body', 'orelse', 'finalbody', 'handlers'):
                continue
            if isinstance(val, ast.AST):
                setattr(st, fld, t.visit(val))
            elif isinstance(val, list):
                setattr(st, fld, [t.visit(v) if isinstance(v, ast.AST) else v for v in val])


def _drop_self_assign(stmts):
    out = []
    for st in stmts:
        if isinstance(st, ast.Assign) and len(st.targets) == 1 and isinstance(st.targets[0], ast.Name) and isinstance(st.value, ast.Name) \
                and st.targets[0].id == st.value.id:
            continue
        for fld in ('body', 'orelse', 'finalbody'):
            sub = getattr(st, fld, None)
            if isinstance(sub, list) and sub and isinstance(sub[0], ast.stmt):
                new = _drop_self_assign(sub)
                setattr(st, fld, new or ([ast.Pass()] if fld == 'body' else []))
        for h in getattr(st, 'handlers', []) or []:
            h.body = _drop_self_assign(h.body) or [ast.Pass()]
        out.append(st)
    return out


def _target_names(st):
    out = set()
    if isinstance(st, ast.Assign):
        for t in st.targets:
            if isinstance(t, ast.Name):
                out.add(t.id)
    return out


def _live_after(caller, st):
    """names of the caller that may be read after statement st before being rebound (conservative: every name read later in
    the source, or anywhere in a loop that encloses st, unless a plain assignment that dominates the read comes in between);
    the statement's own assignment targets are not live (they are rebound by the statement itself)"""
    parent, block_of = {}, {}
    for n in ast.walk(caller):
        for c in ast.iter_child_nodes(n):
            parent[id(c)] = n
    # comprehension-scoped names never leak
    comp_bound = set()
    for n in ast.walk(caller):
        if isinstance(n, (ast.ListComp, ast.SetComp, ast.DictComp, ast.GeneratorExp)):
            tg = set(x.id for g in n.generators for x in ast.walk(g.target) if isinstance(x, ast.Name))
            for x in ast.walk(n):
                if isinstance(x, ast.Name) and x.id in tg:
                    comp_bound.add(id(x))
    # enclosing loops of st
    loops = []
    p = parent.get(id(st))
    while p is not None and p is not caller:
        if isinstance(p, (ast.For, ast.While)):
            loops.append(p)
        p = parent.get(id(p))
    region = None
    if loops:
        region = set(id(x) for x in ast.walk(loops[-1]))
    inside_st = set(id(x) for x in ast.walk(st))
    end = (getattr(st, 'end_lineno', st.lineno), getattr(st, 'end_col_offset', 0))

    def stmt_of(n):
        while n is not None and not isinstance(n, ast.stmt):
            n = parent.get(id(n))
        return n

    def dominates(s, l):
        """statement s (a plain assignment executed on every path through its block) precedes l in s's block or an enclosing position"""
        if not isinstance(s, (ast.Assign, ast.AnnAssign)):
            return False
        blk = parent.get(id(s))
        q = l
        while q is not None and parent.get(id(q)) is not blk:
            q = parent.get(id(q))
        if q is None:
            return False
        for fld in ('body', 'orelse', 'finalbody'):
            b = getattr(blk, fld, None)
            if isinstance(b, list) and s in b and q in b:
                return b.index(s) < b.index(q)
        return False
    stores, loads = {}, {}
    for n in own_nodes(caller):
        if not isinstance(n, ast.Name) or id(n) in comp_bound or id(n) in inside_st:
            continue
        after = (n.lineno, n.col_offset) > end if hasattr(n, 'lineno') else True
        inloop = region is not None and id(n) in region
        if not (after or inloop):
            continue
        (stores if isinstance(n.ctx, ast.Store) else loads).setdefault(n.id, []).append((n, after))
    live = set()
    for name, ls in loads.items():
        for n, after in ls:
            if not after:
                live.add(name)          # read earlier in an enclosing loop: may be read on the next iteration
                break
            ln = stmt_of(n)
            if not any(a2 and (s.lineno, s.col_offset) < (n.lineno, n.col_offset) and dominates(stmt_of(s), ln) for s, a2 in stores.get(name, [])):
                live.add(name)
                break
    return live - _target_names(st)


def _first_call(e):
    """the first Call node that evaluating expression e completes (None when that cannot be told: a conditional part comes first)"""
    if isinstance(e, ast.Call):
        for sub in [e.func] + list(e.args) + [k.value for k in e.keywords]:
            c = _first_call(sub)
            if c is not None:
                return c
            if _contains([sub], ast.Call):
                return None
        return e
    if isinstance(e, (ast.IfExp, ast.BoolOp, ast.Lambda, ast.ListComp, ast.SetComp, ast.DictComp, ast.GeneratorExp)):
        if isinstance(e, (ast.IfExp,)):
            return _first_call(e.test) if _contains([e.test], ast.Call) else None
        if isinstance(e, ast.BoolOp):
            return _first_call(e.values[0]) if _contains([e.values[0]], ast.Call) else None
        return None
    for sub in ast.iter_child_nodes(e):
        if isinstance(sub, ast.expr):
            c = _first_call(sub)
            if c is not None:
                return c
            if _contains([sub], ast.Call):
                return None
    return None


def _replace_node(root, old, new):
    for n in ast.walk(root):
        for f, v in ast.iter_fields(n):
            if v is old:
                setattr(n, f, new)
            elif isinstance(v, list):
                for i, x in enumerate(v):
                    if x is old:
                        v[i] = new


def _always_terminates(body):
    if not body:
        return False
    last = body[-1]
    if isinstance(last, (ast.Return, ast.Raise)):
        return True
    if isinstance(last, ast.If):
        return bool(last.orelse) and _always_terminates(last.body) and _always_terminates(last.orelse)
    return False


# ------------------------------------------------------------------------------------------------------- N2b: new local lambdas
def inline_local_lambdas(fn, pinfn):
    """`name = lambda a: E` / a nested `def name(a): return E` that the pinned function does not have and that is only ever called"""
    pin_names = all_ids(pinfn) if pinfn is not None else set()
    cands = {}
    for st in list(fn.body):
        if isinstance(st, ast.Assign) and len(st.targets) == 1 and isinstance(st.targets[0], ast.Name) and isinstance(st.value, ast.Lambda):
            cands[st.targets[0].id] = (st, st.value.args, st.value.body)
        elif isinstance(st, ast.FunctionDef) and helper_kind(st) == 'expr' and not st.decorator_list:
            cands[st.name] = (st, st.args, _body_sans_doc(st)[0].value)
    n = 0
    for name, (st, args, body) in cands.items():
        if name in pin_names or args.vararg or args.kwarg or args.kwonlyargs or args.defaults:
            continue
        parent = {}
        for x in ast.walk(fn):
            for c in ast.iter_child_nodes(x):
                parent[id(c)] = x
        ok = True
        sites = []
        for x in ast.walk(fn):
            if isinstance(x, ast.Name) and x.id == name:
                if x is getattr(st, 'targets', [None])[0]:
                    continue
                p = parent.get(id(x))
                if isinstance(p, ast.Call) and p.func is x and len(p.args) == len(args.args) and not p.keywords \
                        and not any(isinstance(a, ast.Starred) for a in p.args):
                    sites.append(p)
                else:
                    ok = False
        # free names of the body must mean the same at the call sites: only accept when they are not rebound after the definition
        if not ok or not sites:
            continue
        free = set(y.id for y in ast.walk(body) if isinstance(y, ast.Name)) - set(a.arg for a in args.args)
        rebound = False
        for y in own_nodes(fn):
            if isinstance(y, ast.Name) and isinstance(y.ctx, ast.Store) and y.id in free and getattr(y, 'lineno', 0) > st.lineno:
                rebound = True
        if rebound:
            continue
        for call in sites:
            mapping = dict((a.arg, v) for a, v in zip(args.args, call.args))
            new = _Subst(mapping).visit(copy.deepcopy(body))
            par = parent[id(call)]
            for fld, val in ast.iter_fields(par):
                if val is call:
                    setattr(par, fld, new)
                elif isinstance(val, list):
                    for i, v in enumerate(val):
                        if v is call:
                            val[i] = new
            n += 1
        if st in fn.body:
            fn.body.remove(st)
    if n:
        ast.fix_missing_locations(fn)
    return n


# -------------------------------------------------------------------------------------------------------------- N3: local names
def _simple_units(fn):
    """the function's own expressions/statements in source order: simple statements whole, compound statements by their heads"""
    out = []

    def visit(body):
        for st in body:
            if isinstance(st, (ast.FunctionDef, ast.AsyncFunctionDef, ast.ClassDef)):
                out.append(st)
                continue
            if isinstance(st, (ast.If, ast.While)):
                out.append(st.test)
            elif isinstance(st, (ast.For, ast.AsyncFor)):
                out.append(ast.Tuple(elts=[st.target, st.iter], ctx=ast.Load()))
            elif isinstance(st, (ast.With, ast.AsyncWith)):
                for it in st.items:
                    out.append(it.context_expr)
                    if it.optional_vars is not None:
                        out.append(it.optional_vars)
            elif isinstance(st, ast.Try):
                pass
            else:
                out.append(st)
            for fld in ('body', 'orelse', 'finalbody'):
                sub = getattr(st, fld, None)
                if isinstance(sub, list) and sub and isinstance(sub[0], ast.stmt):
                    visit(sub)
            for h in getattr(st, 'handlers', []) or []:
                visit(h.body)
    visit(fn.body)
    return out


def _shape(node, locals_):
    parts = []
    names = []
    for n in ast.walk(node):
        if isinstance(n, ast.Name):
            if n.id in locals_:
                parts.append('$')
                names.append(n.id)
            else:
                parts.append('N:' + n.id)
        elif isinstance(n, ast.Constant):
            parts.append('C:%r' % (n.value,))
        elif isinstance(n, ast.Attribute):
            parts.append('A:' + n.attr)
        elif isinstance(n, ast.arg):
            parts.append('P:' + n.arg)
        elif isinstance(n, ast.keyword):
            parts.append('K:%s' % n.arg)
        elif isinstance(n, (ast.FunctionDef, ast.ClassDef)):
            parts.append('D:' + n.name)
        elif isinstance(n, ast.expr_context):
            continue
        else:
            parts.append(type(n).__name__)
    return '|'.join(parts), names


def rename_toward(fn, pinfn):
    """-> {current local: pinned local} that was applied"""
    lc, lp = local_names(fn), local_names(pinfn)
    if not lc or not lp:
        return {}
    new = lc - lp
    missing = lp - lc
    if not new or not missing:
        return {}
    cu, pu = _simple_units(fn), _simple_units(pinfn)
    cs = [_shape(u, lc) for u in cu]
    ps = [_shape(u, lp) for u in pu]
    sm = difflib.SequenceMatcher(None, [s for s, _ in cs], [s for s, _ in ps], autojunk=False)
    votes = {}
    for a, b, size in sm.get_matching_blocks():
        for k in range(size):
            for x, y in zip(cs[a + k][1], ps[b + k][1]):
                votes.setdefault(x, {})
                votes[x][y] = votes[x].get(y, 0) + 1
    taken = all_ids(fn)
    mapping = {}
    for x in sorted(new):
        v = votes.get(x)
        if not v:
            continue
        best = max(v, key=lambda y: (v[y], y))
        if best not in missing or best in taken:
            continue
        if v[best] * 3 < sum(v.values()) * 2:
            continue
        # the pinned name's best source must be x
        back = [(votes[z].get(best, 0), z) for z in votes if best in votes[z]]
        if max(back)[1] != x:
            continue
        if best in mapping.values():
            continue
        mapping[x] = best
    if mapping:
        rename_ids(fn, mapping)
    return mapping


# ------------------------------------------------------------------------------------------------------- N4: new pure temporaries
PURE_NODES = (ast.Name, ast.Constant, ast.Attribute, ast.Subscript, ast.Tuple, ast.BinOp, ast.UnaryOp, ast.Compare, ast.BoolOp, ast.Slice,
              ast.operator, ast.unaryop, ast.cmpop, ast.boolop, ast.expr_context, ast.Starred)
MUTATORS = ('append', 'extend', 'insert', 'pop', 'remove', 'clear', 'update', 'setdefault', 'popitem', 'sort', 'reverse', 'add', 'discard',
            'fill', 'resize', 'put', 'itemset', 'setflags', 'byteswap')


PURE_FUNCS = ('len', 'str', 'int', 'float', 'bool', 'tuple', 'abs', 'min', 'max', 'isinstance', 'hasattr', 'repr', 'range', 'np.prod', 'np.shape', 'np.ndim', 'np.isscalar')


CONST_FUNCS = ('np.array', 'array', 'np.dtype', 'dtype', 'np.float32', 'np.float64', 'np.int32', 'np.int64', 'float', 'int')


def _is_pure_call(x):
    """call of a builtin that only looks at its (pure) arguments, or a numpy scalar/array built from constants (optionally .astype(<constant>))"""
    if not isinstance(x, ast.Call) or any(isinstance(a, ast.Starred) for a in x.args):
        return False
    if ast.unparse(x.func) in PURE_FUNCS:
        return True
    if ast.unparse(x.func) in CONST_FUNCS and all(isinstance(a, ast.Constant) for a in x.args) and all(isinstance(k.value, ast.Constant) for k in x.keywords):
        return True
    if isinstance(x.func, ast.Attribute) and x.func.attr == 'astype' and len(x.args) == 1 and isinstance(x.args[0], ast.Constant) and not x.keywords \
            and _is_pure_call(x.func.value):
        return True
    return False


def _is_access_path(e):
    """a name, or attribute / constant-or-name subscript steps from one: evaluating it again gives the same object (or an equivalent
    view) as long as no step of the path is rebound"""
    if isinstance(e, (ast.Name, ast.Constant)):
        return True
    if isinstance(e, ast.Attribute):
        return _is_access_path(e.value)
    if isinstance(e, ast.Subscript) and isinstance(e.slice, (ast.Name, ast.Constant)):
        return _is_access_path(e.value)
    return False


def _each_load_fed_by_previous_assign(fn, name, parent):
    """every read of `name` sits in a statement whose predecessor in the same block is `name = <expr>` (so each definition reaches
    exactly the reads of the statement after it, whatever else the function does with the name)"""
    loads = [x for x in ast.walk(fn) if isinstance(x, ast.Name) and x.id == name and isinstance(x.ctx, ast.Load)]
    if not loads:
        return False
    for u in loads:
        node = u
        ok = False
        while node is not None and node is not fn:
            par = parent.get(id(node))
            if isinstance(node, ast.stmt) and par is not None:
                for fld in ('body', 'orelse', 'finalbody'):
                    b = getattr(par, fld, None)
                    if isinstance(b, list) and node in b:
                        i = b.index(node)
                        prev = b[i - 1] if i > 0 else None
                        ok = isinstance(prev, ast.Assign) and len(prev.targets) == 1 and isinstance(prev.targets[0], ast.Name) and prev.targets[0].id == name \
                            and not isinstance(node, (ast.For, ast.While, ast.If, ast.Try, ast.With, ast.FunctionDef, ast.ClassDef))
                        break
                break
            node = par
        if not ok:
            return False
    # no other kind of binding (loop target, with-as, del, augmented assignment, global)
    for n in ast.walk(fn):
        if isinstance(n, ast.Name) and n.id == name and isinstance(n.ctx, (ast.Store, ast.Del)):
            par = parent.get(id(n))
            if not (isinstance(par, ast.Assign) and len(par.targets) == 1 and par.targets[0] is n):
                return False
        if isinstance(n, (ast.Global, ast.Nonlocal)) and name in n.names:
            return False
    return True


def propagate_new_temporaries(fn, pinfn):
    """a local that the pinned function does not have, bound exactly once by `name = <call-free expression>` and read only in later
    statements of the same block (or nested in them), with nothing the expression reads being rebound or changed in place in
    between, is replaced by that expression (copy propagation); -> number of names removed"""
    if uses_textual_names(fn):
        return 0
    pin_ids = all_ids(pinfn) if pinfn is not None else set()
    params = set(params_of(fn))
    done = 0
    for _ in range(200):
        parent, block_of = {}, {}
        for n in ast.walk(fn):
            for c in ast.iter_child_nodes(n):
                parent[id(c)] = n
        stores = {}
        for n in ast.walk(fn):
            if isinstance(n, ast.Name) and isinstance(n.ctx, (ast.Store, ast.Del)):
                stores.setdefault(n.id, []).append(n)
            elif isinstance(n, ast.arg):
                stores.setdefault(n.arg, []).append(n)
            elif isinstance(n, (ast.Global, ast.Nonlocal)):
                for k in n.names:
                    stores.setdefault(k, []).extend([n, n])
        cand = None
        for st in [x for x in ast.walk(fn) if isinstance(x, ast.Assign)]:
            if len(st.targets) != 1 or not isinstance(st.targets[0], ast.Name):
                continue
            name = st.targets[0].id
            if name in pin_ids or name in params:
                continue
            multi = len(stores.get(name, [])) != 1
            if multi and not _each_load_fed_by_previous_assign(fn, name, parent):
                continue
            pure = all(isinstance(x, PURE_NODES) or _is_pure_call(x) or (isinstance(x, ast.keyword)) for x in ast.walk(st.value))
            blk_owner = parent.get(id(st))
            blk = None
            for fld in ('body', 'orelse', 'finalbody'):
                b = getattr(blk_owner, fld, None)
                if isinstance(b, list) and st in b:
                    blk = b
            if blk is None:
                continue
            after = blk[blk.index(st) + 1:]
            after_ids = set(id(x) for s2 in after for x in ast.walk(s2))
            uses = [x for x in ast.walk(fn) if isinstance(x, ast.Name) and x.id == name and isinstance(x.ctx, ast.Load)]
            if multi:
                # a name that is defined several times, every definition feeding only the statement right after it: this definition's
                # uses are the loads in that next statement
                nxt0 = after[0] if after else None
                uses = [u for u in uses if nxt0 is not None and id(u) in set(id(x) for x in ast.walk(nxt0))]
                pure = False                     # handled by the next-statement rule below (one use, evaluated once, in order)
            if not uses or not all(id(u) in after_ids for u in uses):
                continue
            if not pure:
                # anything else (a comprehension, a call): only when it is read once, by the very next statement, evaluated once
                # there and before any call of that statement completes - the order of evaluation then is unchanged
                nxt = after[0] if after else None
                if len(uses) != 1 or nxt is None or isinstance(nxt, (ast.For, ast.While, ast.If, ast.Try, ast.With, ast.FunctionDef, ast.ClassDef)) \
                        or id(uses[0]) not in set(id(x) for x in ast.walk(nxt)) or _contains([st.value], (ast.Yield, ast.YieldFrom, ast.Await, ast.NamedExpr)):
                    continue
                u = uses[0]
                lazy = False
                p_ = parent.get(id(u))
                while p_ is not None and p_ is not nxt:
                    if isinstance(p_, (ast.Lambda, ast.ListComp, ast.SetComp, ast.DictComp, ast.GeneratorExp, ast.IfExp, ast.BoolOp)):
                        lazy = True
                    p_ = parent.get(id(p_))
                before = [c for c in ast.walk(nxt) if isinstance(c, ast.Call) and (getattr(c, 'end_lineno', 0), getattr(c, 'end_col_offset', 0)) <= (u.lineno, u.col_offset)]
                if lazy or before:
                    continue
                sub = _Subst({name: st.value})
                blk[blk.index(nxt)] = sub.visit(nxt)
                blk.remove(st)
                done += 1
                cand = 'restart'
                break
            # a use inside a nested scope is evaluated later than it is written: leave those alone
            def in_scope(u):
                p_ = parent.get(id(u))
                while p_ is not None and p_ is not fn:
                    if isinstance(p_, SCOPES):
                        return True
                    p_ = parent.get(id(p_))
                return False
            if any(in_scope(u) for u in uses):
                continue
            # the region between the definition and the last use
            last = max(getattr(u, 'lineno', 0) for u in uses)
            region = []
            for s2 in after:
                if getattr(s2, 'lineno', 0) <= last:
                    region.append(s2)
            read = set(x.id for x in ast.walk(st.value) if isinstance(x, ast.Name))
            chains = set(ast.unparse(x) for x in ast.walk(st.value) if isinstance(x, (ast.Attribute, ast.Subscript)))
            clash = False
            alias_only = _is_access_path(st.value)          # names an object; what happens *to* the object does not matter
            for s2 in region:
                for x in ast.walk(s2):
                    if isinstance(x, ast.Name) and isinstance(x.ctx, (ast.Store, ast.Del)) and x.id in read:
                        clash = True
                    if isinstance(x, ast.Attribute) and isinstance(x.ctx, (ast.Store, ast.Del)):
                        t = ast.unparse(x)
                        if any(c == t or c.startswith(t + '.') or c.startswith(t + '[') for c in chains):
                            clash = True            # the attribute (or an object on the way to it) is rebound
                    if alias_only and isinstance(x, ast.Subscript) and isinstance(x.ctx, (ast.Store, ast.Del)):
                        t = ast.unparse(x)
                        if any(c == t or c.startswith(t + '.') or c.startswith(t + '[') for c in chains):
                            clash = True            # an item on the way is replaced
                    if not alias_only:
                        if isinstance(x, ast.Subscript) and isinstance(x.ctx, (ast.Store, ast.Del)):
                            t = ast.unparse(x.value)
                            if any(c == t or c.startswith(t) or t.startswith(c) for c in chains) or (isinstance(x.value, ast.Name) and x.value.id in read):
                                clash = True
                        if isinstance(x, ast.Call) and isinstance(x.func, ast.Attribute) and x.func.attr in MUTATORS and isinstance(x.func.value, ast.Name) and x.func.value.id in read:
                            clash = True
                        if isinstance(x, ast.Call) and chains:
                            # a call may change what an attribute or item read at definition time holds - when it can reach the
                            # object: the object is not a plain local, or it is the receiver or an argument of the call
                            roots = set()
                            for c in chains:
                                if c.rsplit('.', 1)[-1] in ('itemsize', 'names', 'ndim', 'dtype') and '[' not in c.rsplit('.', 1)[-1]:
                                    continue        # fixed for the life of a numpy dtype / array
                                r_ = c.split('.')[0].split('[')[0]
                                roots.add(r_)
                            localroots = set(r_ for r_ in roots if r_ in stores and r_ not in params and r_ != 'self')
                            reach = set(n_.id for part in [x.func] + list(x.args) + [k_.value for k_ in x.keywords] for n_ in ast.walk(part) if isinstance(n_, ast.Name))
                            if roots - localroots or (reach & roots):
                                clash = True
                    if isinstance(x, ast.AugAssign) and isinstance(x.target, ast.Name) and x.target.id in read:
                        clash = True
            # a region inside a loop that re-enters: the definition is re-executed too (same block), fine
            if clash:
                continue
            cand = (st, name, blk)
            break
        if cand is None:
            break
        if cand == 'restart':
            continue
        st, name, blk = cand
        sub = _Subst({name: st.value})
        for i, s2 in enumerate(blk):
            if s2 is st:
                continue
            blk[i] = sub.visit(s2)
        blk.remove(st)
        if not blk:
            blk.append(ast.Pass())
        done += 1
    return done


# ------------------------------------------------------------------------------------------------- N5: new accumulation loops
def loops_to_comprehensions(fn, pinfn):
    """`X = []` directly followed by `for T in IT: X.append(E)` (optionally under one `if C:` without else) is the list
    comprehension `X = [E for T in IT if C]`, provided the loop variables are not read afterwards and E, IT, C do not mention X.
    Only applied where the function has more for-loops and fewer list comprehensions than its pinned version (a comprehension was
    unrolled), so loops the pinned code itself is written with stay loops."""
    if pinfn is None or uses_textual_names(fn):
        return 0

    def count(f, kind):
        return sum(1 for n in ast.walk(f) if isinstance(n, kind))
    if not (count(fn, ast.For) > count(pinfn, ast.For) and count(fn, ast.ListComp) < count(pinfn, ast.ListComp)):
        return 0
    # loops the pinned function itself accumulates with stay loops
    pin_loops = set(ast.unparse(n.iter) for n in ast.walk(pinfn) if isinstance(n, ast.For) and len(n.body) == 1 and isinstance(n.body[0], ast.Expr)
                    and isinstance(n.body[0].value, ast.Call) and isinstance(n.body[0].value.func, ast.Attribute) and n.body[0].value.func.attr == 'append')
    done = 0

    def visit(body):
        nonlocal done
        i = 0
        while i + 1 < len(body):
            a, b = body[i], body[i + 1]
            ok = isinstance(a, ast.Assign) and len(a.targets) == 1 and isinstance(a.targets[0], ast.Name) and isinstance(a.value, ast.List) and not a.value.elts \
                and isinstance(b, ast.For) and not b.orelse and ast.unparse(b.iter) not in pin_loops
            if ok and len(b.body) != 1:
                # `if c: continue` guards in front of the append are conditions of the comprehension
                nb_ = _nest_continue_guards(copy.deepcopy(b.body))
                if nb_ is not None and len(nb_) == 1:
                    b.body = nb_
                else:
                    ok = False
            if ok:
                x = a.targets[0].id
                inner = b.body[0]
                cond = None
                conds = []
                while isinstance(inner, ast.If) and not inner.orelse and len(inner.body) == 1:
                    conds.append(inner.test)
                    inner = inner.body[0]
                if conds:
                    # nested ifs are a conjunction evaluated left to right, like the `if` clauses of a comprehension
                    cond = conds[0] if len(conds) == 1 else ast.BoolOp(op=ast.And(), values=conds)
                ok = isinstance(inner, ast.Expr) and isinstance(inner.value, ast.Call) and isinstance(inner.value.func, ast.Attribute) and inner.value.func.attr == 'append' \
                    and isinstance(inner.value.func.value, ast.Name) and inner.value.func.value.id == x and len(inner.value.args) == 1 and not inner.value.keywords
                if ok:
                    elt = inner.value.args[0]
                    mention = [n for part in [elt, b.iter] + ([cond] if cond is not None else []) for n in ast.walk(part) if isinstance(n, ast.Name) and n.id == x]
                    tnames = set(n.id for n in ast.walk(b.target) if isinstance(n, ast.Name))
                    rebound = set()
                    for s2 in body[i + 2:]:
                        for c_ in ast.walk(s2):
                            if isinstance(c_, (ast.ListComp, ast.SetComp, ast.DictComp, ast.GeneratorExp)):
                                tg = set(x_.id for g_ in c_.generators for x_ in ast.walk(g_.target) if isinstance(x_, ast.Name))
                                rebound |= set(id(x_) for x_ in ast.walk(c_) if isinstance(x_, ast.Name) and x_.id in tg)
                    later = [n for s2 in body[i + 2:] for n in ast.walk(s2) if isinstance(n, ast.Name) and n.id in tnames and isinstance(n.ctx, ast.Load) and id(n) not in rebound]
                    if not mention and not later and not _contains([elt], (ast.Yield, ast.YieldFrom, ast.Await)):
                        comp = ast.ListComp(elt=elt, generators=[ast.comprehension(target=b.target, iter=b.iter, ifs=[cond] if cond is not None else [], is_async=0)])
                        new = ast.copy_location(ast.Assign(targets=a.targets, value=ast.copy_location(comp, b), lineno=b.lineno), b)
                        body[i:i + 2] = [new]
                        done += 1
                        continue
            for fld in ('body', 'orelse', 'finalbody'):
                sub = getattr(a, fld, None)
                if isinstance(sub, list) and sub and isinstance(sub[0], ast.stmt) and not isinstance(a, SCOPES):
                    visit(sub)
            for h in getattr(a, 'handlers', []) or []:
                visit(h.body)
            i += 1
        if body:
            a = body[-1]
            for fld in ('body', 'orelse', 'finalbody'):
                sub = getattr(a, fld, None)
                if isinstance(sub, list) and sub and isinstance(sub[0], ast.stmt) and not isinstance(a, SCOPES):
                    visit(sub)
            for h in getattr(a, 'handlers', []) or []:
                visit(h.body)
    visit(fn.body)
    if done:
        ast.fix_missing_locations(fn)
    return done


# -------------------------------------------------------------------------------------------- N6: branch shapes of the pinned code
def _neg(e):
    if isinstance(e, ast.UnaryOp) and isinstance(e.op, ast.Not):
        return e.operand
    if isinstance(e, ast.Compare) and len(e.ops) == 1:
        inv = {ast.Eq: ast.NotEq, ast.NotEq: ast.Eq, ast.Is: ast.IsNot, ast.IsNot: ast.Is, ast.In: ast.NotIn, ast.NotIn: ast.In}
        if type(e.ops[0]) in inv:
            return ast.copy_location(ast.Compare(left=e.left, ops=[inv[type(e.ops[0])]()], comparators=e.comparators), e)
    if isinstance(e, ast.BoolOp):
        # De Morgan, so that `not a and not b` is recognised as the negation of `a or b`
        op = ast.Or() if isinstance(e.op, ast.And) else ast.And()
        return ast.copy_location(ast.BoolOp(op=op, values=[_neg(v) for v in e.values]), e)
    return ast.copy_location(ast.UnaryOp(op=ast.Not(), operand=e), e)


def _test_spellings(e):
    """spellings under which a test is looked up: itself and its De Morgan forms"""
    out = set([ast.unparse(e)])
    try:
        out.add(ast.unparse(_neg(_neg(e))))
    except Exception:
        pass
    return out


def branch_shapes(fn, pinfn):
    """Three rewrites, each an identity on behaviour, applied only where they restore a test the pinned function has:
      flip    if not T: B else: A                ->  if T: A else: B
      guard   if not T: continue  ; REST         ->  if T: REST               (REST = the remainder of the loop body)
              if not T: return    ; REST         ->  if T: REST               (function level, bare return, REST ends the function)
      split   if T1 and T2: A  (no else)         ->  if T1: if T2: A          (the pinned function nests exactly these two tests)
    -> number of rewrites"""
    if pinfn is None:
        return 0
    pin_tests = set()
    pin_nested = set()
    for n in ast.walk(pinfn):
        if isinstance(n, ast.If):
            pin_tests |= _test_spellings(n.test)
            if not n.orelse and len(n.body) == 1 and isinstance(n.body[0], ast.If) and not n.body[0].orelse:
                pin_nested.add((ast.unparse(n.test), ast.unparse(n.body[0].test)))
    pin_ifassign, pin_ifexp = set(), set()
    for n in ast.walk(pinfn):
        if isinstance(n, ast.If) and len(n.body) == 1 and len(n.orelse) == 1 and isinstance(n.body[0], ast.Assign) and isinstance(n.orelse[0], ast.Assign) \
                and len(n.body[0].targets) == 1 and ast.dump(n.body[0].targets[0]) == ast.dump(n.orelse[0].targets[0]):
            for t_ in _test_spellings(n.test) | _test_spellings(_neg(n.test)):
                pin_ifassign.add((t_, ast.unparse(n.body[0].targets[0])))
        if isinstance(n, ast.Assign) and isinstance(n.value, ast.IfExp) and len(n.targets) == 1:
            for t_ in _test_spellings(n.value.test) | _test_spellings(_neg(n.value.test)):
                pin_ifexp.add((t_, ast.unparse(n.targets[0])))
    done = 0

    def known(e):
        return bool(_test_spellings(e) & pin_tests)

    def visit(body, in_loop, at_function_end):
        # in_loop here means: falling off the end of this block ends the current iteration of the enclosing loop (the block is the
        # loop body, or a branch of an if that is the last statement of such a block) - only then is `continue` the same as
        # skipping the rest of the block
        nonlocal done
        i = 0
        while i < len(body):
            st = body[i]
            if isinstance(st, SCOPES):
                i += 1
                continue
            # a conditional expression the pinned function spells as if/else (and the reverse)
            if isinstance(st, ast.Assign) and isinstance(st.value, ast.IfExp) and len(st.targets) == 1 \
                    and (ast.unparse(st.value.test), ast.unparse(st.targets[0])) in pin_ifassign and (ast.unparse(st.value.test), ast.unparse(st.targets[0])) not in pin_ifexp:
                new_if = ast.copy_location(ast.If(test=st.value.test, body=[ast.copy_location(ast.Assign(targets=st.targets, value=st.value.body, lineno=st.lineno), st)],
                                                  orelse=[ast.copy_location(ast.Assign(targets=copy.deepcopy(st.targets), value=st.value.orelse, lineno=st.lineno), st)]), st)
                body[i] = st = new_if
                done += 1
            elif isinstance(st, ast.If) and len(st.body) == 1 and len(st.orelse) == 1 and isinstance(st.body[0], ast.Assign) and isinstance(st.orelse[0], ast.Assign) \
                    and len(st.body[0].targets) == 1 and ast.dump(st.body[0].targets[0]) == ast.dump(st.orelse[0].targets[0]) \
                    and (ast.unparse(st.test), ast.unparse(st.body[0].targets[0])) in pin_ifexp and (ast.unparse(st.test), ast.unparse(st.body[0].targets[0])) not in pin_ifassign:
                body[i] = st = ast.copy_location(ast.Assign(targets=st.body[0].targets, value=ast.copy_location(ast.IfExp(test=st.test, body=st.body[0].value, orelse=st.orelse[0].value), st), lineno=st.lineno), st)
                done += 1
            if isinstance(st, ast.If):
                is_elif_chain = len(st.orelse) == 1 and isinstance(st.orelse[0], ast.If)
                # flip
                if st.orelse and not is_elif_chain and not known(st.test) and known(_neg(st.test)) \
                        and not (len(st.body) == 1 and isinstance(st.body[0], ast.If)):
                    st.test, st.body, st.orelse = _neg(st.test), st.orelse, st.body
                    done += 1
                # guard
                elif not st.orelse and len(st.body) == 1 and not known(st.test) and known(_neg(st.test)) and body[i + 1:]:
                    rest = body[i + 1:]
                    g = st.body[0]
                    last_of_block = True
                    if (isinstance(g, ast.Continue) and in_loop) or \
                            (isinstance(g, ast.Return) and (g.value is None or (isinstance(g.value, ast.Constant) and g.value.value is None)) and at_function_end
                             and not _contains(rest, ast.Return)):
                        st.test, st.body = _neg(st.test), rest
                        del body[i + 1:]
                        done += 1
                # split
                elif not st.orelse and isinstance(st.test, ast.BoolOp) and isinstance(st.test.op, ast.And) and len(st.test.values) == 2 \
                        and (ast.unparse(st.test.values[0]), ast.unparse(st.test.values[1])) in pin_nested:
                    inner = ast.copy_location(ast.If(test=st.test.values[1], body=st.body, orelse=[]), st)
                    st.test, st.body = st.test.values[0], [inner]
                    done += 1
            for fld in ('body', 'orelse', 'finalbody'):
                sub = getattr(st, fld, None)
                if isinstance(sub, list) and sub and isinstance(sub[0], ast.stmt):
                    loop = isinstance(st, (ast.For, ast.While)) and fld == 'body'
                    last_if = i == len(body) - 1 and isinstance(st, ast.If)
                    visit(sub, loop or (in_loop and last_if), at_function_end and last_if)
            for h in getattr(st, 'handlers', []) or []:
                visit(h.body, in_loop, False)
            i += 1
    visit(fn.body, False, True)
    if done:
        ast.fix_missing_locations(fn)
    return done


# ------------------------------------------------------------------------------------------------ N7: new loops over literal tables
def _simple_elt(e):
    if isinstance(e, (ast.Name, ast.Constant)):
        return True
    if isinstance(e, ast.Attribute):
        return _simple_elt(e.value)
    if isinstance(e, ast.Subscript) and isinstance(e.slice, ast.Constant):
        return _simple_elt(e.value)
    return False


def _nest_continue_guards(body):
    """`if c: continue` as a top-level statement of a loop body skips the rest of that body: the same as `if not c: <rest>`.
    Returns the rewritten body when every `continue` of the body is such a guard (then none is left), else None."""
    out = []
    for i, st in enumerate(body):
        if isinstance(st, ast.If) and not st.orelse and len(st.body) == 1 and isinstance(st.body[0], ast.Continue):
            rest = _nest_continue_guards(body[i + 1:])
            if rest is None:
                return None
            if rest:
                neg = ast.UnaryOp(op=ast.Not(), operand=copy.deepcopy(st.test))
                if isinstance(st.test, ast.Compare) and len(st.test.ops) == 1 and isinstance(st.test.ops[0], (ast.In, ast.NotIn, ast.Is, ast.IsNot, ast.Eq, ast.NotEq)):
                    flip = {ast.In: ast.NotIn, ast.NotIn: ast.In, ast.Is: ast.IsNot, ast.IsNot: ast.Is, ast.Eq: ast.NotEq, ast.NotEq: ast.Eq}[type(st.test.ops[0])]
                    neg = ast.Compare(left=copy.deepcopy(st.test.left), ops=[flip()], comparators=[copy.deepcopy(st.test.comparators[0])])
                elif isinstance(st.test, ast.UnaryOp) and isinstance(st.test.op, ast.Not):
                    neg = copy.deepcopy(st.test.operand)
                new = ast.If(test=neg, body=rest, orelse=[])
                ast.copy_location(new, st)
                ast.fix_missing_locations(new)
                out.append(new)
            return out
        if _contains([st], (ast.Continue,)):
            return None
        out.append(st)
    return out


def fold_rmw_temps(fn, pinfn):
    """t = O.A ; t <op>= E ; O.A = t   (t a local used nowhere else)  is what  O.A <op>= E  does: read, in-place operator, store back."""
    if pinfn is None or uses_textual_names(fn):
        return 0
    pin_ids = all_ids(pinfn)
    done = 0
    uses = {}
    for n in ast.walk(fn):
        if isinstance(n, ast.Name):
            uses[n.id] = uses.get(n.id, 0) + 1

    def visit(body):
        nonlocal done
        i = 0
        while i + 2 < len(body) + 0:
            a, b, c = body[i], body[i + 1], body[i + 2]
            if isinstance(a, ast.Assign) and len(a.targets) == 1 and isinstance(a.targets[0], ast.Name) and isinstance(a.value, ast.Attribute) \
                    and isinstance(b, ast.AugAssign) and isinstance(b.target, ast.Name) and b.target.id == a.targets[0].id \
                    and isinstance(c, ast.Assign) and len(c.targets) == 1 and isinstance(c.targets[0], ast.Attribute) \
                    and ast.unparse(c.targets[0]) == ast.unparse(a.value) and isinstance(c.value, ast.Name) and c.value.id == a.targets[0].id \
                    and a.targets[0].id not in pin_ids and uses.get(a.targets[0].id) == 3 \
                    and not any(isinstance(n, ast.Name) and n.id == a.targets[0].id for n in ast.walk(b.value)):
                tgt = copy.deepcopy(a.value)
                tgt.ctx = ast.Store()
                new = ast.AugAssign(target=tgt, op=b.op, value=b.value)
                ast.copy_location(new, a)
                ast.fix_missing_locations(new)
                body[i:i + 3] = [new]
                done += 1
                continue
            i += 1
        for st in body:
            if isinstance(st, SCOPES):
                continue
            for fld in ('body', 'orelse', 'finalbody'):
                sub_ = getattr(st, fld, None)
                if isinstance(sub_, list) and sub_ and isinstance(sub_[0], ast.stmt):
                    visit(sub_)
            for h in getattr(st, 'handlers', []) or []:
                visit(h.body)
    visit(fn.body)
    return done


def flags_to_forelse(fn, pinfn):
    """F = False ; for ...: ... F = True ; break ...  ; if not F: ELSE     (F used nowhere else)
    is the loop with an else clause: the else suite runs exactly when the loop was not left by break.  Restored where the pinned
    function has a for/else and the current one has fewer."""
    if pinfn is None or uses_textual_names(fn):
        return 0

    def nforelse(f):
        return sum(1 for n in ast.walk(f) if isinstance(n, ast.For) and n.orelse)
    if not nforelse(pinfn) > nforelse(fn):
        return 0
    pin_ids = all_ids(pinfn)
    done = 0

    def visit(body):
        nonlocal done
        i = 0
        while i < len(body):
            st = body[i]
            if isinstance(st, ast.For) and not st.orelse and i + 1 < len(body):
                nxt = body[i + 1]
                flag = None
                if isinstance(nxt, ast.If) and not nxt.orelse and isinstance(nxt.test, ast.UnaryOp) and isinstance(nxt.test.op, ast.Not) and isinstance(nxt.test.operand, ast.Name):
                    flag, want = nxt.test.operand.id, True
                if flag is not None and flag not in pin_ids:
                    # initialisation: `flag = False` somewhere before the loop in this block, nothing else touching the flag in between
                    init = [j for j in range(i) if isinstance(body[j], ast.Assign) and len(body[j].targets) == 1 and isinstance(body[j].targets[0], ast.Name)
                            and body[j].targets[0].id == flag and isinstance(body[j].value, ast.Constant) and body[j].value.value is False]
                    allnames = [n for n in ast.walk(fn) if isinstance(n, ast.Name) and n.id == flag]
                    breaks = [n for n in ast.walk(st) if isinstance(n, ast.Break)]
                    sets = []
                    ok = bool(init) and bool(breaks)
                    # every break of this loop (not of a nested loop) is directly preceded by `flag = True`
                    def own_breaks(node, top=True):
                        out = []
                        for fld in ('body', 'orelse', 'finalbody'):
                            b = getattr(node, fld, None)
                            if not isinstance(b, list):
                                continue
                            for k, s2 in enumerate(b):
                                if isinstance(s2, ast.Break):
                                    prev = b[k - 1] if k > 0 else None
                                    out.append((b, k, prev))
                                elif isinstance(s2, (ast.For, ast.While)):
                                    continue
                                elif not isinstance(s2, SCOPES):
                                    out.extend(own_breaks(s2, False))
                        for h in getattr(node, 'handlers', []) or []:
                            out.extend(own_breaks(h, False))
                        return out
                    ob = own_breaks(st)
                    for b, k, prev in ob:
                        if not (isinstance(prev, ast.Assign) and len(prev.targets) == 1 and isinstance(prev.targets[0], ast.Name) and prev.targets[0].id == flag
                                and isinstance(prev.value, ast.Constant) and prev.value.value is True):
                            ok = False
                        else:
                            sets.append((b, prev))
                    # the flag is used for nothing else: init store, one store per break, the one test
                    if ok and len(allnames) == 1 + len(sets) + 1 and len(init) == 1:
                        for b, prev in sets:
                            b.remove(prev)
                        st.orelse = nxt.body
                        del body[i + 1]
                        del body[init[0]]
                        done += 1
                        i = max(0, i - 1)
                        continue
            for fld in ('body', 'orelse', 'finalbody'):
                sub_ = getattr(st, fld, None)
                if isinstance(sub_, list) and sub_ and isinstance(sub_[0], ast.stmt) and not isinstance(st, SCOPES):
                    visit(sub_)
            for h in getattr(st, 'handlers', []) or []:
                visit(h.body)
            i += 1
    visit(fn.body)
    if done:
        ast.fix_missing_locations(fn)
    return done


def unroll_literal_loops(fn, pinfn):
    """`for a, b in ((x1, y1), (x2, y2), ...): BODY` over a literal table of plain names / constants / attributes that the pinned
    function does not have is the sequence BODY[x1, y1]; BODY[x2, y2]; ... (the table may be a local bound once to the literal).
    Not done when the body rebinds a loop variable, leaves the loop (break / continue / return), or the variables are read later."""
    if pinfn is None or uses_textual_names(fn):
        return 0
    def canon_seq(e):
        """text of an iterable with tuple and list displays spelled alike"""
        c = copy.deepcopy(e)

        class L(ast.NodeTransformer):
            def visit_Tuple(self, n):
                self.generic_visit(n)
                return ast.List(elts=n.elts, ctx=ast.Load())
        return ast.unparse(ast.fix_missing_locations(L().visit(ast.Expression(body=c))).body)
    pin_iters = set(canon_seq(n.iter) for n in ast.walk(pinfn) if isinstance(n, ast.For))
    pin_ids = all_ids(pinfn)
    done = 0
    # locals bound exactly once to a literal table
    stores = {}
    for n in ast.walk(fn):
        if isinstance(n, ast.Name) and isinstance(n.ctx, (ast.Store, ast.Del)):
            stores[n.id] = stores.get(n.id, 0) + 1
    tables = {}
    for st in ast.walk(fn):
        if isinstance(st, ast.Assign) and len(st.targets) == 1 and isinstance(st.targets[0], ast.Name) and isinstance(st.value, (ast.Tuple, ast.List)) \
                and stores.get(st.targets[0].id) == 1 and st.targets[0].id not in pin_ids:
            tables[st.targets[0].id] = st

    def visit(body):
        nonlocal done
        i = 0
        while i < len(body):
            st = body[i]
            if isinstance(st, SCOPES):
                i += 1
                continue
            if isinstance(st, ast.For) and not st.orelse:
                it = st.iter
                tname = None
                itv = tables[it.id].value if isinstance(it, ast.Name) and it.id in tables else it
                if isinstance(itv, (ast.Tuple, ast.List)) and 2 <= len(itv.elts) <= 16 and canon_seq(itv) not in pin_iters:
                    nested = _nest_continue_guards(st.body)
                    if nested is not None:
                        st.body = nested
                if isinstance(it, ast.Name) and it.id in tables:
                    tname = it.id
                    it = tables[it.id].value
                tg = st.target
                names = [tg.id] if isinstance(tg, ast.Name) else ([e.id for e in tg.elts] if isinstance(tg, (ast.Tuple, ast.List)) and all(isinstance(e, ast.Name) for e in tg.elts) else None)
                ok = isinstance(it, (ast.Tuple, ast.List)) and 2 <= len(it.elts) <= 16 and names is not None and canon_seq(it) not in pin_iters \
                    and not _contains(st.body, (ast.Break, ast.Continue, ast.Return, ast.Yield, ast.YieldFrom))
                rows = []
                if ok:
                    for e in it.elts:
                        if isinstance(tg, ast.Name):
                            ok = ok and _simple_elt(e)
                            rows.append([e])
                        else:
                            ok = ok and isinstance(e, (ast.Tuple, ast.List)) and len(e.elts) == len(names) and all(_simple_elt(x) for x in e.elts)
                            rows.append(list(e.elts) if ok else [])
                if ok:
                    rebound = any(isinstance(n, ast.Name) and n.id in names and isinstance(n.ctx, (ast.Store, ast.Del)) for s2 in st.body for n in ast.walk(s2))
                    later = any(isinstance(n, ast.Name) and n.id in names for s2 in body[i + 1:] for n in ast.walk(s2))
                    # names used by the table elements must not be rebound in the body (each row is evaluated when the loop starts)
                    used = set(n.id for r in rows for e in r for n in ast.walk(e) if isinstance(n, ast.Name))
                    clobber = any(isinstance(n, ast.Name) and n.id in used and isinstance(n.ctx, (ast.Store, ast.Del)) for s2 in st.body for n in ast.walk(s2))
                    if tname is not None:
                        # a named table holds the values its elements had when it was built: nothing it mentions may be rebound later
                        tline = tables[tname].lineno
                        for n in ast.walk(fn):
                            if isinstance(n, ast.Name) and n.id in used and isinstance(n.ctx, (ast.Store, ast.Del)) and getattr(n, 'lineno', 0) >= tline:
                                clobber = True
                    if not rebound and not later and not clobber:
                        out = []
                        for r in rows:
                            sub = _Subst(dict(zip(names, r)))
                            for s2 in st.body:
                                out.append(sub.visit(copy.deepcopy(s2)))
                        body[i:i + 1] = out
                        done += 1
                        if tname is not None:
                            # the table is no longer read: drop its definition when nothing else mentions it
                            if not any(isinstance(n, ast.Name) and n.id == tname and isinstance(n.ctx, ast.Load) for n in ast.walk(fn)):
                                for blk_owner in ast.walk(fn):
                                    for fld in ('body', 'orelse', 'finalbody'):
                                        b = getattr(blk_owner, fld, None)
                                        if isinstance(b, list) and tables[tname] in b:
                                            b.remove(tables[tname])
                                            if not b:
                                                b.append(ast.Pass())
                        continue
            for fld in ('body', 'orelse', 'finalbody'):
                sub_ = getattr(st, fld, None)
                if isinstance(sub_, list) and sub_ and isinstance(sub_[0], ast.stmt):
                    visit(sub_)
            for h in getattr(st, 'handlers', []) or []:
                visit(h.body)
            i += 1
    visit(fn.body)
    if done:
        ast.fix_missing_locations(fn)
    return done


# ------------------------------------------------------------------------------------------------- N8: formatting idiom of a template
import re as _re
_FIELD = _re.compile(r'\{(\d*)(![sr])?(:([^{}]*))?\}')


def _spec_to_percent(conv, spec):
    spec = spec or ''
    if conv == '!r':
        return '%r' if spec == '' else None
    if spec == '':
        return '%s'
    m = _re.match(r'^(0?\d*)(\.\d+)?([dfeEgsx])$', spec)
    if not m:
        return None
    return '%' + m.group(1) + (m.group(2) or '') + m.group(3)


def percent_form(node):
    """`'a{:d}b'.format(x)` / f'a{x:d}b' as the %-formatting expression `'a%db' % (x,)`, or None when the fields are not plain
    positional ones with a spec that % spells the same way"""
    if isinstance(node, ast.Call) and isinstance(node.func, ast.Attribute) and node.func.attr == 'format' and isinstance(node.func.value, ast.Constant) \
            and isinstance(node.func.value.value, str) and not node.keywords and not any(isinstance(a, ast.Starred) for a in node.args):
        text = node.func.value.value
        out, args, pos, auto = '', [], 0, 0
        for m in _FIELD.finditer(text):
            lit = text[pos:m.start()]
            if '{' in lit.replace('{{', '') or '}' in lit.replace('}}', ''):
                return None
            out += lit.replace('{{', '{').replace('}}', '}').replace('%', '%%')
            idx = int(m.group(1)) if m.group(1) else auto
            auto += 1
            if idx >= len(node.args):
                return None
            pc = _spec_to_percent(m.group(2), m.group(4))
            if pc is None:
                return None
            out += pc
            args.append(node.args[idx])
            pos = m.end()
        lit = text[pos:]
        if '{' in lit.replace('{{', '') or '}' in lit.replace('}}', ''):
            return None
        out += lit.replace('{{', '{').replace('}}', '}').replace('%', '%%')
        if not args:
            return None
    elif isinstance(node, ast.JoinedStr):
        out, args = '', []
        for v in node.values:
            if isinstance(v, ast.Constant) and isinstance(v.value, str):
                out += v.value.replace('%', '%%')
            elif isinstance(v, ast.FormattedValue):
                conv = {-1: None, 115: '!s', 114: '!r', 97: None}.get(v.conversion, None)
                if v.conversion == 97:
                    return None
                spec = ''
                if v.format_spec is not None:
                    if not (isinstance(v.format_spec, ast.JoinedStr) and all(isinstance(x, ast.Constant) for x in v.format_spec.values)):
                        return None
                    spec = ''.join(x.value for x in v.format_spec.values)
                pc = _spec_to_percent(conv, spec)
                if pc is None:
                    return None
                out += pc
                args.append(v.value)
            else:
                return None
        if not args:
            return None
    else:
        return None
    def scalar(e):
        """cannot be a tuple: `'%s' % e` formats e itself"""
        return isinstance(e, ast.Constant) or (isinstance(e, ast.Call) and ast.unparse(e.func) in ('len', 'int', 'str', 'float', 'repr')) or \
            (isinstance(e, ast.BinOp) and not isinstance(e.op, ast.Add)) or isinstance(e, (ast.JoinedStr,))
    # `'%s' % x` would unpack a tuple-valued x: a single argument stays bare only when it cannot be a tuple
    right = args[0] if len(args) == 1 and scalar(args[0]) else ast.Tuple(elts=args, ctx=ast.Load())
    return ast.copy_location(ast.BinOp(left=ast.copy_location(ast.Constant(value=out), node), op=ast.Mod(), right=right), node)


def formatting_idiom(fn, pinfn):
    """str.format / f-string spellings of a template that the pinned function formats with % (same template text) are shown as the %
    expression: the rules read templates (field widths, dtype strings) in that one spelling"""
    if pinfn is None:
        return 0
    pin_templates = set(n.left.value for n in ast.walk(pinfn) if isinstance(n, ast.BinOp) and isinstance(n.op, ast.Mod) and isinstance(n.left, ast.Constant)
                        and isinstance(n.left.value, str))
    done = 0

    class T(ast.NodeTransformer):
        def visit_Call(self, n):
            nonlocal done
            self.generic_visit(n)
            pf = percent_form(n)
            if pf is not None and pf.left.value in pin_templates:
                done += 1
                return pf
            return n

        def visit_JoinedStr(self, n):
            nonlocal done
            self.generic_visit(n)
            pf = percent_form(n)
            if pf is not None and pf.left.value in pin_templates:
                done += 1
                return pf
            return n
    T().visit(fn)
    if done:
        ast.fix_missing_locations(fn)
    return done


# ------------------------------------------------------------------------------------------- N9: setattr / attribute assignment
def attribute_spelling(fn, pinfn):
    """`setattr(X, 'name', V)` and `X.name = V` are the same operation (for a plain identifier that is not a private `__name`); the
    spelling the pinned function uses for that attribute is restored"""
    if pinfn is None:
        return 0
    pin_set = set()
    pin_attr = set()
    for n in ast.walk(pinfn):
        if isinstance(n, ast.Call) and isinstance(n.func, ast.Name) and n.func.id == 'setattr' and len(n.args) == 3 and isinstance(n.args[1], ast.Constant):
            pin_set.add(n.args[1].value)
        if isinstance(n, ast.Attribute) and isinstance(n.ctx, ast.Store):
            pin_attr.add(n.attr)
    done = 0
    for blk_owner in ast.walk(fn):
        for fld in ('body', 'orelse', 'finalbody'):
            b = getattr(blk_owner, fld, None)
            if not (isinstance(b, list) and b and isinstance(b[0], ast.stmt)):
                continue
            for i, st in enumerate(b):
                if isinstance(st, ast.Expr) and isinstance(st.value, ast.Call) and isinstance(st.value.func, ast.Name) and st.value.func.id == 'setattr' \
                        and len(st.value.args) == 3 and not st.value.keywords and isinstance(st.value.args[1], ast.Constant) and isinstance(st.value.args[1].value, str):
                    name = st.value.args[1].value
                    if name.isidentifier() and not name.startswith('__') and name in pin_attr and name not in pin_set:
                        b[i] = ast.copy_location(ast.Assign(targets=[ast.copy_location(ast.Attribute(value=st.value.args[0], attr=name, ctx=ast.Store()), st)],
                                                            value=st.value.args[2], lineno=st.lineno), st)
                        done += 1
                elif isinstance(st, ast.Assign) and len(st.targets) == 1 and isinstance(st.targets[0], ast.Attribute) and st.targets[0].attr in pin_set \
                        and st.targets[0].attr not in pin_attr and not st.targets[0].attr.startswith('__'):
                    t = st.targets[0]
                    b[i] = ast.copy_location(ast.Expr(value=ast.copy_location(ast.Call(func=ast.Name(id='setattr', ctx=ast.Load()), args=[t.value, ast.Constant(value=t.attr), st.value], keywords=[]), st)), st)
                    done += 1
    # getattr(X, 'name') with two arguments is the attribute access X.name (a missing attribute raises AttributeError either way);
    # restored where the pinned function reads that attribute directly and never through getattr
    pin_load = set(n.attr for n in ast.walk(pinfn) if isinstance(n, ast.Attribute))
    pin_get = set(n.args[1].value for n in ast.walk(pinfn) if isinstance(n, ast.Call) and isinstance(n.func, ast.Name) and n.func.id == 'getattr'
                  and len(n.args) >= 2 and isinstance(n.args[1], ast.Constant))

    class G(ast.NodeTransformer):
        def visit_Call(self, n):
            nonlocal done
            self.generic_visit(n)
            if isinstance(n.func, ast.Name) and n.func.id == 'getattr' and len(n.args) == 2 and not n.keywords and isinstance(n.args[1], ast.Constant) \
                    and isinstance(n.args[1].value, str) and n.args[1].value.isidentifier() and not n.args[1].value.startswith('__') \
                    and n.args[1].value in pin_load and n.args[1].value not in pin_get:
                done += 1
                return ast.copy_location(ast.Attribute(value=n.args[0], attr=n.args[1].value, ctx=ast.Load()), n)
            return n
    for i, st in enumerate(fn.body):
        fn.body[i] = G().visit(st)
    if done:
        ast.fix_missing_locations(fn)
    return done


# ----------------------------------------------------------------------------------------------------------------------- driver
def normalize(relpath, text, tree):
    """rewrite `tree` (parsed from `text`) in place; -> statistics dict (empty when nothing was done)"""
    ptext = pinned_text(relpath)
    if ptext is None or ptext == text:
        return {}
    pin = pinned_tree(relpath)
    if pin is None:
        return {}
    stats = {}
    consts = new_constants(tree, pin)
    n = apply_constants(tree, consts)
    if n:
        stats['constants'] = n
    inl = Inliner(tree, pin)
    n = inl.run()
    if n:
        stats['inlined'] = n
    if inl.failed:
        stats['not_inlined'] = sorted(set('%s (%s)' % f for f in inl.failed))
    pfun = index_functions(pin)
    cfun = index_functions(tree)
    nl = nr = nt = nc = nb = nu = nf = na = 0
    for q, (fn, body, cls) in cfun.items():
        p = pfun.get(q)
        if p is None:
            continue
        if ast.dump(fn) == ast.dump(p[0]):
            continue
        # renaming first: a local that merely changed its name is not a new temporary
        nr += len(rename_toward(fn, p[0]))
        nl += inline_local_lambdas(fn, p[0])
        nf += formatting_idiom(fn, p[0])
        nu += unroll_literal_loops(fn, p[0])
        na += attribute_spelling(fn, p[0])
        na += fold_rmw_temps(fn, p[0])
        nb += flags_to_forelse(fn, p[0])
        nb += branch_shapes(fn, p[0])
        for _round in range(3):
            c_ = loops_to_comprehensions(fn, p[0])
            t_ = propagate_new_temporaries(fn, p[0])
            nc += c_
            nt += t_
            if not (c_ or t_):
                break
        nr += len(rename_toward(fn, p[0]))
    if nl:
        stats['local_helpers'] = nl
    if nf:
        stats['formats'] = nf
    if nu:
        stats['unrolled'] = nu
    if na:
        stats['attributes'] = na
    if nb:
        stats['branches'] = nb
    if nc:
        stats['comprehensions'] = nc
    if nt:
        stats['temporaries'] = nt
    if nr:
        stats['renamed'] = nr
    if stats:
        ast.fix_missing_locations(tree)
    return stats
