"""R-TFLAGCOL: a two-type 'units of measure' discipline for IOAPI time flags.

DATE = YYYYJJJ (radices 1000, 100000), TIME = HHMMSS (radices 10000, 100).  A value
selected from a TFLAG-like variable with last-axis index 0 is DATE, with index 1 TIME;
file attributes are typed by a frozen table.  A DATE value meeting a TIME radix (or any
other constant in // % / *), a value stored into / compared with / formatted as the other
slot, is a violation.  Values are tracked along the statement order of one function with
the path walker; a mistyped value assigned to a local is reported when that local is used.
"""
import ast

from .engine import norm, dotted, walk_expr, const_str
from .flow import Walker

ATTR_TYPES = {'SDATE': 'DATE', 'EDATE': 'DATE', 'CDATE': 'DATE', 'WDATE': 'DATE',
              'STIME': 'TIME', 'ETIME': 'TIME', 'TSTEP': 'TIME', 'CTIME': 'TIME', 'WTIME': 'TIME'}
RADIX = {'DATE': (1000, 100000), 'TIME': (10000, 100)}
FLAGVARS = ('TFLAG', 'ETFLAG')
PASS_CALLS = ('int', 'abs', 'float', 'np.asarray', 'np.array', 'np.atleast_1d', 'numpy.asarray', 'array', 'asarray')
PASS_METHODS = ('astype', 'copy', 'ravel', 'squeeze', 'view')


class Radix(object):
    def __init__(self, mod, fn):
        self.mod = mod
        self.fn = fn
        self.violations = []   # (stmt, message)
        self.instances = []    # (stmt, description) typed sites examined
        self.dead = []         # mistyped values that never reach a use
        self.flag_params = set()
        a = fn.args
        pos = a.posonlyargs + a.args
        for arg, d in zip(pos[len(pos) - len(a.defaults):], a.defaults):
            if const_str(d) in FLAGVARS:
                self.flag_params.add(arg.arg)
        self._reported = set()

    # value: None | 'DATE' | 'TIME' | ('ARR', axes tuple) | ('BAD', stmt, msg)
    def apply_index(self, axes, idx):
        elts = list(idx.elts) if isinstance(idx, ast.Tuple) else [idx]
        out = []
        picked = None
        i = 0
        for e in elts:
            if isinstance(e, ast.Constant) and e.value is Ellipsis:
                rest = len(elts) - elts.index(e) - 1
                while len(axes) - i > rest:
                    out.append(axes[i])
                    i += 1
                continue
            if i >= len(axes):
                return None
            ax = axes[i]
            i += 1
            if isinstance(e, ast.Slice):
                out.append(ax)
            elif isinstance(e, ast.Constant) and e.value is None:
                i -= 1
                out.append('N')
            else:
                if ax == 'D':
                    v = None
                    if isinstance(e, ast.Constant) and isinstance(e.value, int):
                        v = e.value
                    elif isinstance(e, ast.UnaryOp) and isinstance(e.op, ast.USub) and isinstance(e.operand, ast.Constant):
                        v = -e.operand.value
                    if v in (0, -2):
                        picked = 'DATE'
                    elif v in (1, -1):
                        picked = 'TIME'
                    else:
                        return None
        out.extend(axes[i:])
        if picked and 'D' not in out:
            return picked
        if 'D' in out:
            return ('ARR', tuple(out))
        return None

    def ty(self, e, st):
        if e is None:
            return None
        if isinstance(e, ast.Name):
            return st.get(e.id)
        if isinstance(e, ast.Attribute):
            if e.attr in ATTR_TYPES and isinstance(e.value, ast.Name):
                return ATTR_TYPES[e.attr]
            if e.attr == 'T':
                b = self.ty(e.value, st)
                if isinstance(b, tuple) and b[0] == 'ARR':
                    return ('ARR', tuple(reversed(b[1])))
            return None
        if isinstance(e, ast.Subscript):
            base = e.value
            # X.variables['TFLAG']  /  X.variables[tflag]
            if isinstance(base, ast.Attribute) and base.attr == 'variables':
                k = e.slice
                if const_str(k) in FLAGVARS or (isinstance(k, ast.Name) and k.id in self.flag_params):
                    return ('ARR', ('T', 'V', 'D'))
                return None
            b = self.ty(base, st)
            if isinstance(b, tuple) and b[0] == 'ARR':
                return self.apply_index(b[1], e.slice)
            if b in ('DATE', 'TIME'):
                return b     # element / sub-selection of a typed vector
            return None
        if isinstance(e, ast.Call):
            d = dotted(e.func) or ''
            if d == 'getattr' and len(e.args) >= 2 and const_str(e.args[1]) in ATTR_TYPES:
                return ATTR_TYPES[const_str(e.args[1])]
            if d in PASS_CALLS and e.args:
                return self.ty(e.args[0], st)
            if isinstance(e.func, ast.Attribute) and e.func.attr in PASS_METHODS:
                return self.ty(e.func.value, st)
            if isinstance(e.func, ast.Attribute) and e.func.attr == 'strftime' and e.args:
                f = const_str(e.args[0])
                if f == '%Y%j':
                    return 'DATE'
                if f == '%H%M%S':
                    return 'TIME'
            if isinstance(e.func, ast.Attribute) and e.func.attr == 'repeat':
                return self.ty(e.func.value, st)
            return None
        if isinstance(e, ast.ListComp):
            return self.ty(e.elt, st)
        if isinstance(e, ast.BinOp):
            return self.binop(e, st)
        if isinstance(e, ast.IfExp):
            a, b = self.ty(e.body, st), self.ty(e.orelse, st)
            return a if a == b else None
        return None

    @staticmethod
    def num(e):
        if isinstance(e, ast.Constant) and isinstance(e.value, (int, float)) and not isinstance(e.value, bool):
            return e.value
        return None

    def binop(self, e, st):
        l, r = self.ty(e.left, st), self.ty(e.right, st)
        for side, other in ((l, e.right), (r, e.left)):
            if isinstance(side, tuple) and side[0] == 'BAD':
                return side
        if isinstance(e.op, (ast.FloorDiv, ast.Mod, ast.Div, ast.Mult)):
            if l in ('DATE', 'TIME'):
                c = self.num(e.right)
                if c is not None:
                    self.instances.append((self._cur, '%s %s %s' % (l, type(e.op).__name__, c)))
                    if c not in RADIX[l]:
                        return ('BAD', self._cur, '%s value (%s) is combined with %s; a %s may only meet the radices %s'
                                % (l, norm(e.left)[:40], c, {'DATE': 'YYYYJJJ date', 'TIME': 'HHMMSS time'}[l], RADIX[l]))
                    if l == 'TIME' and isinstance(e.op, ast.Mod) and c == 10000:
                        return 'TIME'   # MMSS: still to be split by 100
                    return None
                return None
            if r in ('DATE', 'TIME') and self.num(e.left) is not None and isinstance(e.op, ast.Mult):
                c = self.num(e.left)
                if c not in RADIX[r]:
                    return ('BAD', self._cur, '%s value is multiplied by %s' % (r, c))
            return None
        if isinstance(e.op, (ast.Add, ast.Sub)):
            # DATE + 2000000 (century), TIME + constant: keep the type of the typed side
            if l in ('DATE', 'TIME') and r is None:
                return l
            if r in ('DATE', 'TIME') and l is None:
                return r
        return None

    def report(self, stmt, msg):
        key = (id(stmt), msg.split(' (the value reaches a use')[0])
        if key not in self._reported:
            self._reported.add(key)
            self.violations.append((stmt, msg))

    def scan_uses(self, node, st):
        """loads of a BAD-typed name, BAD sub-expressions in non-assignment position, slot mismatches"""
        for n in walk_expr(node):
            if isinstance(n, ast.Name) and isinstance(n.ctx, ast.Load):
                v = st.get(n.id)
                if isinstance(v, tuple) and v[0] == 'BAD':
                    self.report(v[1], v[2] + ' (the value reaches a use: %s)' % norm(self._cur)[:60])
            if isinstance(n, ast.Compare) and len(n.ops) == 1 and isinstance(n.ops[0], (ast.Eq, ast.NotEq)):
                a, b = self.ty(n.left, st), self.ty(n.comparators[0], st)
                if a in ('DATE', 'TIME') and b in ('DATE', 'TIME'):
                    self.instances.append((self._cur, 'compare %s with %s' % (a, b)))
                    if a != b:
                        self.report(self._cur, 'a %s value is compared with a %s value' % (a, b))
            if isinstance(n, ast.BinOp) and isinstance(n.op, ast.Mod) and const_str(n.left) and isinstance(n.right, ast.Tuple):
                f = const_str(n.left)
                import re
                specs = re.findall(r'%0?(\d)d', f)
                if len(specs) >= 2 and specs[0] == '7' and specs[1] == '6' and len(n.right.elts) >= 2:
                    a, b = self.ty(n.right.elts[0], st), self.ty(n.right.elts[1], st)
                    self.instances.append((self._cur, 'format %%7d %%6d with (%s, %s)' % (a, b)))
                    if a == 'TIME' or b == 'DATE':
                        self.report(self._cur, "'%s' formats (date, time) but receives (%s, %s)" % (f, a, b))

    def transfer(self, s, st):
        self._cur = s if hasattr(s, 'lineno') else getattr(self, '_cur', s)
        if isinstance(s, ast.Assign):
            self.scan_uses(s.value, st)
            v = self.ty(s.value, st)
            for t in s.targets:
                st = self.assign(t, v, s.value, st, s)
            return st
        if isinstance(s, ast.AugAssign):
            self.scan_uses(s.value, st)
            return st
        if isinstance(s, (ast.Expr, ast.Return)):
            if s.value is not None:
                self.scan_uses(s.value, st)
                v = self.ty(s.value, st)
                if isinstance(v, tuple) and v[0] == 'BAD':
                    self.report(v[1], v[2])
                # BAD nested inside calls in expression statements
                for n in walk_expr(s.value):
                    if isinstance(n, ast.BinOp):
                        b = self.binop(n, st)
                        if isinstance(b, tuple) and b[0] == 'BAD':
                            self.report(b[1], b[2])
            return st
        return st

    def nested_bad(self, e, st):
        for n in walk_expr(e):
            if isinstance(n, ast.BinOp):
                b = self.binop(n, st)
                if isinstance(b, tuple) and b[0] == 'BAD':
                    return b
        return None

    def assign(self, t, v, valnode, st, stmt):
        bad = v if (isinstance(v, tuple) and v[0] == 'BAD') else self.nested_bad(valnode, st) if valnode is not None else None
        if isinstance(t, ast.Name):
            st = dict(st)
            st[t.id] = bad if bad is not None else v
            return st
        if isinstance(t, (ast.Tuple, ast.List)):
            if isinstance(v, tuple) and v[0] == 'ARR' and v[1] and v[1][0] == 'D' and len(t.elts) == 2:
                rest = v[1][1:]
                st = self.assign(t.elts[0], 'DATE', None, st, stmt)
                return self.assign(t.elts[1], 'TIME', None, st, stmt)
            if isinstance(valnode, (ast.Tuple, ast.List)) and len(valnode.elts) == len(t.elts):
                for a, b in zip(t.elts, valnode.elts):
                    st = self.assign(a, self.ty(b, st), b, st, stmt)
                return st
            for a in t.elts:
                st = self.assign(a, None, None, st, stmt)
            return st
        if isinstance(t, ast.Attribute):
            want = ATTR_TYPES.get(t.attr)
            if bad is not None:
                self.report(bad[1], bad[2])
            elif want and v in ('DATE', 'TIME'):
                self.instances.append((stmt, 'store %s into attribute %s' % (v, t.attr)))
                if v != want:
                    self.report(stmt, 'a %s value is stored into the %s attribute %s' % (v, want, t.attr))
            return st
        if isinstance(t, ast.Subscript):
            if bad is not None:
                self.report(bad[1], bad[2])
                return st
            b = self.ty(t.value, st)
            slot = None
            if isinstance(b, tuple) and b[0] == 'ARR':
                slot = self.apply_index(b[1], t.slice)
            elif isinstance(t.value, ast.Name) and st.get('@flagvar:' + t.value.id):
                slot = self.apply_index(('T', 'V', 'D'), t.slice)
            if slot in ('DATE', 'TIME') and v in ('DATE', 'TIME'):
                self.instances.append((stmt, 'store %s into the %s column' % (v, slot)))
                if slot != v:
                    self.report(stmt, 'a %s value is stored into the %s column of the time-flag variable' % (v, slot))
            return st
        return st

    def bind(self, target, it, st, node):
        if not isinstance(it, ast.expr):
            return self.assign(target, None, None, st, node)
        call = it if isinstance(it, ast.Call) else None
        fname = dotted(call.func) if call is not None else None
        if fname == 'enumerate' and call.args and isinstance(target, ast.Tuple) and len(target.elts) == 2:
            st = self.assign(target.elts[0], None, None, st, node)
            return self.bind(target.elts[1], call.args[0], st, node)
        if fname == 'zip' and isinstance(target, ast.Tuple) and len(target.elts) == len(call.args):
            for t, a in zip(target.elts, call.args):
                st = self.bind(t, a, st, node)
            return st
        v = self.ty(it, st)
        if isinstance(v, tuple) and v[0] == 'ARR':
            rest = v[1][1:]
            if rest == ('D',) and isinstance(target, (ast.Tuple, ast.List)) and len(target.elts) == 2:
                st = self.assign(target.elts[0], 'DATE', None, st, node)
                return self.assign(target.elts[1], 'TIME', None, st, node)
            if 'D' in rest:
                return self.assign(target, ('ARR', rest), None, st, node)
            return self.assign(target, None, None, st, node)
        if v in ('DATE', 'TIME'):
            return self.assign(target, v, None, st, node)
        return self.assign(target, None, None, st, node)

    def run(self):
        def vjoin(a, b):
            if a == b:
                return a
            for x in (a, b):
                if isinstance(x, tuple) and x[0] == 'BAD':
                    return x
            return None
        # createVariable('TFLAG', ...) results are flag arrays too
        init = {}
        w = Walker(self.transfer_pre, vjoin, bind=self.bind)
        w.run(self.fn.body, init)
        return self

    def transfer_pre(self, s, st):
        # name = X.createVariable('TFLAG', ...)  -> flag array
        if isinstance(s, ast.Assign) and isinstance(s.value, ast.Call) and isinstance(s.value.func, ast.Attribute) \
                and s.value.func.attr == 'createVariable' and s.value.args and const_str(s.value.args[0]) in FLAGVARS:
            st = dict(st)
            for t in s.targets:
                if isinstance(t, ast.Name):
                    st[t.id] = ('ARR', ('T', 'V', 'D'))
            return st
        return self.transfer(s, st)
