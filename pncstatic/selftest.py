"""Rule-sensitivity self-test (thorough tier, DESIGN section 8).

Each entry is an edit of the *current* tree applied in memory (overlay; nothing touches the disk):
  ('fire', rule)   a breaking edit: the named rule must report a violation that was not there before;
  ('silent', None) a behaviour-preserving edit: no new violation may appear.
An entry whose 'old' text is not found is skipped and counted (the code moved on; not an error).
A wrong outcome is an ANALYSIS-ERROR of the checker (exit 2), never a verdict about the repository.
"""
import importlib
import multiprocessing
import os
import warnings

from . import engine, report

F, S = 'fire', 'silent'
CATALOGUE = {
 'C01': [
  (F, 'R-UNLIM', 'core/_functions.py', "            if unlim:\n                tempd.setunlimited(True)\n", "            pass\n"),
  (F, 'R-UNLIM', 'core/_functions.py', ")).setunlimited(\n            tmpf.dimensions[stackdim].isunlimited())", "))"),
  (F, 'R-UNLIM', 'core/_files.py', "            ndv = self.createDimension(key, dimlen)\n            ndv.setunlimited(unlimited)", "            ndv = self.createDimension(key, dimlen)"),
  (F, 'R-NCATTR', 'core/_files.py', "                self._ncattrs += (k, )\n        object.__setattr__(self, k, v)", "                self._ncattrs += (k, )\n                return\n        object.__setattr__(self, k, v)"),
  (F, 'R-AXISPERM', 'core/_files.py', "np.rollaxis(newvals, axis=axisidx, start=newdi)", "np.swapaxes(newvals, axisidx, newdi)"),
  (F, 'R-AXISPERM', 'core/_files.py', "var[...] = np.expand_dims(vv[...], axis=bi)", "var[...] = np.expand_dims(vv[...], axis=0)"),
  (S, None, 'core/_functions.py', "            if unlim:\n                tempd.setunlimited(True)\n", "            tempd.setunlimited(unlim)\n"),
  (S, None, 'core/_files.py', "np.rollaxis(newvals, axis=axisidx, start=newdi)", "np.moveaxis(newvals, axisidx, newdi)"),
 ],
 'C02': [
  (F, 'R-ADVIDX', 'core/_files.py', "                sliceo = tuple(slice(si, si + 1 or None)\n                               if np.isscalar(si) else si for si in sliceo)\n", ""),
  (F, 'R-ADVIDX', 'core/_files.py', "                            sliceoi.append(si.ravel()[ii])", "                            sliceoi.append(si)"),
  (F, 'R-MASKKEEP', 'core/_files.py', "newvaro[...] = newvals.reshape(newvaro.shape)", "newvaro[...] = np.asarray(newvals).reshape(newvaro.shape)"),
  (F, 'R-ATTRCARRY', 'core/_files.py', "            for pk in varo.ncattrs():\n                setattr(newvaro, pk, getattr(varo, pk))\n            if anyisarray and needsfancy:\n                point_arrays", "            if anyisarray and needsfancy:\n                point_arrays"),
  (S, None, 'core/_files.py', "slice(si, si + 1 or None)", "slice(si, (si + 1) or None)"),
 ],
 'C04': [
  (F, 'R-STDIMPORT', 'geoschemfiles/_gcnc.py', "from collections.abc import Iterable", "from collections import Iterable"),
  (F, 'R-ORDER', 'core/_files.py', "            fs = [self] + list(other)", "            fs = [self] + sorted(other)"),
  (F, 'R-ORDER', 'core/_files.py', "            fs = [self] + list(other)", "            fs = list(other) + [self]"),
  (F, 'R-MACONCAT', 'core/_files.py', "outvals = np.ma.concatenate(", "outvals = np.concatenate("),
  (F, 'R-FORELSE', 'core/_files.py', "                if dv.isunlimited():\n                    stackdim = dk\n                    break", "                if dv.isunlimited():\n                    stackdim = dk"),
  (F, 'R-DELEGATE', 'core/_files.py', "        return file1.stack(files[1:], stackdim=stackdim)", "        return file1.stack(files[2:], stackdim=stackdim)"),
  (F, 'R-ORDER', '_getreader.py', "    files = [pncopen(path, *args[1:], **kwds) for path in paths]", "    files = [pncopen(path, *args[1:], **kwds) for path in sorted(paths)]"),
  (S, None, 'core/_files.py', "            fs = [self] + list(other)", "            fs = [self] + [o for o in other]"),
 ],
 'C05': [
  (F, 'R-QMUT', 'core/_files.py', "                    start = start - dval[0]", "                    start -= dval[0]"),
  (F, 'R-QMUT', 'core/_files.py', "                dates = np.where(dates == -635, 1970001, dates)", "                dates[dates == -635] = 1970001"),
  (F, 'R-CLOSE', 'core/_files.py', "        if not self.isopen():\n            return\n        try:\n            return NetCDFFile.close(self)", "        try:\n            return NetCDFFile.close(self)"),
  (F, 'R-ALIAS', 'core/_files.py', "            ov = outf.createVariable(vk, v.dtype.char, newdims, **propd)\n            outvals = v[...]", "            outvals = v[...]\n            ov = outf.createVariable(vk, v.dtype.char, newdims, values=v[...], **propd)"),
  (F, 'R-ALIAS', 'core/_files.py', "                newvals = vv[:].copy()", "                newvals = vv[:]"),
  (S, None, 'core/_files.py', "                    start = start - dval[0]", "                    start = start.copy()\n                    start -= dval[0]"),
  (S, None, 'core/_files.py', "        if not self.isopen():\n            return\n        try:\n            return NetCDFFile.close(self)", "        if self.isopen():\n            return NetCDFFile.close(self)\n        try:\n            pass"),
 ],
 'C06': [
  (F, 'R-WHEREAPPLY', 'core/_files.py', "            maskdims = tuple(dims)", "            maskdims = dims"),
  (F, 'R-OPTABLE', 'core/_files.py', "pncbo(op='<', ifile1", "pncbo(op='>', ifile1"),
  (F, 'R-OPTABLE', 'core/_files.py', "return pncbo(op='-', ifile1=self, ifile2=lhs", "return pncbo(op='-', ifile1=lhs, ifile2=self"),
  (F, 'R-MASKTABLE', 'core/_files.py', "vals = np.ma.masked_less(vals, less)", "vals = np.ma.masked_less_equal(vals, less)"),
  (F, 'R-MASKTABLE', 'core/_files.py', "            if equal is not None:", "            if equal:"),
  (F, 'R-INVMASK', 'core/_functions.py', "            outval = np.ma.masked_invalid(\n                eval('in1var[...] %s in2var[...]' % op))", "            outval = eval('in1var[...] %s in2var[...]' % op)"),
  (F, 'R-MASKKEEP', 'core/_functions.py', "eval('in1var[...] %s in2var[...]' % op))", "eval('in1var[...] %s in2var[...]' % op).view(np.ndarray))"),
  (F, 'R-COORDPASS', 'core/_files.py', "            if vk in coordkeys and not coords:\n                newvar[...] = vv[...]\n                continue\n", ""),
  (S, None, 'core/_files.py', "pncbo(op=' == ', ifile1", "pncbo(op='==', ifile1"),
 ],
 'C07': [
  (F, 'R-FILLSRC', 'pncgen.py', "                    nvar, 'fill_value', getattr(\n                        nvar, '_FillValue',", "                    pvar, 'fill_value', getattr(\n                        nvar, '_FillValue',"),
  (F, 'R-KWCOPY', 'pncgen.py', "create_variable_kwds = self.create_variable_kwds.copy()", "create_variable_kwds = self.create_variable_kwds"),
  (F, 'R-UNLIM', 'pncgen.py', "                nd = nfile.createDimension(d, None)", "                nd = nfile.createDimension(d, v)"),
  (F, 'R-FILLSET', 'pncgen.py', "        elif hasattr(pvar, '_FillValue'):\n            create_variable_kwds['fill_value'] = pvar._FillValue\n", ""),
  (S, None, 'pncgen.py', "create_variable_kwds = self.create_variable_kwds.copy()", "create_variable_kwds = dict(self.create_variable_kwds)"),
 ],
 'C08': [
  (F, 'R-LUZIP', 'camxfiles/landuse/Memmap.py', "            if len(file_dtype.names) == 3:\n                varkeys = ['FLAND', 'LAI', 'TOPO']\n            else:\n                varkeys = ['FLAND', 'TOPO']", "            varkeys = ['FLAND', 'TOPO']"),
  (F, 'R-ATTRFIELD', 'camxfiles/uamiv/Write.py', "grid_hdr['dely'] = ncffile.YCELL", "grid_hdr['dely'] = ncffile.XCELL"),
  (F, 'R-HDRTABLE', 'camxfiles/uamiv/Write.py', "'nx', 'ny', 'nz', 'iproj', 'istag', 'tlat1',", "'ny', 'nx', 'nz', 'iproj', 'istag', 'tlat1',"),
  (F, 'R-HDRTABLE', 'camxfiles/lateral_boundary/Write.py', "formats=['>i', '>i', '>f', '>i', '>f', '>i']))\n\n_spc_fmt", "formats=['>i', '>i', '>i', '>f', '>f', '>i']))\n\n_spc_fmt"),
  (F, 'R-TFLAGPAIR', 'camxfiles/lateral_boundary/Memmap.py', "            self.__memmap__['DATE']['ETIME'], self.NVARS)", "            self.__memmap__['DATE']['BTIME'], self.NVARS)"),
  (F, 'R-BEPAIR', 'camxfiles/lateral_boundary/Write.py', "time_hdr['iedate'] += (time_hdr['etime'] // 24).astype('i')", "time_hdr['iedate'] += (time_hdr['btime'] // 24).astype('i')"),
  (F, 'R-API', 'camxfiles/one3d/Write.py', "v2d.tobytes() + buf)", "v2d.tostring() + buf)"),
  (F, 'R-YEAREND', 'camxfiles/uamiv/Write.py', "        date_e = rollyear(date_e)\n", ""),
  (F, 'R-YEAREND', 'camxfiles/timetuple.py', "    ndays = 365 + leap", "    ndays = 366"),
  (F, 'R-VARORDER', 'camxfiles/cloud_rain/Write.py', "['CLOUD', 'PRECIP', 'RAIN', 'SNOW',\n                             'GRAUPEL', 'COD']", "['CLOUD', 'RAIN', 'SNOW',\n                             'GRAUPEL', 'COD', 'PRECIP']"),
  (S, None, 'camxfiles/uamiv/Write.py', "grid_hdr['rdum5'] = 0.", "grid_hdr['rdum5'] = 0.0"),
 ],
 'C09': [
  (F, 'R-FRAME', 'camxfiles/one3d/Write.py', "(v2d.size + 2) * 4", "(v2d.size + 1) * 4"),
  (F, 'R-FRAME', 'camxfiles/temperature/Write.py', "nelem = nr * nc * 4 + 8", "nelem = nr * nc * 4 + 4"),
  (F, 'R-FRAME', 'camxfiles/uamiv/Write.py', "buf = np.array(4 + 40 + data.size * 4).astype('>i')", "buf = np.array(40 + data.size * 4).astype('>i')"),
  (F, 'R-FRAME', 'camxfiles/height_pressure/Write.py', "            p2d.tofile(outfile)\n            outfile.write(buf)", "            p2d.tofile(outfile)"),
  (F, 'R-FRAME', 'camxfiles/lateral_boundary/Write.py', "            buf = (nbcell * 4 + 3) * 4", "            buf = (nbcell * 4 + 2) * 4"),
  (F, 'R-DTYPEPADS', 'camxfiles/uamiv/Write.py', "    time_hdr['EPAD'] = 16", "    time_hdr['EPAD'] = 24"),
  (F, 'R-DTYPEPADS', 'geoschemfiles/_bpch.py', "tdv['header']['SPAD2'] = tdv['header']['EPAD2'] = 168", "tdv['header']['SPAD2'] = tdv['header']['EPAD2'] = 164"),
  (S, None, 'camxfiles/one3d/Write.py', "(v2d.size + 2) * 4", "v2d.size * 4 + 8"),
  (S, None, 'camxfiles/temperature/Write.py', "nelem = nr * nc * 4 + 8", "nelem = (nr * nc + 2) * 4"),
 ],
 'C10': [
  (F, 'R-SYNC', 'cmaqfiles/_ioapi.py', "        out._add2Varlist(outkeys)\n        out.updatemeta()", "        out._add2Varlist(outkeys)"),
  (F, 'R-SYNC', 'cmaqfiles/_ioapi.py', "    slice = sliceDimensions\n    subset", "    subset"),
  (F, 'R-SYNC', 'cmaqfiles/_ioapi.py', "        outf._add2Varlist(newvarlist)\n        outf.updatemeta()\n        return outf", "        outf.updatemeta()\n        outf._add2Varlist(newvarlist)\n        return outf"),
  (F, 'R-COPYCON', 'cmaqfiles/_ioapi.py', "                if not vk.endswith('TFLAG'):\n                    PseudoNetCDFFile.copyVariable(\n                        out, vv, key=vk, withdata=data\n                    )", "                PseudoNetCDFFile.copyVariable(\n                    out, vv, key=vk, withdata=data\n                )"),
  (F, 'R-FOURCOUNT', 'cmaqfiles/_ioapi.py', "self.variables['TFLAG'].shape[1] != self.NVARS", "len(self.dimensions['VAR']) != self.NVARS"),
  (S, None, 'cmaqfiles/_ioapi.py', "        outf.VGLVLS = vglvls.view(np.ndarray).astype('f')\n        outf.NLAYS = len(outf.VGLVLS) - 1\n        outf.updatemeta()\n        return outf", "        outf.VGLVLS = vglvls.view(np.ndarray).astype('f')\n        return outf"),
 ],
 'C11': [
  (F, 'R-HMSENC', 'cmaqfiles/_ioapi.py', "                outf.TSTEP = _timedelta2tstep(dt[0])", "                outf.TSTEP = int((datetime.datetime(1900, 1, 1, 0) + dt[0]).strftime('%H%M%S'))"),
  (F, 'R-XYSYM', 'cmaqfiles/_ioapi.py', "nrow = len(self.dimensions['ROW'])", "nrow = len(self.dimensions['COL'])"),
  (F, 'R-XYSYM', 'cmaqfiles/_ioapi.py', "outf.YORIG += np.arange(nrow)[kwds['ROW']].take(0) * outf.YCELL", "outf.YORIG += np.arange(nrow)[kwds['ROW']].take(0) * outf.XCELL"),
  (F, 'R-ORIGINIDX', 'cmaqfiles/_ioapi.py', "ncol = len(self.dimensions['COL'])", "ncol = len(outf.dimensions['COL'])"),
  (F, 'R-LAYGUARD', 'cmaqfiles/_ioapi.py', "if lidx[-1] < (nlvls - 1):", "if lidx[-1] < (nlvls - 2):"),
  (F, 'R-TIMESRC', 'cmaqfiles/_ioapi.py', "times = np.atleast_1d(self.getTimes()[kwds['TSTEP']])", "times = np.atleast_1d(outf.getTimes())"),
  (F, 'R-GEOHANDLERS', 'cmaqfiles/_ioapi.py', "            outf.SDATE = int(times[0].strftime('%Y%j'))\n", ""),
  (S, None, 'cmaqfiles/_ioapi.py', "if lidx[-1] < (nlvls - 1):", "if lidx[-1] <= (nlvls - 2):"),
 ],
 'C12': [
  (F, 'R-REFTIME', 'core/_files.py', "                    refdate = refdate.astimezone(utc)\n", ""),
  (F, 'R-REFTIME', 'core/_files.py', "yearlike, refdate.month, refdate.day, refdate.hour,\n                        refdate.minute, refdate.second, tzinfo=utc)", "yearlike, refdate.month, refdate.day, tzinfo=utc)"),
  (F, 'R-UNITTABLE', 'core/_files.py', "'seconds': yeardays * 24 * 3600}", "'seconds': yeardays * 24 * 60}"),
  (F, 'R-CALTABLE', 'core/_files.py', "'366_day': 1972}", "'366_day': 1970}"),
  (F, 'R-TIMEOFDAY', 'core/_files.py', "cday.replace(year=refyear + yearinc)", "datetime(refyear + yearinc, cday.month, cday.day, tzinfo=utc)"),
  (F, 'R-TFLAGCOL', 'cmaqfiles/_ioapi.py', "            tvar[:, :, 0] = yyyyjjj[:, None]", "            tvar[:, :, 1] = yyyyjjj[:, None]"),
  (F, 'R-TFLAGCOL', 'camxfiles/wind/Write.py', "t // 100", "t // 1000"),
  (F, 'R-TZDROP', 'core/_files.py', "t.astimezone(utc).replace(tzinfo=None)", "t.replace(tzinfo=None)"),
  (S, None, 'core/_files.py', "'seconds': yeardays * 24 * 3600}", "'seconds': yeardays * 86400}"),
 ],
 'C13': [
  (F, 'R-DEFSHAPE', 'camxfiles/one3d/Memmap.py', "            rows = self.__memmap[[-1]].view('>i')[0] // 4 - 2\n            cols = 1", "            rows = 1\n            cols = self.__memmap[[-1]].view('>i')[0] // 4 - 2"),
  (F, 'R-FMTTABLE', 'camxfiles/uamiv/Read.py', 'grid_hdr_fmt = "ffiffffiiiiifff"', 'grid_hdr_fmt = "ffiffffiiiiiiff"'),
  (F, 'R-IDWORDS', 'camxfiles/temperature/Memmap.py', "[:, 1:3]", "[:, 1:4]"),
  (F, 'R-LAYERVAR', 'camxfiles/uamiv/Read.py', "return (spc - 1) * self.__layerrecords(self.nlayers + 1)", "return (spc - 1) * self.__layerrecords(self.nz + 1)"),
  (F, 'R-WINDSTEP', 'camxfiles/wind/Read.py', "bytes += int(nsteps / self.nlayers) * 12", "bytes += int(nsteps / self.nlayers) * 8"),
  (F, 'R-TIMENORM', 'camxfiles/timetuple.py', "    if time1 >= eod:", "    if time1 > eod:"),
 ],
 'C15': [
  (F, 'R-REGMUT', '_getreader.py', "_myreaders = list(_readers)", "_myreaders = _readers"),
  (F, 'R-REGMUT', '_getreader.py', "    format = kwds.pop('format', None)\n    if not os", "    format = kwds.pop('format', None)\n    _readers.sort()\n    if not os"),
  (S, None, '_getreader.py', "_myreaders = list(_readers)", "_myreaders = _readers[:]"),
 ],
 'C16': [
  (F, 'R-NOEFFECT', 'core/_files.py', "            dimevals = dimevals[::-1]\n", "            dimevals[::-1]\n"),
  (F, 'R-DIRPAIR', 'core/_files.py', "            dimvals = dimvals[::-1]\n", ""),
  (F, 'R-API', 'core/_files.py', "np.isin(val, dimvals)", "np.in1d(val, dimvals)"),
  (F, 'R-EXACT', 'core/_files.py', "~np.isin(val, dimvals)", "~np.isclose(val[..., None], dimvals).any(-1)"),
  (S, None, 'core/_files.py', "            dimvals = dimvals[::-1]\n", "            dimvals = np.flip(dimvals)\n"),
 ],
 'C18': [
  (F, 'R-BPCHTABLE', 'geoschemfiles/_bpch.py', "'S40', '>i4', 'S40', '>f8', '>f8', 'S40', '6>i4',", "'S40', 'S40', '>i4', '>f8', '>f8', 'S40', '6>i4',"),
  (F, 'R-API', 'geoschemfiles/_bpch.py', "str(tuple(dim[:].tolist()))", "str(tuple(dim[:]))"),
  (F, 'R-API', 'geoschemfiles/_newbpch.py', "np.genfromtxt(tpath", "np.recfromtxt(tpath"),
  (F, 'R-SCALEINV', 'geoschemfiles/_bpch.py', "                data[:] = vals / var.scale", "                vals /= var.scale\n                data[:] = vals"),
 ],
 'C19': [
  (F, 'R-LINECOUNT', 'icarttfiles/ffi1001.py', "len(depvarkeys) + 15", "len(depvarkeys) + 14"),
  (F, 'R-LINEORDER', 'icarttfiles/ffi1001.py', "    print(getattr(f, 'PI_NAME', 'Unknown'), file=outfile)\n    print(getattr(f, 'ORGANIZATION_NAME', 'Unknown'), file=outfile)", "    print(getattr(f, 'ORGANIZATION_NAME', 'Unknown'), file=outfile)\n    print(getattr(f, 'PI_NAME', 'Unknown'), file=outfile)"),
  (F, 'R-MISSRC', 'icarttfiles/ffi1001.py', "            filled(var[:], getattr(var, 'missing_value', -999)).ravel())", "            filled(var[:]).ravel())"),
  (F, 'R-PRECISION', 'icarttfiles/ffi1001.py', "else '%.6e' % v", "else '%.5e' % v"),
  (S, None, 'icarttfiles/ffi1001.py', "else '%.6e' % v", "else '%.8e' % v"),
  # R-MISSCELL (defect fixed in /repo 84c90cb): the cells that hold the missing code keep every digit of it
  (F, 'R-MISSCELL', 'icarttfiles/ffi1001.py', "        print(delim.join([str(c) if v == c else '%.6e' % v\n                          for v, c in zip(row, codes)]), file=outfile)", "        row.tofile(outfile, format='%.6e', sep=delim)\n        print('', file=outfile)"),
  (F, 'R-MISSCELL', 'icarttfiles/ffi1001.py', "[str(c) if v == c else '%.6e' % v\n", "['%.6e' % v\n"),
  (F, 'R-MISSCELL', 'icarttfiles/ffi1001.py', "[str(c) if v == c else '%.6e' % v\n", "[str(c) if v != c else '%.6e' % v\n"),
  (F, 'R-MISSCELL', 'icarttfiles/ffi1001.py', "[str(c) if v == c else '%.6e' % v\n", "['%.6e' % c if v == c else '%.6e' % v\n"),
  (F, 'R-MISSCELL', 'icarttfiles/ffi1001.py', "    codes = [None] + [getattr(f.variables[k], 'missing_value', -999)\n", "    codes = [None] + [getattr(f.variables[k], 'missing_value', -9999)\n"),
  (S, None, 'icarttfiles/ffi1001.py', "[str(c) if v == c else '%.6e' % v\n", "['%.6e' % v if v != c else str(c)\n"),
  # R-ONELINE (defect fixed in /repo 5cfa62d): a comment attribute takes exactly one header line
  (F, 'R-ONELINE', 'icarttfiles/ffi1001.py', "        val = ' '.join(str(getattr(f, key, '')).splitlines())\n", "        val = getattr(f, key, '')\n"),
  (F, 'R-ONELINE', 'icarttfiles/ffi1001.py', "        val = ' '.join(str(getattr(f, key, '')).splitlines())\n", "        val = str(getattr(f, key, '')).replace('\\n', ' ')\n"),
  (F, 'R-ONELINE', 'icarttfiles/ffi1001.py', "        val = ' '.join(str(getattr(f, key, '')).splitlines())\n", "        val = str(getattr(f, key, '')).strip()\n"),
  (S, None, 'icarttfiles/ffi1001.py', "        val = ' '.join(str(getattr(f, key, '')).splitlines())\n", "        val = ' '.join(str(getattr(f, key, '')).split())\n"),
  (S, None, 'icarttfiles/ffi1001.py', "        val = ' '.join(str(getattr(f, key, '')).splitlines())\n", "        val = str(getattr(f, key, '')).replace('\\r', ' ').replace('\\n', ' ')\n"),
  (S, None, 'icarttfiles/ffi1001.py', "        val = ' '.join(str(getattr(f, key, '')).splitlines())\n        print('%s: %s' % (key, val), file=outfile)", "        print('%s: %s' % (key, ' '.join(str(getattr(f, key, '')).splitlines())), file=outfile)"),
  (S, None, 'icarttfiles/ffi1001.py', "[str(c) if v == c else '%.6e' % v\n", "[repr(c) if c == v else '%.6e' % v\n"),
  (S, None, 'icarttfiles/ffi1001.py', "[str(c) if v == c else '%.6e' % v\n", "[str(c) if v == c else '%.17g' % v\n"),
  (S, None, 'icarttfiles/ffi1001.py', "        print(delim.join([str(c) if v == c else '%.6e' % v\n                          for v, c in zip(row, codes)]), file=outfile)", "        cells = []\n        for v, c in zip(row, codes):\n            if v == c:\n                cells.append(str(c))\n            else:\n                cells.append('%.6e' % v)\n        print(delim.join(cells), file=outfile)"),
 ],
 'C20': [
  (F, 'R-ARLCONST', 'noaafiles/_arl.py', "np.float32(7 - EXP.astype('i'))", "np.float32(6 - EXP.astype('i'))"),
  (F, 'R-ARLWIDTH', 'noaafiles/_arl.py', "            vardef += '%3d' % checksum", "            vardef += '%4d' % checksum"),
  (F, 'R-EXPROUND', 'noaafiles/_arl.py', "if SEXP >= 0.0 or (SEXP % 1.0) == 0.0:", "if SEXP >= 0.0:"),
  (F, 'R-WORKPREC', 'noaafiles/_arl.py', "RVAR = RVARA.astype('f')", "RVAR = np.asarray(RVARA)"),
  (F, 'R-HDRFMT', 'noaafiles/_arl.py', "varhead['EXP'][ti] = '%4d' % NEXP", "varhead['EXP'][ti] = '%3d' % NEXP"),
  (S, None, 'noaafiles/_arl.py', "RVAR = RVARA.astype('f')", "RVAR = RVARA.astype(np.float32)"),
 ],
}


CATALOGUE['C01'].append((F, 'R-VARSTORE', 'core/_files.py', "                    outf.copyVariable(vv, key=vk, withdata=True)\n                    continue\n                ndims", "                    outf.variables[vk] = vv\n                    continue\n                ndims"))
CATALOGUE['C07'].append((F, 'R-ATTRALL', 'pncgen.py', "ignore_global_properties = ['variables', 'dimensions']", "ignore_global_properties = ['variables', 'dimensions', 'history']"))
CATALOGUE['C07'].append((F, 'R-ITERORDER', 'pncgen.py', '        for k in pfile.variables.keys():\n            if self.verbose:\n                print("Defining"', '        for k in sorted(pfile.variables.keys()):\n            if self.verbose:\n                print("Defining"'))
CATALOGUE['C19'].append((F, 'R-LINESTATE', 'icarttfiles/ffi1001.py', "USER_COMMENT_COUNT_LINE = (12 + len(missing) + 2 +", "USER_COMMENT_COUNT_LINE = (12 + len(missing) + 1 +"))
CATALOGUE['C20'].append((F, 'R-RECLEN', 'noaafiles/_arl.py', "(50 + ncell - hlen - thdtype.itemsize)", "(52 + ncell - hlen - thdtype.itemsize)"))

# ---- entries for the rules generalised after the held-out wave
_IO = 'cmaqfiles/_ioapi.py'
_ARL = 'noaafiles/_arl.py'
_FFI = 'icarttfiles/ffi1001.py'
CATALOGUE['C04'] += [
  (F, 'R-STACKAXIS', 'core/_files.py', "[f_.variables[varkey][:] for f_ in fs], axis=axisi)\n                    else:", "[f_.variables[varkey][:] for f_ in fs])\n                    else:"),
  (F, 'R-STACKAXIS', 'core/_functions.py', "                    axisi = list(var.dimensions).index(stackdim)", "                    axisi = 0"),
  (F, 'R-UNLIM', 'core/_functions.py', "tmpf.dimensions[stackdim].isunlimited())", "tmpf.dimensions[stackdim].isunlimited)"),
  (S, None, 'core/_functions.py', "                    axisi = list(var.dimensions).index(stackdim)", "                    axisi = var.dimensions.index(stackdim)"),
]
CATALOGUE['C01'] += [
  (F, 'R-UNLIM', 'core/_functions.py', "tmpf.dimensions[stackdim].isunlimited())", "tmpf.dimensions[stackdim].isunlimited)"),
]
CATALOGUE['C05'] += [
  (F, 'R-QMUT', 'core/_files.py', "vals = np.ma.masked_where(where, vals)", "vals = np.ma.masked_where(where, vals, copy=False)"),
  (S, None, 'core/_files.py', "vals = np.ma.masked_where(where, vals)", "vals = np.ma.masked_where(where, vals, copy=True)"),
]
CATALOGUE['C10'] += [
  (F, 'R-LISTDIMS', _IO, "                or dims == ('TSTEP', 'LAY', 'PERIM')", "                or dims[:2] == ('TSTEP', 'LAY')"),
  (F, 'R-LISTDIMS', _IO, "                dims == ('TSTEP', 'LAY', 'ROW', 'COL')\n                or dims == ('TSTEP', 'LAY', 'PERIM')", "                dims == ('TSTEP', 'LAY', 'ROW', 'COL')"),
  (S, None, _IO, "                dims == ('TSTEP', 'LAY', 'ROW', 'COL')\n                or dims == ('TSTEP', 'LAY', 'PERIM')", "                dims in (('TSTEP', 'LAY', 'PERIM'), ('TSTEP', 'LAY', 'ROW', 'COL'))"),
  (F, 'R-STARTSET', _IO, "            outf.STIME = int(times[0].strftime('%H%M%S'))\n            if times.size > 1:\n", "            if times.size > 1:\n                outf.STIME = int(times[0].strftime('%H%M%S'))\n"),
  (F, 'R-NEWEDGES', _IO, "outf.VGLVLS = vglvls.view(np.ndarray).astype('f')", "outf.VGLVLS = myvglvls.view(np.ndarray).astype('f')"),
  (S, None, _IO, "outf.VGLVLS = vglvls.view(np.ndarray).astype('f')", "outf.VGLVLS = np.asarray(vglvls).astype('f')"),
]
CATALOGUE['C11'] += [
  (F, 'R-KINDS', _IO, "            dk: not np.isscalar(dv) and not isinstance(dv, slice)\n            for dk, dv in dimslices.items()", "            dk: not isinstance(dv, (int, slice))\n            for dk, dv in dimslices.items()"),
  (S, None, _IO, "            dk: not np.isscalar(dv) and not isinstance(dv, slice)\n            for dk, dv in dimslices.items()", "            dk: not (np.isscalar(dv) or isinstance(dv, slice))\n            for dk, dv in dimslices.items()"),
  (F, 'R-LAYNORM', _IO, "            lidx = np.array(\n                np.arange(outf.VGLVLS.size - 1)[kwds['LAY']], ndmin=1\n            )", "            lidx = np.array(kwds['LAY'], ndmin=1)"),
  (F, 'R-HMSENC', _IO, "                outf.TSTEP = _timedelta2tstep(dt[0])", "                secs = int(dt[0].total_seconds())\n                outf.TSTEP = secs // 3600 * 10000 + secs % 3600 // 60 + secs % 60"),
  (S, None, _IO, "                outf.TSTEP = _timedelta2tstep(dt[0])", "                secs = int(dt[0].total_seconds())\n                outf.TSTEP = secs // 3600 * 10000 + secs % 3600 // 60 * 100 + secs % 60"),
]
CATALOGUE['C13'] += [
  (F, 'R-RECPOS', 'camxfiles/uamiv/Read.py', "        nid = ntime // self.nspec // self.nlayers", "        nid = ntime // self.nspec"),
  (S, None, 'camxfiles/uamiv/Read.py', "        nid = ntime // self.nspec // self.nlayers", "        nid = ntime // (self.nspec * self.nlayers)"),
]
CATALOGUE['C15'] += [
  (F, 'R-ASKED', '_getreader.py', "            if ext in rdict:\n                _myreaders.insert(0, (ext, rdict[ext]))", "            if ext in rdict:\n                if getattr(rdict[ext], 'isMine', False):\n                    return rdict[ext]"),
  (F, 'R-SNIFFAGREE', _FFI, "readline().strip()[-4:]", "readline().split()[-1]"),
  (S, None, _FFI, "readline().strip()[-4:]", "readline().rstrip()[-4:]"),
  (F, 'R-ISMINEPURE', 'camxfiles/uamiv/Memmap.py', ("        return name in ('AIRQUALITY', 'EMISSIONS', 'INSTANT', 'AVERAGE')", "\nclass uamiv(ioapi_base):"),
   ("        return name in _uamiv_names", "\n_uamiv_names = (k for k in ('AIRQUALITY', 'EMISSIONS', 'INSTANT', 'AVERAGE'))\n\n\nclass uamiv(ioapi_base):")),
]
CATALOGUE['C18'] += [
  (F, 'R-KWFORWARD', 'geoschemfiles/_bpchmaster.py', "            nogroup=nogroup, noscale=noscale,\n            vertgrid=vertgrid\n        )", "            nogroup=nogroup,\n            vertgrid=vertgrid\n        )"),
  (F, 'R-KWFORWARD', 'geoschemfiles/_bpchmaster.py', "            nogroup=nogroup, noscale=noscale,\n            vertgrid=vertgrid\n        )", "            nogroup=nogroup, noscale=noscale,\n            vertgrid=vertgrid, mode=mode\n        )"),
  (S, None, 'geoschemfiles/_bpchmaster.py', "            nogroup=nogroup, noscale=noscale,\n            vertgrid=vertgrid\n        )", "            vertgrid=vertgrid, noscale=noscale, nogroup=nogroup\n        )"),
  (F, 'R-TAUPAIR', 'geoschemfiles/_newbpch.py', "            self._tau1 = tmpdata['header']['tau1']", "            self._tau1 = tmpdata['header']['tau0']"),
  (F, 'R-PERBLOCK', 'geoschemfiles/_bpch.py', "    ttz = zip(ncffile.variables['tau0'], ncffile.variables['tau1'])", "    resv = getattr(var, 'reserved', ' ').ljust(40)\n    ttz = zip(ncffile.variables['tau0'], ncffile.variables['tau1'])"),
]
CATALOGUE['C18'][-1] = (F, 'R-PERBLOCK', 'geoschemfiles/_bpch.py',
                        ("    ttz = zip(ncffile.variables['tau0'], ncffile.variables['tau1'])", "            header['reserved'] = getattr(var, 'reserved', ' ').ljust(40)"),
                        ("    resv = getattr(var, 'reserved', ' ').ljust(40)\n    ttz = zip(ncffile.variables['tau0'], ncffile.variables['tau1'])", "            header['reserved'] = resv"))
CATALOGUE['C19'] += [
  (F, 'R-UNITFIELD', _FFI, "                    if len(nameunit) > 1:\n                        units.append(nameunit[1].strip())", "                    if len(nameunit) > 1 and nameunit[1].strip():\n                        units.append(nameunit[1].strip())"),
  (F, 'R-DATASHAPE', _FFI, "        data = data.reshape(ndatalines, len(variables))\n", ""),
  (F, 'R-MISSFMT', _FFI, "[str(getattr(f.variables[k], 'missing_value', -999))", "['%g' % getattr(f.variables[k], 'missing_value', -999)"),
  (S, None, _FFI, "[str(getattr(f.variables[k], 'missing_value', -999))", "[repr(getattr(f.variables[k], 'missing_value', -999))"),
  # since 84c90cb the cells that hold the code are written with str(): a header code with nine digits no longer matches a longer code
  (F, 'R-MISSFMT', _FFI, "[str(getattr(f.variables[k], 'missing_value', -999))", "['%.8e' % getattr(f.variables[k], 'missing_value', -999)"),
]
CATALOGUE['C20'] += [
  (F, 'R-ABSMAX', _ARL, "    colmax = np.abs(np.diff(RVAR, axis=1)).max()", "    colmax = np.abs(np.diff(RVAR, axis=1).max())"),
  (S, None, _ARL, "    colmax = np.abs(np.diff(RVAR, axis=1)).max()", "    colmax = np.max(np.abs(np.diff(RVAR, axis=1)))"),
  (F, 'R-GRIDSLOT', _ARL, "    out['NY'] = int(fheader['NY']) + gridy_off", "    out['NY'] = int(fheader['NY']) + gridx_off"),
  (F, 'R-VGTXT', _ARL, "            dp = np.floor(np.log10(vglvl) + 1)", "            dp = np.ceil(np.log10(vglvl))"),
  (S, None, _ARL, "            dp = np.floor(np.log10(vglvl) + 1)", "            dp = np.floor(np.log10(vglvl)) + 1"),
]

CATALOGUE['C08'] += [
  (F, 'R-INPLACEALIAS', 'camxfiles/uamiv/Write.py', "        date_e = date_s.copy()\n        time_e = time_s.copy() + tincr", "        date_e = date_s\n        time_e = time_s + tincr"),
  (S, None, 'camxfiles/uamiv/Write.py', "        date_e = date_s.copy()\n        time_e = time_s.copy() + tincr", "        date_e = date_s + 0\n        time_e = time_s + tincr"),
  (F, 'R-CONVERT', 'camxfiles/one3d/Write.py', "            v2d = v2d.astype('>f')", "            v2d = v2d.view('>f')"),
  (S, None, 'camxfiles/one3d/Write.py', "            v2d = v2d.astype('>f')", "            v2d = v2d.astype('>f4')"),
]
CATALOGUE['C13'] += [
  (F, 'R-RANGEEND', 'camxfiles/timetuple.py', "    date2, time2 = timeadd((date2, time2), (0, 0), eod)\n", ""),
  (F, 'R-WINDSCAN', 'camxfiles/wind/Read.py', "                for i in range(self.nlayers * 2 + 1):", "                for i in range(self.nlayers * 2):"),
  (S, None, 'camxfiles/wind/Read.py', "                for i in range(self.nlayers * 2 + 1):", "                for i in range(1 + 2 * self.nlayers):"),
  (F, 'R-SELPARAM', 'camxfiles/height_pressure/Read.py', "        self.seek(date, time, k, hp)\n        return self.read_into(dest)", "        self.seek(date, time, k)\n        return self.read_into(dest)"),
]

CATALOGUE['C08'] += [
  (F, 'R-CENTURY', 'ArrayTransforms.py', "    date += where(date < 70000, 2000000, 1900000).astype(date.dtype)\n", "    if (date < 70000).any():\n        date += 2000000\n    else:\n        date += 1900000\n"),
  (S, None, 'ArrayTransforms.py', "    date += where(date < 70000, 2000000, 1900000).astype(date.dtype)\n", "    date[date < 70000] += 100000\n    date += 1900000\n"),
]

CATALOGUE['C13'] += [
  (F, 'R-EODUNIT', 'camxfiles/uamiv/Read.py', "            timediff((self.start_date, self.start_time), (d, t), 24) /", "            timediff((self.start_date, self.start_time), (d, t)) /"),
  (S, None, 'camxfiles/uamiv/Read.py', "            timediff((self.start_date, self.start_time), (d, t), 24) /", "            timediff((self.start_date, self.start_time), (d, t), eod=24.0) /"),
  (F, 'R-WINDCOUNT', 'camxfiles/wind/Memmap.py', "        step_size = (self.__time_hdr_fmts_size + 8 + record * 2 * lays +\n                     self.__dummy_length * 4)", "        step_size = (self.__time_hdr_fmts_size + 8 + record * 2 * lays)"),
  (S, None, 'camxfiles/wind/Memmap.py', "        step_size = (self.__time_hdr_fmts_size + 8 + record * 2 * lays +\n                     self.__dummy_length * 4)", "        step_size = (4 * self.__dummy_length + 2 * lays * record +\n                     8 + self.__time_hdr_fmts_size)"),
]

CATALOGUE['C10'] += [
  (F, 'R-VGLEN', _IO, "                nlayb[:, 0], nlayb[-1, 1]).view(np.ndarray)", "                nlayb[:, 0], nlayb[:, 1]).view(np.ndarray)"),
  (F, 'R-VGLEN', _IO, "        outf = PseudoNetCDFFile.applyAlongDimensions(self, *args, **kwds)\n        if 'LAY' in kwds:", "        outf = PseudoNetCDFFile.applyAlongDimensions(self, *args, **kwds)\n        if isinstance(kwds.get('LAY', None), str):"),
  (S, None, _IO, "                nlayb[:, 0], nlayb[-1, 1]).view(np.ndarray)", "                nlayb[:, 0], nlayb[-1, 1]).astype('f').view(np.ndarray)"),
]

# ---- entries for the rules generalised after the second held-out wave
_F = 'core/_files.py'
_FN = 'core/_functions.py'
CATALOGUE['C01'] += [
  (F, 'R-NONEGUARD', _F, "        if dimlen is None:\n            dimlen = len(dim)\n", "        dimlen = dimlen or len(dim)\n"),
  (F, 'R-AXISPERM', _F, "            outvals = v[...]\n            for di, dk in sdims:\n                outvals = outvals.take(0, axis=di)\n\n            ov[...] = outvals[...]", "            ov[...] = np.squeeze(v[...])"),
]
CATALOGUE['C02'] += [
  (F, 'R-MASKKEEP', _F, "                newvaro[...] = newvals.reshape(newvaro.shape)", "                newvaro[...] = np.resize(newvals, newvaro.shape)"),
  (F, 'R-SLICELEN', _F, "            dv = self.dimensions[dk]\n            if dk in dimslices:\n                if dk in self.variables:", "            dv = self.dimensions[dk]\n            if isinstance(ds, slice):\n                start, stop, step = ds.indices(len(dv))\n                newdl = max(0, (stop - start + step - 1) // step)\n            elif dk in dimslices:\n                if dk in self.variables:"),
  (S, None, _F, "            dv = self.dimensions[dk]\n            if dk in dimslices:\n                if dk in self.variables:", "            dv = self.dimensions[dk]\n            if isinstance(ds, slice):\n                newdl = len(range(*ds.indices(len(dv))))\n            elif dk in dimslices:\n                if dk in self.variables:"),
]
CATALOGUE['C04'] += [
  (F, 'R-ONCE', _F, "        dimensions = [f_.dimensions for f_ in fs]\n        shareddims = {}", "        dimensions = [self.dimensions] + [f_.dimensions for f_ in other]\n        shareddims = {}"),
  (F, 'R-ATTRFIRST', _FN, "    p2p.addGlobalProperties(tmpf, f)\n    for tmpf in fs:", "    for tmpf in fs:\n        pass\n    p2p.addGlobalProperties(tmpf, f)\n    for tmpf in fs:"),
]
CATALOGUE['C05'] += [
  (F, 'R-ALIAS', _F, "            outf.dimensions[newkey] = outf.dimensions[oldkey]", "            outf.dimensions[newkey] = self.dimensions[oldkey]"),
]
CATALOGUE['C06'] += [
  (F, 'R-WHEREAPPLY', _F, "                    maskdims == vv.dimensions or\n                    (\n                        maskdims is None and\n                        where.shape == vals.shape\n                    )", "                    maskdims == vv.dimensions or\n                    np.shape(where) == vals.shape"),
  (F, 'R-WHEREAPPLY', _F, "                    maskdims == vv.dimensions or\n                    (\n                        maskdims is None and\n                        where.shape == vals.shape\n                    )", "                    maskdims is None or maskdims == vv.dimensions"),
  (S, None, _F, "                    maskdims == vv.dimensions or\n                    (\n                        maskdims is None and\n                        where.shape == vals.shape\n                    )", "                    (maskdims is None and where.shape == vals.shape) or\n                    maskdims == vv.dimensions"),
  (F, 'R-COORDKEYS', _F, "        outf._operator_exclude_vars = tuple(self._operator_exclude_vars)\n", ""),
  (S, None, _F, "        outf._operator_exclude_vars = tuple(self._operator_exclude_vars)\n", "        outf.setCoords(self.getCoords())\n"),
]
CATALOGUE['C07'] += [
  (F, 'R-PARAMUSED', 'pncgen.py', "        nfile = get_ncf_object(npath, outmode, format=format)", "        nfile = get_ncf_object(npath, outmode)"),
  (F, 'R-SCALARMASK', 'pncgen.py', "            if isinstance(pvar, NetCDFVariable):\n                pvar = pvar[...]\n            nvar[...] = pvar", "            nvar[...] = pvar.getValue()"),
]
CATALOGUE['C08'] += [
  (F, 'R-CENTURY', 'ArrayTransforms.py', "where(date < 70000, 2000000, 1900000)", "where(date < 69000, 2000000, 1900000)"),
  (F, 'R-KEYPARSE', 'camxfiles/lateral_boundary/Memmap.py', "        edgename = k.split('_')[0]\n        spcname = k[len(edgename) + 1:]", "        edgename, spcname = k.split('_')[:2]"),
  (S, None, 'camxfiles/lateral_boundary/Memmap.py', "        edgename = k.split('_')[0]\n        spcname = k[len(edgename) + 1:]", "        edgename, spcname = k.split('_', 1)"),
  (F, 'R-SRCUNTOUCHED', 'camxfiles/lateral_boundary/Write.py', "    date = date % (date // 100000 * 100000)\n    time_hdr['ibdate'] = date", "    date %= (date // 100000 * 100000)\n    time_hdr['ibdate'] = date"),
  (F, 'R-CONVERT', 'camxfiles/one3d/Write.py', "            v2d = v2d.astype('>f')", "            v2d = v2d.astype(v2d.dtype.newbyteorder('>'))"),
  (F, 'R-VARORDER', 'camxfiles/cloud_rain/Write.py', "    varkeys = [vk for vk in ['CLOUD', 'PRECIP', 'RAIN', 'SNOW',\n                             'GRAUPEL', 'COD']\n               if vk in ncffile.variables.keys()]", "    varkeys = [vk for vk in ncffile.variables.keys()\n               if vk in ('CLOUD', 'PRECIP', 'RAIN', 'SNOW',\n                         'GRAUPEL', 'COD')]"),
]
CATALOGUE['C09'] += [
  (F, 'R-FRAME', 'camxfiles/one3d/Write.py', "            v2d = v2d.astype('>f')", "            v2d = v2d.astype(v2d.dtype.newbyteorder('>'))"),
]
CATALOGUE['C10'] += [
  (F, 'R-GEOHANDLERS', _IO, "        if 'LAY' in kwds:\n            nlvls = outf.VGLVLS.size\n            lidx = np.array(\n                np.arange(outf.VGLVLS.size - 1)[kwds['LAY']], ndmin=1\n            )", "        layslice = dimslices.get('LAY')\n        if layslice:\n            nlvls = outf.VGLVLS.size\n            lidx = np.array(np.arange(nlvls - 1)[layslice], ndmin=1)"),
  (F, 'R-VGLEN', _IO, "        ofile.VGLVLS = np.arange(nz + 1, dtype='f')", "        ofile.VGLVLS = np.arange(nz, dtype='f')"),
]
CATALOGUE['C11'] += [
  (F, 'R-GEOHANDLERS', _IO, "        if 'LAY' in kwds:\n            nlvls = outf.VGLVLS.size\n            lidx = np.array(\n                np.arange(outf.VGLVLS.size - 1)[kwds['LAY']], ndmin=1\n            )", "        layslice = dimslices.get('LAY')\n        if layslice:\n            nlvls = outf.VGLVLS.size\n            lidx = np.array(np.arange(nlvls - 1)[layslice], ndmin=1)"),
  (S, None, _IO, "        if 'LAY' in kwds:\n            nlvls = outf.VGLVLS.size\n            lidx = np.array(\n                np.arange(outf.VGLVLS.size - 1)[kwds['LAY']], ndmin=1\n            )", "        layslice = dimslices.get('LAY')\n        if layslice is not None:\n            nlvls = outf.VGLVLS.size\n            lidx = np.array(np.arange(nlvls - 1)[layslice], ndmin=1)"),
]
CATALOGUE['C12'] += [
  (F, 'R-RESUNIT', _F, "        elif minres == 'second':\n            tu = 'datetime64[s]'", "        elif minres == 'second':\n            tu = 'datetime64[m]'"),
  (S, None, _F, "        elif minres == 'second':\n            tu = 'datetime64[s]'", "        elif minres == 'second':\n            tu = 'datetime64[ms]'"),
  (F, 'R-TIMEWIDTH', 'conventions/ioapi/_ioapi.py', "        time = np.array([(date - rdate).total_seconds() for date in dates])", "        time = np.array([(date - rdate).total_seconds()\n                         for date in dates]).astype('i')"),
  (F, 'R-TFLAGORDER', _IO, "            if 'TFLAG' in self.variables:\n                del self.variables['TFLAG']\n            if startdate is not None:", "            if startdate is not None:"),
]
CATALOGUE['C15'] += [
  (F, 'R-UNIQNAME', '_getreader.py', "    if name not in [k for k, v in _readers]:", "    if (name, reader) not in _readers:"),
  (F, 'R-PATHKIND', '_getreader.py', "                ext = os.path.splitext(args[0])[1][1:]", "                ext = args[0].rsplit('.', 1)[-1]"),
  (F, 'R-PERFILE', '_getreader.py', "    files = [pncopen(path, *args[1:], **kwds) for path in paths]", "    kwds['format'] = [k for k, v in _readers if v is getreader(paths[0])][0]\n    files = [pncopen(path, *args[1:], **kwds) for path in paths]"),
]
CATALOGUE['C16'] += [
  (F, 'R-RESUNIT', _F, "        elif minres == 'second':\n            tu = 'datetime64[s]'", "        elif minres == 'second':\n            tu = 'datetime64[m]'"),
  (F, 'R-EDGEPAIR', _F, "            isright = val > dimevals[-1]", "            isright = val > dimvals[-1]"),
  (F, 'R-EDGEPAIR', _F, "                dimevals = np.append(dimbv[:, 0], dimbv[-1, 1])", "                dimevals = np.unique(dimbv[:])"),
]
CATALOGUE['C18'] += [
  (F, 'R-PAIRCOLS', 'geoschemfiles/_bpch.py', "            data = np.array([self['tau0'], self['tau1']]).T", "            data = np.array([self['tau0'], self['tau1']]).reshape(-1, 2)"),
  (F, 'R-TAUPAIR', 'geoschemfiles/_newbpch.py', "        self.center180 = tmpvar._header['center180'][0]", "        self.center180 = tmpvar._header['halfpolar'][0]"),
]
CATALOGUE['C19'] += [
  (F, 'R-COLORDER', _FFI, "    print(delim.join(keys), file=outfile)", "    print(delim.join(f.variables.keys()), file=outfile)"),
  (F, 'R-LODSYM', _FFI, "                ulod_values = ['N/A'] + ulod_values", "                ulod_values = ['N/A'] + llod_values"),
]
CATALOGUE['C20'] += [
  (F, 'R-PACKROUND', _ARL, "        ICVAL = INT((RVAR[:, myI] - ROLD) * SCEXP + 127.5)", "        ICVAL = np.floor((RVAR[:, myI] - ROLD) * SCEXP + 127.5).astype(INT)"),
  (F, 'R-HEADPAIR', _ARL, "            EXP = vhead['EXP']\n            props = dict(", "            EXP = vhead['EXP'][0]\n            props = dict("),
  (F, 'R-NOSTATE', _ARL, ("def maparlpackedbit(path, mode='r', shape=None, props=None):", "    if props is None:\n        props = {}\n\n    if props == {}:"), ("def maparlpackedbit(path, mode='r', shape=None, props={}):", "    if not props:")),
  (S, None, _ARL, "def readvardef(vheader, out={}):", "def readvardef(vheader, out=None):\n    out = {} if out is None else out"),
]

CATALOGUE['C13'] += [
  (F, 'R-STEPARG', 'camxfiles/wind/Read.py', "        return timerange((self.start_date, self.start_time),\n                         timeadd((self.end_date, self.end_time),\n                                 (0, self.time_step)),\n                         self.time_step)", "        start = (self.start_date, self.start_time)\n        stop = timeadd((self.end_date, self.end_time), (0, self.time_step))\n        return timerange(start, stop)"),
  (S, None, 'camxfiles/wind/Read.py', "        return timerange((self.start_date, self.start_time),\n                         timeadd((self.end_date, self.end_time),\n                                 (0, self.time_step)),\n                         self.time_step)", "        start = (self.start_date, self.start_time)\n        stop = timeadd((self.end_date, self.end_time), (0, self.time_step))\n        return timerange(start, stop, step=self.time_step)"),
  (F, 'R-DATAWINDOW', 'camxfiles/temperature/Read.py', "            tmpmm = memmap(self.rffile.infile.name, '>f', 'r', pos,\n                           (self.area_count,))", "            firstshape = (self.area_count + 4,)\n            tmpmm = memmap(self.rffile.infile.name, '>f', 'r', pos, firstshape)\n            tmpmm = tmpmm[3:-1]"),
  (F, 'R-DATAWINDOW', 'camxfiles/temperature/Read.py', "            tmpmm = tmpmm.reshape(*newshape1)[:, 3:-1]", "            tmpmm = tmpmm.reshape(*newshape1)[:, 2:-2]"),
]
CATALOGUE['C08'] += [
  (F, 'R-TFLAGPAIR', 'camxfiles/uamiv/Memmap.py', "        tflag = ConvertCAMxTime(self.__memmap__['DATE']['BDATE'],\n                                self.__memmap__['DATE']['BTIME'],", "        datehdr = self.__memmap__['DATE']\n        tflag = ConvertCAMxTime(datehdr['EDATE'], datehdr['BTIME'],"),
  (S, None, 'camxfiles/uamiv/Memmap.py', "        tflag = ConvertCAMxTime(self.__memmap__['DATE']['BDATE'],\n                                self.__memmap__['DATE']['BTIME'],", "        datehdr = self.__memmap__['DATE']\n        tflag = ConvertCAMxTime(datehdr['BDATE'], datehdr['BTIME'],"),
]

# ---- generic baseline-relative rules (pncstatic/generic.py)
CATALOGUE['C04'] += [
  (F, 'R-CALLED', _F, "                if dv.isunlimited():\n                    stackdim = dk\n                    break", "                if dv.isunlimited:\n                    stackdim = dk\n                    break"),
  (F, 'R-PARAMUSED', '_getreader.py', "    return file1.stack(files[1:], stackdim=stackdim)", "    return file1.stack(files[1:])"),
]
CATALOGUE['C18'] += [
  (F, 'R-ONESHOT', 'geoschemfiles/_bpch.py', "    for ti, (tau0, tau1) in enumerate(ttz):", "    ntimes = len(list(ttz))\n    for ti, (tau0, tau1) in enumerate(ttz):"),
]
CATALOGUE['C16'] += [
  (F, 'R-PARAMUSED', _F, ("            fidx = np.interp(val, dimevals, idx, left=left, right=right)", "            fidx = np.interp(val, dimvals, idx, left=left, right=right)"),
   ("            fidx = np.interp(val, dimevals, idx, right=right)", "            fidx = np.interp(val, dimvals, idx, right=right)")),
  (F, 'R-NOSTATE', _F, ("        method='nearest', bounds='warn', left=None, right=None, clean='mask'\n    ):", "        bounds_keys = [dim + '_bounds', dim + '_bnds']"),
   ("        method='nearest', bounds='warn', left=None, right=None, clean='mask',\n        _bk=[]\n    ):", "        _bk += [dim + '_bounds', dim + '_bnds']\n        bounds_keys = _bk")),
]

CATALOGUE['C18'] += [
  (F, 'R-SIBLING', 'geoschemfiles/_newbpch.py', "            self._tau0 = tmpdata['header']['tau0']\n            self._tau1 = tmpdata['header']['tau1']", "            self._tau0 = tmpdata['header']['tau0']\n            self._tau1 = tmpdata['header']['tau0']"),
]
CATALOGUE['C19'] += [
  (F, 'R-MODSTATE', _FFI, ("class ffi1001(PseudoNetCDFFile):", "        lastattr = None\n        PseudoNetCDFFile.__init__(self)"), ("_seen = []\n\n\nclass ffi1001(PseudoNetCDFFile):", "        lastattr = None\n        _seen.append(path)\n        PseudoNetCDFFile.__init__(self)")),
]

# ---- the three properties claimed at the level of structural necessary conditions
_UM = 'camxfiles/uamiv/Memmap.py'
_LM = 'camxfiles/lateral_boundary/Memmap.py'
CATALOGUE['C03'] = [
  (F, 'R-KEEPDIMS', _F, "                        newvals = getattr(newvals, dfunc)(\n                            axis=di, keepdims=True)", "                        newvals = getattr(newvals, dfunc)(axis=di)"),
  (F, 'R-KEEPDIMS', _F, "                        newvals = getattr(newvals, dfunc)(\n                            axis=di, keepdims=True)", "                        newvals = getattr(newvals, dfunc)(\n                            axis=0, keepdims=True)"),
  (F, 'R-AXISOFVAR', _F, "                        newvals = np.apply_along_axis(dfunc, di, newvals)", "                        newvals = np.apply_along_axis(dfunc, di, varo[...])"),
  (F, 'R-MASKKEEP', _F, "            newvals = varo[...]\n            dik = list(enumerate(vdims))", "            newvals = np.asarray(varo[...])\n            dik = list(enumerate(vdims))"),
  (F, 'R-DIMLENOUT', _F, "                    newdl = getattr(dvar[...], df)(keepdims=True).size", "                    newdl = 1"),
  (F, 'R-UNTOUCHED', _F, "            newvaro = outf.copyVariable(varo, key=vark, dtype=newvals.dtype,\n                                        withdata=False)\n            newvaro[...] = newvals\n        if verbose > 0:\n            print()\n\n        return outf", "            if any(dk in dimfuncs for dk in vdims):\n                newvaro = outf.copyVariable(varo, key=vark, dtype=newvals.dtype, withdata=False)\n                newvaro[...] = newvals\n        if verbose > 0:\n            print()\n\n        return outf"),
  (S, None, _F, "                        newvals = getattr(newvals, dfunc)(\n                            axis=di, keepdims=True)", "                        newvals = getattr(newvals, dfunc)(\n                            keepdims=True, axis=di)"),
  (F, 'R-AXISORDER', _F, "            dik = list(enumerate(vdims))\n            for di, dk in dik[::-1]:", "            dik = list(enumerate(vdims))\n            for di, dk in dik:"),
]
CATALOGUE['C14'] = [
  (F, 'R-BLOCKSIZE', _UM, "        spc_1_lay_block_size = 13 + nx * ny", "        spc_1_lay_block_size = 12 + nx * ny"),
  (F, 'R-BLOCKSIZE', _LM, "        date_time_block_size = 6", "        date_time_block_size = 4"),
  (F, 'R-WHOLEBLOCKS', 'camxfiles/temperature/Memmap.py', "        records = self.__memmap.size // record_length", "        records = int(np.ceil(self.__memmap.size / record_length))"),
  (F, 'R-PARTIALRAISE', _UM, "        if int(ntimes) != ntimes:\n            raise ValueError(", "        if int(ntimes) != ntimes:\n            warn("),
  (F, 'R-MAPCOUNT', 'geoschemfiles/_bpch.py', "                             offset=_general_header_type.itemsize, mode=mode,\n                             shape=(itemcount,))", "                             offset=_general_header_type.itemsize, mode=mode)"),
  (F, 'R-WINDCOUNT', 'camxfiles/wind/Memmap.py', "        step_size = (self.__time_hdr_fmts_size + 8 + record * 2 * lays +\n                     self.__dummy_length * 4)", "        step_size = (self.__time_hdr_fmts_size + 8 + record * 2 * lays)"),
  (S, None, _UM, "        spc_1_lay_block_size = 13 + nx * ny", "        spc_1_lay_block_size = nx * ny + 13"),
  (S, None, _LM, "        ntimes = float(size - offset) // 4. // data_block_size", "        ntimes = (size - offset) // 4 // data_block_size"),
]
CATALOGUE['C17'] = [
  (F, 'R-PARTUNITY', 'coordutil.py', "        weights /= weights.sum(0)", "        weights /= weights.sum(1)[:, None]"),
  (F, 'R-PARTUNITY', 'coordutil.py', "        weights = np.maximum(0, weights)\n        weights /= weights.sum(0)", "        weights /= weights.sum(0)\n        weights = np.maximum(0, weights)"),
  (F, 'R-PARTUNITY', 'coordutil.py', "        weights = np.maximum(0, weights)\n        weights /= weights.sum(0)", "        weights = np.maximum(0, weights)"),
  (F, 'R-CONTRACT', _IO, "                newdata = (weights * data[:, None]).sum(0)", "                newdata = (weights * data[:, None]).sum(1)"),
  (F, 'R-NORMSAME', _IO, "            ndp = fdp.sum(0)", "            ndp = dp_in.sum(0)"),
  (F, 'R-OVERLAP', 'coordutil.py', "            coeff[lay, li] = myf", "            coeff[li, lay] = myf"),
  (S, None, 'coordutil.py', "        weights /= weights.sum(0)", "        weights = weights / weights.sum(axis=0)"),
  (S, None, _IO, "                nvals = (data[:, None] * fdp).sum(0) / ndp", "                nvals = (fdp * data[:, None]).sum(0) / ndp"),
]

CATALOGUE['C15'] += [
  (F, 'R-VACUOUS', 'noaafiles/_l100.py', "            if len(mynames) < 8:\n                return False\n", ""),
  (S, None, 'noaafiles/_l100.py', "            if len(mynames) < 8:\n                return False\n", "            if len(mynames) < len(_orignames[:8]):\n                return False\n"),
]

# ---- entries for the rules generalised after the third held-out wave
CATALOGUE['C01'] += [
  (F, 'R-DIMKEY', _F, "            newdl = dimlens[dk]\n            outf.copyDimension(dv, key=dk, dimlen=newdl)", "            outf.copyDimension(dv, dimlen=dimlens[dk])"),
  (F, 'R-SWAP', 'core/_variables.py', "        newdims[a1] = self.dimensions[a2]\n        newdims[a2] = self.dimensions[a1]\n        out.dimensions = tuple(newdims)\n        return out\n\n    def ncattrs", "        newdims[a1] = newdims[a2]\n        newdims[a2] = newdims[a1]\n        out.dimensions = tuple(newdims)\n        return out\n\n    def ncattrs"),
]
CATALOGUE['C02'] += [
  (F, 'R-DELROWCOL', _IO, "            if isarray['ROW'] and isarray['COL']:", "            if np.sum(list(isarray.values())) > 1:"),
  (S, None, _IO, "            if isarray['ROW'] and isarray['COL']:", "            if isarray['COL'] and isarray['ROW']:"),
  (F, 'R-SLICEDEF', _FN, "    if len(slicedef) == 2:\n        # a single index; the stop after -1 is the end, not 0\n        slicedef.append(slicedef[-1] + 1 or None)\n    slicedef = (slicedef + [None, ])[:4]\n    dimkey, dmin, dmax, dstride = slicedef", "    dimkey, dmin, dmax, dstride = (slicedef + [None, None])[:4]\n    if dmax is None:\n        dmax = dmin + 1"),
]
CATALOGUE['C03'] += [
  (F, 'R-UNTOUCHED', _IO, "                [int(t.strftime('%H%M%S')) for t in newtimes])[:, None]\n        return outf", "                [int(t.strftime('%H%M%S')) for t in newtimes])[:, None]\n        outf.updatetflag(overwrite=True)\n        return outf"),
]
CATALOGUE['C04'] += [
  (F, 'R-ORDER', _F, "        files = [cls(p, **kwds) for p in paths]", "        opened = dict((p, cls(p, **kwds)) for p in paths)\n        files = list(opened.values())"),
]
CATALOGUE['C05'] += [
  (F, 'R-ALIAS', _F, "            fs = [self, other]\n        dimensions = [f_.dimensions for f_ in fs]", "            fs = [self, other]\n        if len(fs) == 1:\n            return self\n        dimensions = [f_.dimensions for f_ in fs]"),
  (F, 'R-QMUT', 'pncgen.py', "        self.addVariables(pfile, nfile)\n        nfile.sync()\n        return nfile", "        self.addVariables(pfile, nfile)\n        nfile.sync()\n        pfile.close()\n        return nfile"),
]
CATALOGUE['C06'] += [
  (F, 'R-EVALASSIGN', _F, "        assignedkeys = [k for k in assignedkeys if k in vardict]", "        assignedkeys = [k for k in assignedkeys if k in vardict and k not in self.variables]"),
]
CATALOGUE['C07'] += [
  (F, 'R-CONVSTEPS', 'pncgen.py', "            print(\"Adding globals\", file=sys.stdout)\n        self.addGlobalProperties(pfile, nfile)", "            print(\"Adding globals\", file=sys.stdout)\n            self.addGlobalProperties(pfile, nfile)"),
  (F, 'R-AUTOSCALE', 'pncgen.py', "            for k in pfile.variables.keys():\n                if self.verbose:\n                    print(\"Populating\", k, file=sys.stdout)", "            nfile.set_auto_maskandscale(False)\n            for k in pfile.variables.keys():\n                if self.verbose:\n                    print(\"Populating\", k, file=sys.stdout)"),
  (F, 'R-CLASSSTATE', 'pncgen.py', "    def addDimensions(self, pfile, nfile):\n", "    def addDimensions(self, pfile, nfile):\n        self.unlimited_dimensions.extend(k for k, v in pfile.dimensions.items() if v.isunlimited())\n"),
]
CATALOGUE['C08'] += [
  (F, 'R-ENDIAN', _UM, "            formats=['i', 'i', 'f', 'i', 'f', 'i'])).newbyteorder(ep)\n        date_time_block_size = 6", "            formats=['>i', '>i', '>f', '>i', '>f', '>i']))\n        date_time_block_size = 6"),
  (F, 'R-FLUSH', 'camxfiles/wind/Write.py', "        outfile.write(buf)\n    outfile.flush()\n    return outfile", "        outfile.write(buf)\n    return outfile"),
  (F, 'R-CLASSSTATE', _LM, ("    __idum = 0\n", "        self._boundary_def = {}\n"), ("    __idum = 0\n    _boundary_def = {}\n", "")),
]
CATALOGUE['C10'] += [
  (F, 'R-FOURCOUNT', _IO, "            if newdimlen != len(self.dimensions['VAR']):", "            if newdimlen > len(self.dimensions['VAR']):"),
  (F, 'R-TFLAGRESTORE', _IO, "        outf = PseudoNetCDFFile.mask(self, *args, **kwds)\n        PseudoNetCDFFile.copyVariable(\n            outf, self.variables['TFLAG'], key='TFLAG'\n        )", "        outf = PseudoNetCDFFile.mask(self, *args, **kwds)\n        if 'TFLAG' not in outf.variables:\n            PseudoNetCDFFile.copyVariable(\n                outf, self.variables['TFLAG'], key='TFLAG'\n            )"),
]
CATALOGUE['C12'] += [
  (F, 'R-DIVMODPAIR', _F, "                    yearincrs = np.array(fracyearincrs // 1).astype('i')", "                    yearincrs = np.asarray(fracyearincrs).astype('i')"),
  (S, None, _F, "                    yearincrs = np.array(fracyearincrs // 1).astype('i')", "                    yearincrs = np.floor(fracyearincrs).astype('i')"),
  (F, 'R-PERSTEP', _F, "            out = np.array([datetime(yyyy, 1, 1, tzinfo=utc) +\n                            timedelta(days=day - 1)\n                            for yyyy, day in zip(yyyys, days)])", "            yearstart = datetime(yyyys[0], 1, 1, tzinfo=utc)\n            out = np.array([yearstart + timedelta(days=day - 1)\n                            for day in days])"),
  (F, 'R-FENCEPOST', _IO, "    dt = (times[-1] - times[0]).total_seconds() / (len(times) - 1)", "    dt = (times[-1] - times[0]).total_seconds() / len(times)"),
]
CATALOGUE['C13'] += [
  (F, 'R-REWIND', 'camxfiles/FortranFileUtil.py', "        rf = RecordFile(rf)\n    rf._newrecord(0)\n    return rf", "        rf = RecordFile(rf)\n    return rf"),
  (F, 'R-NONEGUARD', 'camxfiles/one3d/Read.py', "        if time is None:\n            time = self.start_time\n\n        if chkvar:", "        time = time or self.start_time\n\n        if chkvar:"),
]
CATALOGUE['C15'] += [
  (F, 'R-CLASSSTATE', 'geoschemfiles/_bpchmaster.py', ("class bpch(bpch1, bpch2):\n", "        quiet = reader is None\n"), ("class bpch(bpch1, bpch2):\n    _attempts = [bpch1, bpch2]\n\n", "        quiet = reader is None\n        attempts = self._attempts\n        attempts.reverse()\n")),
]
CATALOGUE['C16'] += [
  (F, 'R-EDGECLAMP', _F, "            fidx = np.interp(val, dimevals, idx, left=left, right=right)\n            if right is None or right == dimevals[-1]:\n                fidx = np.minimum(fidx, dimvals.size - 1)", "            if right is None or right == dimevals[-1]:\n                right = dimvals.size - 1\n            fidx = np.interp(val, dimevals, idx, left=left, right=right)"),
  (F, 'R-BOUNDSKEYS', _F, "        bounds_keys = [dim + '_bounds', dim + '_bnds']\n        if hasattr(dimv, 'bounds'):\n            bounds_keys.insert(0, dimv.bounds)", "        bounds_keys = [getattr(dimv, 'bounds', dim + '_bounds'), dim + '_bnds']"),
  (F, 'R-CALSRC', _F, "        calendar = getattr(self.variables[timekey], 'calendar', 'standard')", "        calendar = getattr(self, 'calendar', 'standard')"),
]
CATALOGUE['C17'] += [
  (F, 'R-PARTUNITY', 'coordutil.py', "                           bounds_error=False, fill_value='extrapolate')", "                           bounds_error=False, fill_value='extrapolate',\n                           assume_sorted=True)"),
  (F, 'R-OVERLAP', 'coordutil.py', "            bf = max(b - lay, 0)", "            bf = max(b - ll, 0)"),
  (F, 'R-WEIGHTSPERCOL', _F, "                    weights = getinterpweights(od, nd, **interpkwds)\n                    for nvk, nvv in outf.variables.items():", "                    if ii == () or True and kk == ():\n                        weights = getinterpweights(od, nd, **interpkwds)\n                    for nvk, nvv in outf.variables.items():"),
]
CATALOGUE['C18'] += [
  (F, 'R-BLOCKID', 'geoschemfiles/_bpch.py', "                (header[7], header[8]) == (first_header[7], first_header[8]) or", "                header[8] == first_header[8] or"),
  (F, 'R-IDKEEP', 'geoschemfiles/_newbpch.py', "            if pk == 'tracerid':\n                continue\n", ""),
  (F, 'R-DIAGFILTER', 'geoschemfiles/_bpch.py', "                if myl[0] != '#'\n            ])", "                if myl[0] not in ('#', ' ')\n            ])"),
]
CATALOGUE['C19'] += [
  (F, 'R-SCALELINE', _FFI, "    print(delim.join(['1' for k in depvarkeys]), file=outfile)", "    print(delim.join([str(getattr(f.variables[k], 'scale', 1))\n                      for k in depvarkeys]), file=outfile)"),
]
CATALOGUE['C20'] += [
  (F, 'R-LAYUNION', _ARL, "        alllayvarkeys = []\n        for layk, layvarkeys in out['laykeys']:\n            alllayvarkeys.extend(\n                [k.decode() for k in layvarkeys\n                 if k.decode() not in alllayvarkeys])\n        self._layvarkeys = tuple(alllayvarkeys)", "        layk, layvarkeys = out['laykeys'][0]\n        self._layvarkeys = tuple([k.decode() for k in layvarkeys])"),
  (F, 'R-WORKPREC', _ARL, "    data = (bytes.view('uint8') - np.float32(127.)) * invscale[..., None, None]", "    data = (bytes.view('uint8') - 127) * invscale[..., None, None]"),
  (S, None, _ARL, "    scale = np.float32(2.0)**np.float32(7 - EXP.astype('i'))\n    invscale = np.float32(1.) / scale", "    invscale = np.float32(2.0)**np.float32(EXP.astype('i') - 7)"),
]


CATALOGUE['C12'] += [
  (F, 'R-REFSHIFT', _F, "                        refcdate - crefdate).total_seconds() / yearseconds", "                        crefdate - refcdate).total_seconds() / yearseconds"),
  (S, None, _F, "                    addyears = (\n                        refcdate - crefdate).total_seconds() / yearseconds", "                    refoffset = refcdate - crefdate\n                    addyears = refoffset.total_seconds() / yearseconds"),
]

CATALOGUE['C14'] += [
  (F, 'R-SCANEOF', 'camxfiles/wind/Memmap.py', "            if not rf.next():\n                raise ValueError('End of file before the end of the first ' +\n                                 'time step; file may be truncated')\n", "            rf.next()\n"),
  (S, None, 'camxfiles/wind/Memmap.py', "            if not rf.next():\n                raise ValueError(", "            more = rf.next()\n            if not more:\n                raise ValueError("),
]
CATALOGUE['C13'] += [
  (F, 'R-SCANEOF', 'camxfiles/wind/Read.py', "            if not self.rffile.next():\n                raise ValueError('End of file before a second time header; ' +\n                                 'the time step cannot be determined')\n", "            self.rffile.next()\n"),
]

CATALOGUE['C08'] += [
  (F, 'R-BYTEORDER', 'camxfiles/wind/Write.py', "        lstag = np.array(ncffile.LSTAGGER, ndmin=1).astype('>i')\n", "        lstag = ncffile.LSTAGGER\n"),
  (S, None, 'camxfiles/wind/Write.py', "        lstag = np.array(ncffile.LSTAGGER, ndmin=1).astype('>i')\n", "        lstagval = ncffile.LSTAGGER\n        lstag = np.array([lstagval], dtype='>i')\n"),
]

CATALOGUE['C03'] += [
  (F, 'R-PASSMASK', 'pncgen.py', "            if isinstance(nvar, MaskedArray):\n                # an in-memory masked variable keeps the mask itself\n                nvar[:] = pvar[...]\n            else:\n                nvar[:] = pvar[...].filled(getattr(\n                    nvar, 'fill_value', getattr(\n                        nvar, '_FillValue',\n                        getattr(pvar, 'missing_value', -9999))))\n", "            nvar[:] = pvar[...].filled(getattr(nvar, 'fill_value', getattr(\n                nvar, '_FillValue', getattr(pvar, 'missing_value', -9999))))\n"),
]

CATALOGUE['C14'] += [
  (F, 'R-PARTIALRAISE', 'camxfiles/one3d/Memmap.py', "        if self.__records % lays != 0:\n            raise ValueError('Incomplete time step: %d records of %d layers'\n                             % (self.__records, lays))\n", ""),
]

CATALOGUE['C09'] += [
  (F, 'R-FRAME', 'camxfiles/lateral_boundary/Write.py', "            cells = ([0, 0, 0, 0] + [icell, 0, 0, 0] * (nbcell - 2) +\n                     [0, 0, 0, 0])[:nbcell * 4]\n            np.array([buf, 1, ei, nbcell] + cells + [buf]\n                     ).astype('>i').tofile(outfile)", "            np.array([buf, 1, ei, nbcell, 0, 0, 0, 0] + [icell, 0, 0, 0] *\n                     (nbcell - 2) + [0, 0, 0, 0, buf]\n                     ).astype('>i').tofile(outfile)"),
  (F, 'R-FRAME', 'camxfiles/lateral_boundary/Write.py', "                     [0, 0, 0, 0])[:nbcell * 4]", "                     [0, 0, 0, 0])[:nbcell * 4 + 1]"),
]
CATALOGUE['C06'] += [
  (F, 'R-MASKTMPL', _FN, "        mask = eval(mval, None, f.variables)\n", "        # mask = eval(mval, None, f.variables)\n"),
  (F, 'R-MASKTMPL', _FN, "        maskexpr = 'np.ma.masked_where(mask, var[:])'", "        maskexpr = 'np.ma.masked_where(mask, var[:].view(np.ndarray))'"),
]
CATALOGUE['C10'] += [
  (F, 'R-TIMEREDUCE', _IO, "            outf.SDATE = int(newtimes[0].strftime('%Y%j'))\n            outf.STIME = int(newtimes[0].strftime('%H%M%S'))\n            if len(newtimes) > 1:", "            outf.STIME = int(newtimes[0].strftime('%H%M%S'))\n            if len(newtimes) > 1:"),
  (F, 'R-TIMEREDUCE', _IO, "            if 'TFLAG' in outf.variables:\n                del outf.variables['TFLAG']\n        outf.updatemeta()\n        if 'TSTEP' in kwds:\n            tflag = outf.variables['TFLAG']", "        outf.updatemeta()\n        if 'TSTEP' in kwds and False:\n            tflag = outf.variables['TFLAG']"),
]
CATALOGUE['C07'] += [
  (F, 'R-NCATTRAPI', 'pncgen.py', "                    nfile.setncattr(k, value)", "                    setattr(nfile, k, value)"),
  (F, 'R-NCATTRAPI', 'pncgen.py', "                    nvar.setncattr(a, value)\n", "                    setattr(nvar, a, value)\n"),
  (F, 'R-FILLZERO', 'pncgen.py', "        if hasattr(pvar, 'missing_value'):\n            create_variable_kwds['fill_value'] = pvar.missing_value", "        if getattr(pvar, 'missing_value', None):\n            create_variable_kwds['fill_value'] = pvar.missing_value"),
]
CATALOGUE['C10'] += [
  (F, 'R-VARLISTWIDTH', _IO, "        keys = [k for k in _varlist2keys(varliststr) if k in self.variables]", "        keys = [k for k in varliststr.split() if k in self.variables]"),
  (F, 'R-VARLISTWIDTH', _IO, "    if len(varliststr) % 16 == 0:\n        return [varliststr[i:i + 16].strip()\n                for i in range(0, len(varliststr), 16)]\n    else:\n        return varliststr.split()", "    return varliststr.split()"),
  (S, None, _IO, "    if len(varliststr) % 16 == 0:\n        return [varliststr[i:i + 16].strip()\n                for i in range(0, len(varliststr), 16)]\n    else:\n        return varliststr.split()", "    if len(varliststr) % 16 != 0:\n        return varliststr.split()\n    return [varliststr[i:i + 16].strip()\n            for i in range(0, len(varliststr), 16)]"),
]
CATALOGUE['C08'] += [
  (F, 'R-ONESTEP', 'camxfiles/temperature/Memmap.py', "                break\n        else:\n            # a single time step: every record belongs to it\n            i = times.shape[0]\n", "                break\n"),
  (F, 'R-ONESTEP', 'camxfiles/height_pressure/Memmap.py', "        else:\n            # a single time step: every record belongs to it\n            i = times.shape[0]\n", "        else:\n            pass\n"),
  (F, 'R-ONESTEP', 'camxfiles/one3d/Memmap.py', "        lays = newstep[0] if newstep.size > 0 else self.__records\n", "        lays = newstep[0]\n"),
  (S, None, 'camxfiles/one3d/Memmap.py', "        lays = newstep[0] if newstep.size > 0 else self.__records\n", "        if len(newstep) == 0:\n            lays = self.__records\n        else:\n            lays = newstep[0]\n"),
]
CATALOGUE['C09'] += [
  (F, 'R-PROBETOTAL', 'camxfiles/landuse/Memmap.py', "        first_line = self._rffile.infile.read(8).decode('latin1')\n", "        first_line, = self._rffile.read('8s')\n"),
  (F, 'R-PROBETOTAL', 'camxfiles/landuse/Memmap.py', "        first_line = self._rffile.infile.read(8).decode('latin1')\n", "        first_line = self._rffile.infile.read(8).decode()\n"),
  (S, None, 'camxfiles/landuse/Memmap.py', "        first_line = self._rffile.infile.read(8).decode('latin1')\n", "        first_line = self._rffile.infile.read(8).decode('utf-8', errors='replace')\n"),
]
CATALOGUE['C06'] += [
  (F, 'R-MASKCARRY', _F, "                vals = np.ma.masked_values(vals, values)\n                vals = np.ma.masked_where(premask, vals)\n", "                vals = np.ma.masked_values(vals, values)\n"),
  (F, 'R-MASKCARRY', _F, "                premask = np.ma.getmaskarray(vals)\n                vals = np.ma.masked_values(vals, values)\n", "                vals = np.ma.masked_values(vals, values)\n                premask = np.ma.getmaskarray(vals)\n"),
  (S, None, _F, "                premask = np.ma.getmaskarray(vals)\n                vals = np.ma.masked_values(vals, values)\n                vals = np.ma.masked_where(premask, vals)\n", "                vals = np.ma.masked_where(np.ma.getmaskarray(vals), np.ma.masked_values(vals, values))\n"),
]
CATALOGUE['C08'] += [
  (F, 'R-LUORDER', 'camxfiles/landuse/Write.py', "['FLAND', 'LUCAT11', 'LUCAT26', 'VAR1', 'LAI', 'TOPO']", "['FLAND', 'VAR1', 'LAI', 'TOPO', 'LUCAT11', 'LUCAT26']"),
  (S, None, 'camxfiles/landuse/Write.py', "['FLAND', 'LUCAT11', 'LUCAT26', 'VAR1', 'LAI', 'TOPO']", "['LUCAT26', 'LUCAT11', 'FLAND', 'VAR1', 'LAI', 'TOPO']"),
]

# ---- variants taken from committed seeded changes (one file, any number of hunks): the rule named here must fire on the patched text.
# A seed whose hunks no longer match the tree is skipped (reported as such), never a failure.

# ---- entries for the defects repaired after the fifth refactoring wave (leads: "Clean-tree defects" notes of the sub-agents)
_GCNC = 'geoschemfiles/_gcnc.py'
CATALOGUE['C03'] += [
  (F, 'R-RESDTYPE', 'core/_files.py', "            newvaro = outf.copyVariable(varo, key=vark, dtype=newvals.dtype,\n                                        withdata=False)", "            newvaro = outf.copyVariable(varo, key=vark, withdata=False)"),
  (F, 'R-RESDTYPE', 'core/_files.py', "key=vark, dtype=newvals.dtype,\n", "key=vark, dtype=varo.dtype,\n"),
  (S, None, 'core/_files.py', "            newvaro = outf.copyVariable(varo, key=vark, dtype=newvals.dtype,\n                                        withdata=False)", "            newdtype = newvals.dtype\n            newvaro = outf.copyVariable(varo, key=vark, dtype=newdtype,\n                                        withdata=False)"),
]
CATALOGUE['C04'] += [
  (F, 'R-STACKSIG', _GCNC, "    def stack(self, other, stackdim):", "    def stack(self, other, dimkey):\n        stackdim = dimkey"),
  (F, 'R-STACKSIG', _GCNC, "        if stackdim != 'time':\n            # the time axis is that of this file; nothing to rebuild\n            return outf\n", "        if stackdim != 'time':\n            tvar = outf.variables['time']\n            tvar.units = 'hours since ' + rdate.strftime('%Y-%m-%d')\n            return outf\n"),
  (S, None, _GCNC, "    def stack(self, other, stackdim):", "    def stack(self, other, stackdim, **unused):"),
  (S, None, _GCNC, "        if stackdim != 'time':\n            # the time axis is that of this file; nothing to rebuild\n            return outf\n", "        if not stackdim == 'time':\n            return outf\n"),
]
CATALOGUE['C07'] += [
  (F, 'R-CHARTYPE', 'pncgen.py', "            if typecode == 'S':\n                # numpy's code for a character array; 'S' alone would be\n                # read as a zero-length string type\n                typecode = 'c'\n", ""),
  (F, 'R-CHARTYPE', 'pncgen.py', "            if typecode == 'S':\n                # numpy's code for a character array; 'S' alone would be\n                # read as a zero-length string type\n                typecode = 'c'\n", "            if typecode == 'S':\n                typecode = 'S0'\n"),
  (S, None, 'pncgen.py', "            if typecode == 'S':\n                # numpy's code for a character array; 'S' alone would be\n                # read as a zero-length string type\n                typecode = 'c'\n", "            typecode = 'S1' if typecode == 'S' else typecode\n"),
  (S, None, 'pncgen.py', "            if typecode == 'S':\n                # numpy's code for a character array; 'S' alone would be\n                # read as a zero-length string type\n                typecode = 'c'\n", "            typecode = {'S': 'c'}.get(typecode, typecode)\n"),
]
CATALOGUE['C16'] += [
  (F, 'R-STEPINT', 'core/_files.py', "                    dt = timedelta(seconds=int(sh + sm + ss))", "                    dt = timedelta(seconds=sh + sm + ss)"),
  (F, 'R-STEPINT', 'core/_files.py', "                    dt = timedelta(seconds=int(sh + sm + ss))", "                    dt = timedelta(hours=tstep // 10000, seconds=int(sm + ss))"),
  (S, None, 'core/_files.py', "                    dt = timedelta(seconds=int(sh + sm + ss))", "                    dt = timedelta(seconds=float(sh + sm + ss))"),
  (S, None, 'core/_files.py', "                    tstep = getattr(self, 'TSTEP')\n", "                    tstep = int(getattr(self, 'TSTEP'))\n"),
]
CATALOGUE['C19'] += [
  (F, 'R-INDEPUNITS', _FFI, "    print(delim.join([f.INDEPENDENT_VARIABLE,\n                      getattr(f.variables[f.INDEPENDENT_VARIABLE], 'units',\n                              'unknown')]), file=outfile)", "    print(f.INDEPENDENT_VARIABLE, file=outfile)"),
  (F, 'R-INDEPUNITS', _FFI, "                      getattr(f.variables[f.INDEPENDENT_VARIABLE], 'units',\n                              'unknown')]), file=outfile)", "                      getattr(f.variables[depvarkeys[0]], 'units',\n                              'unknown')]), file=outfile)"),
  (S, None, _FFI, "    print(delim.join([f.INDEPENDENT_VARIABLE,\n                      getattr(f.variables[f.INDEPENDENT_VARIABLE], 'units',\n                              'unknown')]), file=outfile)", "    indepvar = f.variables[f.INDEPENDENT_VARIABLE]\n    print(delim.join([f.INDEPENDENT_VARIABLE, getattr(indepvar, 'units', 'unknown')]), file=outfile)"),
  (S, None, _FFI, "    print('%d, %d' % (len(myattrs) + len(depvarkeys) + 15, 1001), file=outfile)", "    nheader = len(myattrs) + len(depvarkeys) + 15\n    print('%d, 1001' % (nheader,), file=outfile)"),
  (F, 'R-LINEORDER', _FFI, "    print('%d, %d' % (len(myattrs) + len(depvarkeys) + 15, 1001), file=outfile)", "    print('%d, 1010' % (len(myattrs) + len(depvarkeys) + 15,), file=outfile)"),
  (S, None, _FFI, "    print(delim.join(['1' for k in depvarkeys]), file=outfile)", "    print(delim.join(['1'] * len(depvarkeys)), file=outfile)"),
]
CATALOGUE['C01'] += [
  (S, None, 'core/_files.py', "        if isinstance(self, netcdf):\n            if unlimited:\n                ndv = self.createDimension(key, None)\n            else:\n                ndv = self.createDimension(key, dimlen)\n        else:\n            ndv = self.createDimension(key, dimlen)\n            ndv.setunlimited(unlimited)", "        ondisk = isinstance(self, netcdf)\n        ndv = self.createDimension(\n            key, None if (ondisk and unlimited) else dimlen)\n        if not ondisk:\n            ndv.setunlimited(unlimited)"),
  (F, 'R-UNLIM', 'core/_files.py', "        if isinstance(self, netcdf):\n            if unlimited:\n                ndv = self.createDimension(key, None)\n            else:\n                ndv = self.createDimension(key, dimlen)\n        else:\n            ndv = self.createDimension(key, dimlen)\n            ndv.setunlimited(unlimited)", "        ondisk = isinstance(self, netcdf)\n        ndv = self.createDimension(\n            key, None if unlimited else dimlen)\n        if not ondisk:\n            ndv.setunlimited(unlimited)"),
]

# ---- second group of defects repaired after the fifth refactoring wave
_URD = 'camxfiles/uamiv/Read.py'
_UMM = 'camxfiles/uamiv/Memmap.py'
_BP = 'geoschemfiles/_bpch.py'
CATALOGUE['C13'] += [
  (F, 'R-SQUEEZEIDX', _URD, "                return self.getArray(nspec=spcnames.index(\n                    spc)).squeeze().reshape(ntimes, nlays, nrows, ncols)\n\n            def decor(spc):\n                return dict(units=units, var_desc=spc,\n", "                return self.getArray(\n                    nspec=spcnames.index(spc)).squeeze()[:, newaxis, :, :]\n\n            def decor(spc):\n                return dict(units=units, var_desc=spc,\n"),
  (S, None, _URD, "                return self.getArray(nspec=spcnames.index(\n                    spc)).squeeze().reshape(ntimes, nlays, nrows, ncols)\n\n            def decor(spc):\n                return dict(units=units, var_desc=spc,\n", "                vals = self.getArray(nspec=spcnames.index(spc))\n                return vals.reshape(ntimes, nlays, nrows, ncols)\n\n            def decor(spc):\n                return dict(units=units, var_desc=spc,\n"),
]
CATALOGUE['C12'] += [
  (F, 'R-STEPDATE', _UMM, "        self.TSTEP = (nsecs // 3600 * 10000 + nsecs % 3600 // 60 * 100 +\n                      nsecs % 60)", "        self.TSTEP = etflagv[0, 0, 1] - tflagv[0, 0, 1]"),
  (F, 'R-STEPDATE', _UMM, "        self.TSTEP = (nsecs // 3600 * 10000 + nsecs % 3600 // 60 * 100 +\n                      nsecs % 60)", "        self.TSTEP = int(etflagv[0, 0, 1]) - int(tflagv[0, 0, 1])"),
]
CATALOGUE['C18'] += [
  (F, 'R-TABLESTRIP', _BP, "diaginfo.read().strip('\\n').split('\\n')", "diaginfo.read().strip().split('\\n')"),
  (F, 'R-TABLESTRIP', _BP, "diaginfo.read().strip('\\n').split('\\n')", "diaginfo.read().lstrip().split('\\n')"),
  (S, None, _BP, "diaginfo.read().strip('\\n').split('\\n')", "diaginfo.read().rstrip('\\n').split('\\n')"),
  (F, 'R-REPEATEND', _BP, "                if (header[7], header[8]) != (first_header[7], first_header[8]):\n", "                if offset == file_size:\n"),
  (S, None, _BP, "                if (header[7], header[8]) != (first_header[7], first_header[8]):\n", "                if not (header[7], header[8]) == (first_header[7], first_header[8]):\n"),
]
CATALOGUE['C16'] += [
  (F, 'R-TIMEDIR', 'core/_files.py', "            out = np.interp(x, ixp, iidx)\n", "            out = np.interp(x, xp, idx)\n"),
  (F, 'R-TIMEDIR', 'core/_files.py', "            ixp, iidx = xp[::-1], idx[::-1]\n", "            ixp, iidx = xp[::-1], idx\n"),
  (F, 'R-TIMEDIR', 'core/_files.py', "        if xp.size > 1 and xp[0] > xp[-1]:\n            ixp, iidx = xp[::-1], idx[::-1]\n        else:\n            ixp, iidx = xp, idx\n", "        ixp, iidx = xp, idx\n"),
  (S, None, 'core/_files.py', "        if xp.size > 1 and xp[0] > xp[-1]:\n", "        if xp.size > 1 and xp[-1] < xp[0]:\n"),
]

CATALOGUE['C02'] += [
  (F, 'R-STOPPLUS1', 'core/_functions.py', "        slicedef.append(slicedef[-1] + 1 or None)", "        slicedef.append(slicedef[-1] + 1)"),
  (S, None, 'core/_functions.py', "        slicedef.append(slicedef[-1] + 1 or None)", "        slicedef.append((slicedef[-1] + 1) or None)"),
]

CATALOGUE['C01'] += [
  (S, None, 'core/_files.py', "        if isinstance(self, netcdf):\n            if unlimited:\n                ndv = self.createDimension(key, None)\n            else:\n                ndv = self.createDimension(key, dimlen)\n        else:\n            ndv = self.createDimension(key, dimlen)\n            ndv.setunlimited(unlimited)", "        ondisk = isinstance(self, netcdf)\n        if ondisk and unlimited:\n            newlen = None\n        else:\n            newlen = dimlen\n        ndv = self.createDimension(key, newlen)\n        if not ondisk:\n            ndv.setunlimited(unlimited)"),
  (F, 'R-UNLIM', 'core/_files.py', "        if isinstance(self, netcdf):\n            if unlimited:\n                ndv = self.createDimension(key, None)\n            else:\n                ndv = self.createDimension(key, dimlen)\n        else:\n            ndv = self.createDimension(key, dimlen)\n            ndv.setunlimited(unlimited)", "        ondisk = isinstance(self, netcdf)\n        if unlimited:\n            newlen = None\n        else:\n            newlen = dimlen\n        ndv = self.createDimension(key, newlen)\n        if not ondisk:\n            ndv.setunlimited(unlimited)"),
]

SEED_VARIANTS = {
 'C01': [('C01-x2', 'R-EVALDIMS'), ('C01-x3', 'R-NEWLEN'), ('C01-y1', 'R-STALEVAR'), ('C01-y3', 'R-GUARDOBJ'), ('C01-z1', 'R-ATTRLISTKIND'), ('C01-z3', 'R-NEWONLY'), ('C01-q1', 'R-NEWLEN'), ('C01-q2', 'R-NDSTORE')],
 'C02': [('C02-x3', 'R-FUZZYDIM'), ('C02-x2', 'R-ZIPAXIS'), ('C02-x1', 'R-FILLLOOK'), ('C02-y2', 'R-DTYPEFULL'), ('C02-z1', 'R-NONEGUARD'), ('C02-z2', 'R-ADVIDX'), ('C02-z3', 'R-NONEGUARD'), ('C02-q1', 'R-STOPPLUS1'), ('C02-q2', 'R-STOPPLUS1'), ('C02-q3', 'R-SELECTORRO'), ('C04-q1', 'R-ADVIDX')],
 'C03': [('C03-x2', 'R-FUZZYDIM'), ('C03-x3', 'R-CONVCALL'), ('C03-y2', 'R-EDGEORDER'), ('C01-z2', 'R-KEEPDIMS'), ('C03-z1', 'R-TDSECONDS'), ('C03-z3', 'R-CONVCALL'), ('C01-q3', 'R-AXISORDER')],
 'C04': [('C04-x1', 'R-MACONCAT'), ('C04-x3', 'R-UNLIM'), ('C04-y1', 'R-STACKDEFAULT'), ('C04-z1', 'R-TIMEUNITS')],
 'C05': [('C05-x3', 'R-QMUT'), ('C05-y2', 'R-CLOSELOCAL'), ('C05-z1', 'R-QMUT'), ('C05-z3', 'R-QMUT'), ('C05-q3', 'R-ALIAS')],
 'C06': [('C06-x1', 'R-PASSONLY'), ('C06-x3', 'R-MASKDEFPARSE'), ('C06-y2', 'R-MASKTABLE'), ('C06-y3', 'R-COORDDECL'), ('C06-z1', 'R-VALUESASIS'), ('C06-z3', 'R-SEQLEFT'), ('C06-q2', 'R-EVALSTORE'), ('C06-q3', 'R-COORDDEFAULT')],
 'C07': [('C07-x3', 'R-FILLZERO'), ('C07-x1', 'R-NCATTRAPI'), ('C07-y2', 'R-ATTRSKIP'), ('C07-y3', 'R-DATAWRITE'), ('C07-z1', 'R-DTYPEFULL'), ('C07-q1', 'R-TYPECODE'), ('C07-q2', 'R-SYNCED'), ('C07-q3', 'R-AUTOSCALE')],
 'C08': [('C09-x2', 'R-CARRY'), ('C08-x3', 'R-VARORDER'), ('C09-m3', 'R-ONESTEP'), ('C08-y1', 'R-STYLEFLAG'), ('C08-y2', 'R-SCALARVIEW'), ('C08-y3', 'R-SIZEDTEXT'), ('C08-z2', 'R-YEAREND'), ('C08-z3', 'R-HDRCOUNT'), ('C09-z1', 'R-PERSTEP')],
 'C09': [('C09-y3', 'R-FRAME'), ('C09-q2', 'R-NZMIN')],
 'C10': [('C10-x1', 'R-STARTSYNC'), ('C10-x2', 'R-DIMRESET'), ('C10-y2', 'R-VARLISTWIDTH'), ('C10-y3', 'R-TFLAGUNLISTED'), ('C10-z1', 'R-COUNTATTR'), ('C10-z2', 'R-STARTSET'), ('C11-z3', 'R-FLAGPERTIME')],
 'C11': [('C11-x1', 'R-TIMESRC'), ('C12-x3', 'R-STEPSET')],
 'C12': [('C12-x1', 'R-CALSRC'), ('C12-y1', 'R-TIMEPREC'), ('C12-y2', 'R-TIMESTORE'), ('C11-y1', 'R-HMSALL'), ('C11-z1', 'R-HMSRADIX'), ('C12-z2', 'R-HMSRADIX'), ('C12-q2', 'R-TZDROP')],
 'C13': [('C13-x1', 'R-TIMEORIGIN'), ('C13-x2', 'R-ONESHOT'), ('C13-x3', 'R-STEPTILE'), ('C13-y1', 'R-STEPID'), ('C13-y2', 'R-STEPCOUNT'), ('C13-z1', 'R-SCANSIBS'), ('C13-z2', 'R-SCANSIBS'), ('C13-z3', 'R-DEFSHAPE'), ('C08-q1', 'R-STEPID'), ('C09-q1', 'R-STEPLEN'), ('C13-q1', 'R-FRESHARRAY'), ('C13-q3', 'R-SPCBOUND')],
 'C14': [('C14-y1', 'R-FIRSTSTEP'), ('C14-y2', 'R-STRIDEFLAGS'), ('C14-z1', 'R-PARTIALRAISE'), ('C14-z2', 'R-SCANEXACT'), ('C14-z3', 'R-NOHANDOVER'), ('C14-q1', 'R-STRIDEFLAGS'), ('C14-q3', 'R-FIRSTSTEP')],
 'C15': [('C15-x2', 'R-NOSTATE'), ('C15-x3', 'R-ISMINEPURE'), ('C15-y2', 'R-ONEOWNER'), ('C15-z3', 'R-MODSTATE'), ('C15-q3', 'R-OWNOPTS')],
 'C16': [('C16-x1', 'R-BOUNDSBREAK'), ('C16-x2', 'R-QUERYDTYPE'), ('C16-x3', 'R-EDGEPAIR'), ('C16-y2', 'R-EXACT'), ('C16-y3', 'R-RANGECHECK'), ('C12-y3', 'R-CALSRC'), ('C16-z1', 'R-RESBOTH'), ('C16-z2', 'R-EDGECLAMP'), ('C16-z3', 'R-TZDROP'), ('C16-q2', 'R-RANGECHECK'), ('C16-q3', 'R-NOTOL')],
 'C17': [('C17-x1', 'R-NORMSAME'), ('C17-x2', 'R-SIGMADEF'), ('C17-x3', 'R-COORDSEL'), ('C17-y2', 'R-ATTRALIAS'), ('C17-y3', 'R-NOSHORTCUT'), ('C17-z1', 'R-ARGORDER'), ('C17-z2', 'R-RESTYPE'), ('C17-q2', 'R-LOGPAIR'), ('C17-q3', 'R-CONVEDGES')],
 'C18': [('C18-x2', 'R-PIECEORDER'), ('C18-x3', 'R-REGALL'), ('C18-y1', 'R-REWINDCOPY'), ('C18-y2', 'R-WINDOW3'), ('C18-y3', 'R-COLTILE'), ('C18-z1', 'R-RESERVEDKEEP'), ('C18-z2', 'R-DIMPERBLOCK'), ('C18-z3', 'R-GROUPFIRST'), ('C18-q1', 'R-STARTAXIS'), ('C18-q2', 'R-TAUKEY')],
 'C19': [('C19-x2', 'R-MISSPARSE'), ('C19-x3', 'R-LINECOUNT'), ('C19-y1', 'R-ENCODING'), ('C19-y2', 'R-INDEPSRC'), ('C19-y3', 'R-FALSYDEFAULT'), ('C19-z1', 'R-SAMEINDEX'), ('C19-z2', 'R-NAMESPLIT'), ('C19-z3', 'R-DATEDEFAULT'), ('C19-q2', 'R-MODSTATE'), ('C19-q3', 'R-VALSASREAD')],
 'C20': [('C20-x3', 'R-ARLWIDTH'), ('C20-y2', 'R-STAMPFMT'), ('C20-y3', 'R-KSUM'), ('C20-z1', 'R-ABSMAX'), ('C20-z2', 'R-UNPACKPURE'), ('C20-z3', 'R-VGTXT'), ('C20-q1', 'R-PRECAFTER'), ('C20-q2', 'R-STAMPFMT')],
}


def _patch_variant(seed):
    """(relpath under src/PseudoNetCDF, olds, news) of a single-file patch, or None"""
    path = os.path.join(os.path.dirname(os.path.dirname(os.path.abspath(__file__))), 'seeded', seed, 'patch.diff')
    if not os.path.isfile(path):
        return None
    files, olds, news, cur_o, cur_n = [], [], [], None, None
    for line in open(path, encoding='utf-8', errors='replace').read().split('\n'):
        if line.startswith('+++ b/'):
            files.append(line[6:])
        elif line.startswith('@@'):
            if cur_o is not None:
                olds.append(''.join(cur_o)); news.append(''.join(cur_n))
            cur_o, cur_n = [], []
        elif cur_o is not None and not line.startswith(('diff ', 'index ', '--- ', '+++ ', '\\')):
            if line.startswith('-'):
                cur_o.append(line[1:] + '\n')
            elif line.startswith('+'):
                cur_n.append(line[1:] + '\n')
            elif line.startswith(' '):
                cur_o.append(line[1:] + '\n'); cur_n.append(line[1:] + '\n')
            elif line == '':
                pass
    if cur_o is not None:
        olds.append(''.join(cur_o)); news.append(''.join(cur_n))
    if len(files) != 1 or not files[0].startswith('src/PseudoNetCDF/'):
        return None
    return files[0][len('src/PseudoNetCDF/'):], tuple(olds), tuple(news)


for _p, _lst in SEED_VARIANTS.items():
    for _seed, _rule in _lst:
        _v = _patch_variant(_seed)
        if _v is not None:
            CATALOGUE.setdefault(_p, []).append((F, _rule, _v[0], _v[1], _v[2]))

def _findings(prop, overlay):
    warnings.simplefilter('ignore')
    mod = importlib.import_module('pncstatic.rules.%s' % prop.lower())
    src = engine.Source(overlay=overlay)
    ctx = report.Ctx(prop, 'quick', src, quiet=True)
    try:
        mod.run(ctx)
        from . import generic
        generic.run(ctx)
    except engine.AnalysisError as e:
        return None, str(e)
    return set((f.rule, f.relpath, f.func, f.stmt) for f in ctx.findings), None


def _one(args):
    prop, i, entry, base = args
    kind, rule, rp, old, new = entry
    src = engine.Source()
    text = src.text(rp)
    olds, news = (old, new) if isinstance(old, tuple) else ((old,), (new,))     # several edits of one file form one variant
    if any(text.count(o) < 1 for o in olds):
        return (prop, i, 'skipped', 'anchor text not present any more')
    mutated = text
    for o, n_ in zip(olds, news):
        mutated = mutated.replace(o, n_, 1)
    try:
        compile(mutated, rp, 'exec')
    except SyntaxError as e:
        return (prop, i, 'skipped', 'variant does not compile: %s' % e)
    got, err = _findings(prop, {rp: mutated})
    if got is None:
        return (prop, i, 'error' if kind == S else ('ok-exit2' if False else 'error'), 'ANALYSIS-ERROR on variant: %s' % err)
    new_f = got - base
    if kind == F:
        if any(f[0] == rule for f in new_f):
            return (prop, i, 'ok', 'fired %s' % rule)
        return (prop, i, 'FAIL', 'breaking variant did not fire %s (new findings: %s)' % (rule, sorted(f[0] for f in new_f)))
    if new_f:
        return (prop, i, 'FAIL', 'preserving variant raised %s' % sorted((f[0], f[3][:50]) for f in new_f))
    return (prop, i, 'ok', 'silent')


def run(ctx, seed=0, jobs=16):
    """run the catalogue entries of ctx.prop; records checker sensitivity in ctx.analysed; raises on a wrong outcome"""
    prop = ctx.prop
    entries = CATALOGUE.get(prop, [])
    if not entries:
        return
    base, err = _findings(prop, {})
    if base is None:
        raise engine.AnalysisError('self-test baseline failed: %s' % err)
    tasks = [(prop, i, e, base) for i, e in enumerate(entries)]
    if jobs > 1 and len(tasks) > 1:
        with multiprocessing.Pool(min(jobs, len(tasks))) as pool:
            res = pool.map(_one, tasks)
    else:
        res = [_one(t) for t in tasks]
    ok = [r for r in res if r[2] == 'ok']
    skipped = [r for r in res if r[2] == 'skipped']
    bad = [r for r in res if r[2] not in ('ok', 'skipped')]
    ctx.analysed['selftest variants (checker sensitivity, not property coverage)'] = dict(
        total=len(res), fired_or_silent_as_expected=len(ok), skipped=len(skipped), wrong=len(bad),
        breaking=sum(1 for e in entries if e[0] == F), preserving=sum(1 for e in entries if e[0] == S))
    ctx.notes.append('self-test: %d/%d variants behaved as expected (%d skipped)' % (len(ok), len(res), len(skipped)))
    for r in skipped:
        ctx.say('   SELFTEST skipped #%d: %s' % (r[1], r[3]))
    if bad:
        for r in bad:
            ctx.say('   SELFTEST wrong #%d: %s' % (r[1], r[3]))
        raise engine.AnalysisError('rule self-test failed for %s: %s' % (prop, '; '.join('#%d %s' % (r[1], r[3][:120]) for r in bad)))
