"""E1/E2: source model of /repo/src/PseudoNetCDF built with the stdlib ast.

Nothing from the repository is imported or executed.  An *overlay*
{relpath: text} replaces files in memory (used by the self-test so that
mutants never touch the disk).
"""
import ast
import os
import re
import warnings

PKGROOT = os.environ.get('PNC_SRC_ROOT', '/repo/src/PseudoNetCDF')


class AnalysisError(Exception):
    """Anchor vanished / construct not understood: exit 2, never a verdict."""


def norm(node):
    """Normalised statement text (no line numbers, canonical spacing)."""
    if isinstance(node, str):
        return ' '.join(node.split())
    try:
        s = ast.unparse(node)
    except Exception:
        s = ast.dump(node)
    return ' '.join(s.split())


def head(node, n=140):
    """First line(s) of a statement's normalised text, body-less for compounds."""
    if isinstance(node, (ast.If, ast.While)):
        return 'if/while ' + norm(node.test)[:n]
    if isinstance(node, ast.For):
        return ('for %s in %s' % (norm(node.target), norm(node.iter)))[:n]
    if isinstance(node, (ast.FunctionDef, ast.ClassDef)):
        return 'def ' + node.name
    if isinstance(node, ast.With):
        return 'with ' + ', '.join(norm(i) for i in node.items)[:n]
    if isinstance(node, ast.Try):
        return 'try'
    return norm(node)[:n]


class Module(object):
    def __init__(self, relpath, text, canon=True):
        self.relpath = relpath
        self.text = text
        self.renamed = 0
        with warnings.catch_warnings():
            warnings.simplefilter('ignore')
            self.tree = ast.parse(text, filename=relpath)
        self.normalized = {}
        if canon:
            # behaviour-preserving rewrites toward the pinned spelling (new helpers inlined, new constants substituted, locals
            # renamed back); the identity when the text equals the pinned text.  See normalize.py.
            from . import normalize as _normalize
            try:
                self.normalized = _normalize.normalize(relpath, text, self.tree)
            except RecursionError:
                self.tree = ast.parse(text, filename=relpath)
        for parent in ast.walk(self.tree):
            for child in ast.iter_child_nodes(parent):
                child._parent = parent
        self._index()

    def _index(self):
        self.functions = {}   # qualname -> FunctionDef
        self.classes = {}     # name -> ClassDef
        self.assigns = {}     # module-level name -> value node (last one)
        self.imports = {}     # local name -> (module, attr or None)

        def visit(body, prefix, cls):
            for st in body:
                if isinstance(st, (ast.FunctionDef, ast.AsyncFunctionDef)):
                    q = prefix + st.name
                    st._qualname = q
                    st._class = cls
                    self.functions[q] = st
                    visit(st.body, q + '.<locals>.', None)
                elif isinstance(st, ast.ClassDef):
                    q = prefix + st.name
                    st._qualname = q
                    self.classes[q] = st
                    visit(st.body, q + '.', st)
                elif isinstance(st, (ast.If, ast.Try, ast.With, ast.For, ast.While)):
                    for fld in ('body', 'orelse', 'finalbody'):
                        visit(getattr(st, fld, []) or [], prefix, cls)
                    for h in getattr(st, 'handlers', []) or []:
                        visit(h.body, prefix, cls)
        visit(self.tree.body, '', None)
        for st in self.tree.body:
            if isinstance(st, ast.Assign):
                for t in st.targets:
                    if isinstance(t, ast.Name):
                        self.assigns[t.id] = st.value
                    elif isinstance(t, ast.Tuple) and isinstance(st.value, ast.Tuple) \
                            and len(t.elts) == len(st.value.elts):
                        for a, b in zip(t.elts, st.value.elts):
                            if isinstance(a, ast.Name):
                                self.assigns[a.id] = b
            elif isinstance(st, ast.AnnAssign) and isinstance(st.target, ast.Name) and st.value:
                self.assigns[st.target.id] = st.value
        for st in ast.walk(self.tree):
            if isinstance(st, ast.Import):
                for a in st.names:
                    self.imports[a.asname or a.name.split('.')[0]] = (a.name if a.asname else a.name.split('.')[0], None)
            elif isinstance(st, ast.ImportFrom):
                mod = ('.' * st.level) + (st.module or '')
                for a in st.names:
                    self.imports[a.asname or a.name] = (mod, a.name)

    def func(self, qualname):
        f = self.functions.get(qualname)
        if f is None:
            raise AnalysisError('anchor vanished: function %s in %s' % (qualname, self.relpath))
        return f

    def cls(self, name):
        c = self.classes.get(name)
        if c is None:
            raise AnalysisError('anchor vanished: class %s in %s' % (name, self.relpath))
        return c

    def has_func(self, q):
        return q in self.functions

    def numpy_aliases(self):
        """local names bound to the numpy module"""
        return set(k for k, (m, a) in self.imports.items()
                   if a is None and m == 'numpy')

    def numpy_names(self):
        """local name -> numpy attribute imported with 'from numpy import x'"""
        return dict((k, a) for k, (m, a) in self.imports.items()
                    if a is not None and m in ('numpy', 'numpy.ma'))


class Source(object):
    def __init__(self, root=None, overlay=None, canon=True):
        self.root = root or PKGROOT
        self.canon = canon
        self.overlay = dict(overlay or {})
        self._mods = {}
        self._all = None

    def relpaths(self):
        if self._all is None:
            out = []
            for d, dn, fn in os.walk(self.root):
                dn[:] = sorted(x for x in dn if x != '__pycache__')
                for f in sorted(fn):
                    if f.endswith('.py'):
                        out.append(os.path.relpath(os.path.join(d, f), self.root))
            for k in self.overlay:
                if k not in out:
                    out.append(k)
            self._all = out
        return self._all

    def text(self, relpath):
        if relpath in self.overlay:
            return self.overlay[relpath]
        p = os.path.join(self.root, relpath)
        if not os.path.isfile(p):
            raise AnalysisError('anchor vanished: file %s' % relpath)
        with open(p, encoding='utf-8', errors='replace') as f:
            return f.read()

    def mod(self, relpath):
        m = self._mods.get(relpath)
        if m is None:
            try:
                m = Module(relpath, self.text(relpath), canon=getattr(self, 'canon', True))
            except SyntaxError as e:
                raise AnalysisError('cannot parse %s: %s' % (relpath, e))
            self._mods[relpath] = m
        return m

    def all_modules(self, skip_tests=True):
        for rp in self.relpaths():
            if skip_tests and (rp.startswith('test/') or rp.startswith('testcase/')):
                continue
            yield self.mod(rp)

    # ---- class hierarchy (E1) -------------------------------------------
    def resolve_import(self, mod, name):
        """Resolve a name imported into *mod* to (relpath, name) inside the
        package, following re-exports (sci_var, core/__init__ ...)."""
        seen = set()
        cur_mod, cur_name = mod, name
        for _ in range(8):
            if (cur_mod.relpath, cur_name) in seen:
                return None
            seen.add((cur_mod.relpath, cur_name))
            if cur_name in cur_mod.classes or cur_name in cur_mod.functions \
                    or cur_name in cur_mod.assigns:
                if cur_name not in cur_mod.imports:
                    return (cur_mod.relpath, cur_name)
            imp = cur_mod.imports.get(cur_name)
            if imp is None:
                return None
            m, a = imp
            if a is None:
                return None
            rp = self._modpath(cur_mod.relpath, m)
            if rp is None:
                return None
            # "from .pkg import name" where name is a submodule
            tgt = self.mod(rp)
            cur_mod, cur_name = tgt, a
            if a == '*':
                return None
        return None

    def _modpath(self, from_rel, modname):
        if modname.startswith('.'):
            level = len(modname) - len(modname.lstrip('.'))
            rest = modname.lstrip('.')
            base = os.path.dirname(from_rel)
            for _ in range(level - 1):
                base = os.path.dirname(base)
            parts = [p for p in ([base] if base else []) + (rest.split('.') if rest else []) if p]
        elif modname == 'PseudoNetCDF' or modname.startswith('PseudoNetCDF.'):
            parts = modname.split('.')[1:]
        else:
            return None
        cand = os.path.join(*parts) + '.py' if parts else '__init__.py'
        cand2 = os.path.join(*(parts + ['__init__.py'])) if parts else '__init__.py'
        for c in (cand, cand2):
            if c in self.overlay or os.path.isfile(os.path.join(self.root, c)):
                return c
        return None

    def class_bases(self, relpath, clsname):
        """-> list of (relpath, name) for statically known bases, or ('<ext>', text)."""
        m = self.mod(relpath)
        c = m.cls(clsname)
        out = []
        for b in c.bases:
            if isinstance(b, ast.Name):
                if b.id in m.classes and b.id not in m.imports:
                    out.append((relpath, b.id))
                    continue
                r = self.resolve_import(m, b.id)
                if r is not None and r[1] in self.mod(r[0]).classes:
                    out.append(r)
                    continue
                if r is not None and r[1] in self.mod(r[0]).assigns:
                    out.append(('<ext>', r[1]))
                    continue
            out.append(('<ext>', norm(b)))
        return out

    def mro(self, relpath, clsname):
        """C3 linearisation over statically known classes; externals kept as
        ('<ext>', text) leaves."""
        def lin(key):
            if key[0] == '<ext>':
                return [key]
            bases = self.class_bases(*key)
            seqs = [lin(b) for b in bases] + [list(bases)]
            res = [key]
            while True:
                seqs = [s for s in seqs if s]
                if not seqs:
                    return res
                for s in seqs:
                    cand = s[0]
                    if not any(cand in t[1:] for t in seqs):
                        break
                else:
                    raise AnalysisError('inconsistent MRO for %s' % (key,))
                res.append(cand)
                for s in seqs:
                    if s[0] == cand:
                        del s[0]
        return lin((relpath, clsname))

    def class_attr(self, relpath, clsname, attr):
        """Resolve attribute *attr* along the MRO.  Returns (relpath, clsname,
        node) where node is a FunctionDef or the value node of a class-level
        assignment (aliases like ``slice = sliceDimensions`` are followed
        inside the defining class)."""
        for key in self.mro(relpath, clsname):
            if key[0] == '<ext>':
                continue
            m = self.mod(key[0])
            c = m.cls(key[1])
            found = None
            for st in c.body:
                if isinstance(st, ast.FunctionDef) and st.name == attr:
                    found = st
                elif isinstance(st, ast.Assign):
                    for t in st.targets:
                        if isinstance(t, ast.Name) and t.id == attr:
                            found = st.value
            if found is not None:
                if isinstance(found, ast.Name):
                    # alias to another attribute of the same class body
                    for st in c.body:
                        if isinstance(st, ast.FunctionDef) and st.name == found.id:
                            return (key[0], key[1], st)
                return (key[0], key[1], found)
        return None


def iter_stmts(body):
    """All statements nested in *body* (not descending into nested defs)."""
    for st in body:
        yield st
        if isinstance(st, (ast.FunctionDef, ast.AsyncFunctionDef, ast.ClassDef)):
            continue
        for fld in ('body', 'orelse', 'finalbody'):
            sub = getattr(st, fld, None)
            if sub:
                for x in iter_stmts(sub):
                    yield x
        for h in getattr(st, 'handlers', []) or []:
            for x in iter_stmts(h.body):
                yield x


def walk_expr(node):
    """ast.walk that does not descend into nested function/class definitions."""
    todo = [node]
    while todo:
        n = todo.pop()
        yield n
        for c in ast.iter_child_nodes(n):
            if isinstance(c, (ast.FunctionDef, ast.AsyncFunctionDef, ast.ClassDef, ast.Lambda)):
                continue
            todo.append(c)


def calls_in(node):
    return [n for n in walk_expr(node) if isinstance(n, ast.Call)]


def dotted(node):
    """a.b.c -> 'a.b.c' for Name/Attribute chains, else None."""
    parts = []
    while isinstance(node, ast.Attribute):
        parts.append(node.attr)
        node = node.value
    if isinstance(node, ast.Name):
        parts.append(node.id)
        return '.'.join(reversed(parts))
    return None


def const_str(node):
    if isinstance(node, ast.Constant) and isinstance(node.value, str):
        return node.value
    return None


def kw(call, name, default=None):
    for k in call.keywords:
        if k.arg == name:
            return k.value
    return default


def enclosing_function(node):
    p = getattr(node, '_parent', None)
    while p is not None and not isinstance(p, (ast.FunctionDef, ast.AsyncFunctionDef)):
        p = getattr(p, '_parent', None)
    return p


def parent_chain(node):
    p = getattr(node, '_parent', None)
    while p is not None:
        yield p
        p = getattr(p, '_parent', None)
