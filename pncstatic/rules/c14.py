"""C14 - truncated binary files: the file-size arithmetic of the memory-mapped readers (structural necessary conditions only).

R-BLOCKSIZE    uamiv / lateral_boundary: the number of 4-byte words the step count divides by (`data_block_size`) equals, as a polynomial
               in nx, ny, nz, nspec, the item size of the structured type the data are mapped with (`data_block_fmt`) / 4.
R-WHOLEBLOCKS  every anchored reader derives its record/step count from the file (or mapping) size by floor division, or by true division
               followed by an integrality test that raises; no rounding up (round, ceil, + 0.5) anywhere in that arithmetic.
R-PARTIALRAISE uamiv: `ntimes` computed by true division is compared with int(ntimes) and a ValueError is raised before it is used.
R-MAPCOUNT     bpch: the blocks are mapped with shape=(itemcount,), i.e. exactly the whole blocks counted.
R-WINDCOUNT    (shared with C13) wind: bytes per step = header + 2 x layers x record + dummy.

NOT decided: what happens at every byte offset of a cut (decided at run time by numpy.memmap's own size validation and by reshape).
"""
import ast
import re
from fractions import Fraction

from ..engine import AnalysisError, dotted, iter_stmts, norm, kw, const_str
from ..report import Finding
from ..sizealg import Poly, to_poly
from .. import dtypes as DT
from .. import api
from . import c08, c13

LEVEL_TEXT = (
    "Static necessary conditions on the file-size arithmetic of the memory-mapped readers (ast, dtype evaluator, size algebra): the divisor "
    "of the step count is the size of the mapped block type; counts come from floor division or from a true division guarded by an "
    "integrality test that raises; nothing rounds up; bpch maps exactly the counted blocks; the wind step size includes the dummy record. "
    "A wrong block size or a rounded-up count makes a file cut at a step boundary expose shifted or fabricated steps. What each reader does "
    "at every other byte offset is decided at run time by numpy.memmap / reshape validation and is not decided here.")

CAMX = 'camxfiles/'
ROUNDERS = ('round', 'np.round', 'np.ceil', 'math.ceil', 'np.rint', 'np.around', 'ceil')


def _size_names(fn):
    """names that hold the file/mapping size"""
    out = set()
    for st in iter_stmts(fn.body):
        if isinstance(st, ast.Assign) and isinstance(st.targets[0], ast.Name):
            t = norm(st.value)
            if t.endswith('.tell()') or 'getsize(' in t or '.st_size' in t or t.endswith('.length'):
                out.add(st.targets[0].id)
    return out


from .. import paths as _paths
KEEP = ('size', 'offset', 'data_block_size', 'self', 'rf', 'mint', 'itemcount', 'ntimes')


def check_count_arith(ctx, rp, q, count_names):
    """R-WHOLEBLOCKS for the assignments to count_names in function q"""
    m = ctx.src.mod(rp)
    fn = m.func(q)
    where = 'src/PseudoNetCDF/%s %s' % (rp, q)
    n = 0
    for st in iter_stmts(fn.body):
        if not (isinstance(st, ast.Assign) and isinstance(st.targets[0], ast.Name) and st.targets[0].id in count_names):
            continue
        # the quotient with temporaries substituted: a count computed in several statements is the same arithmetic
        v = _paths.subst(st.value, _paths.dominating_env(fn, st, keep=KEEP))
        t = norm(v)
        if not any(isinstance(x, ast.BinOp) and isinstance(x.op, (ast.Div, ast.FloorDiv)) for x in ast.walk(v)):
            continue
        n += 1
        rnd = [c for c in ast.walk(v) if isinstance(c, ast.Call) and dotted(c.func) in ROUNDERS]
        half = [x for x in ast.walk(v) if isinstance(x, ast.BinOp) and isinstance(x.op, ast.Add) and isinstance(x.right, ast.Constant) and x.right.value in (0.5, 1)
                and any(isinstance(y, ast.BinOp) and isinstance(y.op, (ast.Div, ast.FloorDiv)) for y in ast.walk(x.left))]
        if rnd or half:
            ctx.violation(Finding('R-WHOLEBLOCKS', rp, q, st, 'the count %s rounds up (%s): a file cut inside a step exposes that step, partly filled with whatever follows the cut' % (
                st.targets[0].id, norm(rnd[0] if rnd else half[0])[:50])))
            continue
        truediv = [x for x in ast.walk(v) if isinstance(x, ast.BinOp) and isinstance(x.op, ast.Div)]
        if truediv:
            # needs the integrality guard
            nm = st.targets[0].id
            guard = None
            for s2 in iter_stmts(fn.body):
                if isinstance(s2, ast.If) and s2.lineno > st.lineno and re.search(r'int\(%s\) != %s|%s != int\(%s\)|%s %% 1' % (nm, nm, nm, nm, nm), norm(s2.test)):
                    if any(isinstance(x, ast.Raise) for x in s2.body):
                        guard = s2
                        break
            if guard is not None:
                ctx.ok('R-WHOLEBLOCKS', '%s:%s' % (q, nm), where, 'true division guarded by `%s` -> raise' % norm(guard.test))
                ctx.ok('R-PARTIALRAISE', '%s:%s' % (q, nm), where, 'raises %s' % norm([x for x in guard.body if isinstance(x, ast.Raise)][0])[:60])
            else:
                # int() truncation of a true division is floor for positive sizes
                if isinstance(v, ast.Call) and dotted(v.func) == 'int':
                    ctx.ok('R-WHOLEBLOCKS', '%s:%s' % (q, nm), where, 'int() of a quotient of sizes: truncation keeps whole blocks only')
                else:
                    ctx.violation(Finding('R-PARTIALRAISE', rp, q, st, 'the count %s is a true quotient of sizes and no integrality test raises before it is used: a cut file yields a fractional '
                                          'number of steps' % nm))
        else:
            ctx.ok('R-WHOLEBLOCKS', '%s:%s' % (q, st.targets[0].id), where, 'floor division: %s' % t[:60])
    return n


def check_tstep_dims(ctx, rp, q):
    """the length given to the TSTEP dimension, temporaries substituted: a floor division, an int() of a guarded quotient, or a name
    that check_count_arith decides; a bare true division of counts makes a cut file show a fractional number of steps (the dimension is
    truncated, the time flags are not)"""
    m = ctx.src.mod(rp)
    fn = m.func(q)
    where = 'src/PseudoNetCDF/%s %s' % (rp, q)
    n = 0
    for c in ast.walk(fn):
        if not (isinstance(c, ast.Call) and isinstance(c.func, ast.Attribute) and c.func.attr == 'createDimension' and len(c.args) >= 2 and isinstance(c.args[0], ast.Constant)
                and c.args[0].value == 'TSTEP'):
            continue
        st = api.stmt_of(c)
        env = _paths.dominating_env(fn, st, keep=KEEP)
        v = _paths.subst(c.args[1], env)
        n += 1
        truediv = [x for x in ast.walk(v) if isinstance(x, ast.BinOp) and isinstance(x.op, ast.Div)]
        anydiv = [x for x in ast.walk(v) if isinstance(x, ast.BinOp) and isinstance(x.op, (ast.Div, ast.FloorDiv))]
        # an integrality test on the quotient (or a remainder test on its operands) that raises, before the dimension is created
        guarded = False
        qt = norm((truediv or anydiv or [v])[0])
        for s2 in iter_stmts(fn.body):
            if isinstance(s2, ast.If) and s2.lineno <= st.lineno and any(isinstance(x, ast.Raise) for x in s2.body):
                te = _paths.subst(s2.test, _paths.dominating_env(fn, s2, keep=KEEP))
                t = norm(te)
                # the remainder that is tested is the remainder of *this* quotient: same dividend, same divisor
                mods = [y for y in ast.walk(te) if isinstance(y, ast.BinOp) and isinstance(y.op, ast.Mod)]
                if any(norm(y.left) == norm(x.left) and norm(y.right) == norm(x.right) for y in mods for x in anydiv) or (truediv and qt in t):
                    guarded = True
        # is anything taken from the record table per step *without* the count (a stride over all records)?  Then a partial step
        # shows whatever the count is rounded to; where every access reshapes with the truncated count, numpy raises on access instead
        strided = [x for x in ast.walk(fn) if (isinstance(x, ast.Call) and dotted(x.func) == 'slice' and len(x.args) == 3 and isinstance(x.args[1], ast.Constant) and x.args[1].value is None) or
                   (isinstance(x, ast.Slice) and x.step is not None and x.upper is None and not isinstance(x.step, ast.Constant))]
        if guarded:
            ctx.ok('R-PARTIALRAISE', '%s:TSTEP' % q, where, 'a remainder / integrality test raises before the TSTEP dimension is created')
        elif strided and anydiv:
            ctx.violation(Finding('R-PARTIALRAISE', rp, q, st, 'the TSTEP dimension gets the quotient %s, the per-step values are taken with a stride over all records, and nothing raises when the records are '
                                  'not a whole number of steps: for a file cut at a record boundary inside a time step the dimension is truncated to the whole steps while the time flags still '
                                  'include the partial one' % qt[:60]), oid='%s:TSTEP' % q)
        elif truediv:
            ctx.undec('R-PARTIALRAISE', '%s:TSTEP' % q, where, 'unguarded true quotient %s: a cut at a record boundary inside a step opens with a truncated count; every access reshapes with that count '
                      '(numpy raises on access, run-time fact)' % qt[:50])
        else:
            ctx.ok('R-WHOLEBLOCKS', '%s:TSTEP' % q, where, 'TSTEP length %s has no true division' % norm(c.args[1])[:40])
    return n


AGGREGATES = ('unique', 'sum', 'count_nonzero', 'bincount', 'nonzero', 'diff', 'cumsum')


def check_first_step_only(ctx, rule='R-FIRSTSTEP'):
    """The records per time step are read off the FIRST step (index of the first record whose stamp differs from record 0).  A count
    derived from a statistic of the whole record table - number of distinct stamps, number of stamp changes - is the same on a whole
    file but changes when the file is cut inside a later step: the partial step counts as one more stamp, the quotient comes out too
    small and, when the remainder test happens to pass, the file opens with wrong layer and step counts instead of raising."""
    ctx.rule(rule, 'memmap met readers: the records per time step come from the first step boundary, not from a statistic over all records')
    n = 0
    for fmt, cls in (('temperature', 'temperature'), ('height_pressure', 'height_pressure'), ('one3d', 'one3d')):
        rp = CAMX + fmt + '/Memmap.py'
        m = ctx.src.mod(rp)
        fn = m.func(cls + '.__init__')
        where = 'src/PseudoNetCDF/%s %s.__init__' % (rp, cls)
        bad = None
        for st in iter_stmts(fn.body):
            if not (isinstance(st, ast.Assign) and len(st.targets) == 1 and isinstance(st.targets[0], ast.Name)):
                continue
            for b in ast.walk(st.value):
                if isinstance(b, ast.BinOp) and isinstance(b.op, (ast.FloorDiv, ast.Div)):
                    agg = [c for c in ast.walk(b.right) if isinstance(c, ast.Call) and (dotted(c.func) or getattr(c.func, 'attr', '') or '').split('.')[-1] in AGGREGATES]
                    names = set(n_.id for n_ in ast.walk(b.right) if isinstance(n_, ast.Name))
                    # or a name defined from such an aggregate
                    for nm_ in names:
                        for d_ in iter_stmts(fn.body):
                            if isinstance(d_, ast.Assign) and isinstance(d_.targets[0], ast.Name) and d_.targets[0].id == nm_:
                                agg += [c for c in ast.walk(d_.value) if isinstance(c, ast.Call) and (dotted(c.func) or getattr(c.func, 'attr', '') or '').split('.')[-1] in AGGREGATES
                                        and not isinstance(getattr(c, '_parent', None), ast.Subscript)]
                    if agg and 'record' in norm(b.left):
                        bad = bad or (st, agg[0])
        # ... or taken directly from the counts of np.unique over the stamps (sorted by value, not by position: counts[0] belongs to
        # the step with the smallest stamp, which after midnight is not the first step)
        for st in iter_stmts(fn.body):
            if isinstance(st, ast.Assign) and any(isinstance(c, ast.Call) and (dotted(c.func) or '').split('.')[-1] == 'unique' and kw(c, 'return_counts') is not None for c in ast.walk(st.value)):
                cnt_names = [t.id for tt_ in st.targets for t in (tt_.elts if isinstance(tt_, ast.Tuple) else [tt_]) if isinstance(t, ast.Name)]
                for s2 in iter_stmts(fn.body):
                    if isinstance(s2, ast.Assign) and isinstance(s2.targets[0], ast.Name) and s2.targets[0].id in ('lays', 'i', 'nlays') and \
                            any(isinstance(x, ast.Name) and x.id in cnt_names for x in ast.walk(s2.value)):
                        bad = bad or (s2, [c for c in ast.walk(st.value) if isinstance(c, ast.Call)][0])
        n += 1
        if bad:
            ctx.violation(Finding(rule, rp, cls + '.__init__', bad[0], 'the records per time step are computed as %s, i.e. from %s over the whole record table: a file cut inside a later step has one more '
                                  'stamp, the quotient is too small, and where the remainder test happens to pass the reader opens it with wrong layer / step counts instead of raising' % (
                                      norm(bad[0].value)[:60], norm(bad[1])[:40])), oid=fmt)
        else:
            ctx.ok(rule, fmt, where, 'no quotient of the record count by a whole-table statistic')
    return n


def check_strided_flags(ctx, rule='R-STRIDEFLAGS'):
    """wind: the per-step time flags are taken from the records selected for the counted whole steps; an open-ended strided slice over
    the whole mapping ([k::step]) also picks the header of a step the file was cut in, so TFLAG gets one more row than TSTEP, U and V"""
    ctx.rule(rule, 'wind memmap reader: no open-ended strided slice over the whole mapping feeds the time flags')
    rp = CAMX + 'wind/Memmap.py'
    m = ctx.src.mod(rp)
    n = 0
    bad = None
    for q, fn in sorted(m.functions.items()):
        if not q.startswith('wind.'):
            continue
        n += 1
        for x in ast.walk(fn):
            if isinstance(x, ast.Subscript) and isinstance(x.slice, ast.Slice) and x.slice.upper is None and x.slice.step is not None and not isinstance(x.slice.step, ast.Constant) \
                    and 'memmap' in norm(x.value):
                bad = bad or (q, x)
    # the variable getters of the other met readers: time flags come from the array reshaped to whole steps, not from a stride over
    # the raw mapping
    for fmt2, cls2 in (('temperature', 'temperature'), ('height_pressure', 'height_pressure')):
        rp2 = CAMX + fmt2 + '/Memmap.py'
        m2 = ctx.src.mod(rp2)
        for q, fn in sorted(m2.functions.items()):
            if not (q.startswith(cls2 + '.') and '__var_get' in q):
                continue
            n += 1
            for x in ast.walk(fn):
                if isinstance(x, ast.Subscript) and isinstance(x.slice, ast.Slice) and x.slice.upper is None and x.slice.step is not None and not isinstance(x.slice.step, ast.Constant) \
                        and 'memmap' in norm(x.value):
                    ctx.violation(Finding(rule, rp2, q, api.stmt_of(x), '%s takes every step-th record of the whole mapping without an upper bound: for a file cut at a record boundary inside a step the '
                                          'flag of the incomplete step is exposed, so TFLAG is longer than the TSTEP dimension' % norm(x)[:50]))
    if bad:
        ctx.violation(Finding(rule, rp, bad[0], api.stmt_of(bad[1]), '%s takes every step-th word of the whole mapping without an upper bound: for a file cut inside a step (past its time header) the flags of '
                              'the incomplete step are exposed although TSTEP counts only whole steps' % norm(bad[1])[:50]))
    else:
        ctx.ok(rule, 'wind', 'src/PseudoNetCDF/%s' % rp, '%d methods, no open-ended strided slice of the mapping' % n)


def check_blocksize(ctx, fmt, cls):
    rp = CAMX + fmt + '/Memmap.py'
    m = ctx.src.mod(rp)
    q = cls + '.__readheader'
    fn = m.func(q)
    where = 'src/PseudoNetCDF/%s %s' % (rp, q)
    b = c08.class_dtype_bindings(m, cls)
    b.update(c08.local_bindings(fn))

    def atom(n):
        if isinstance(n, ast.Name) and n.id in ('nx', 'ny', 'nz', 'nspec'):
            return n.id
        return None
    polyenv = {}
    for st in iter_stmts(fn.body):
        if isinstance(st, ast.Assign) and isinstance(st.targets[0], ast.Name) and st.targets[0].id.endswith('_block_size'):
            v = st.value
            try:
                # X.itemsize // 4 -> nbytes(X) / 4
                if isinstance(v, ast.BinOp) and isinstance(v.op, ast.FloorDiv) and isinstance(v.left, ast.Attribute) and v.left.attr == 'itemsize' and norm(v.right) == '4':
                    lay = DT.DtypeEnv(b, polyenv={'nx': Poly.atom('nx'), 'ny': Poly.atom('ny'), 'nz': Poly.atom('nz'), 'nspec': Poly.atom('nspec')}).eval(b[v.left.value.id])
                    polyenv[st.targets[0].id] = DT.nbytes(lay) * Poly.const(Fraction(1, 4))
                else:
                    polyenv[st.targets[0].id] = to_poly(v, dict(polyenv), atomize=atom)
            except Exception:
                polyenv[st.targets[0].id] = None
    got = polyenv.get('data_block_size')
    try:
        env = DT.DtypeEnv(b, polyenv={'nx': Poly.atom('nx'), 'ny': Poly.atom('ny'), 'nz': Poly.atom('nz'), 'nspec': Poly.atom('nspec')})
        # the block type is dict(names=['DATE'] + names, formats=[date_time_fmt] + [per-species type] * nspec): size = DATE + nspec * species
        dbf = b.get('data_block_fmt')
        fm = kw(dbf.args[0], 'formats') if isinstance(dbf, ast.Call) and dbf.args and isinstance(dbf.args[0], ast.Call) else None
        if fm is None or not (isinstance(fm, ast.BinOp) and isinstance(fm.op, ast.Add)):
            raise AnalysisError('formats of data_block_fmt not in the [date] + [species] * nspec form')
        date_t = fm.left.elts[0]
        spc_t = fm.right.left.elts[0]
        want = (DT.nbytes(env.eval(date_t)) + Poly.atom('nspec') * DT.nbytes(env.eval(spc_t)))
        want = want * Poly.const(Fraction(1, 4))
    except AnalysisError:
        raise
    except Exception as e:
        ctx.undec('R-BLOCKSIZE', fmt, where, 'block type not evaluated (%s: %s)' % (type(e).__name__, str(e)[:60]))
        return
    node = [st for st in iter_stmts(fn.body) if isinstance(st, ast.Assign) and norm(st.targets[0]) == 'data_block_size']
    if got is None or not node:
        ctx.undec('R-BLOCKSIZE', fmt, where, 'data_block_size not polynomial')
    elif got == want:
        ctx.ok('R-BLOCKSIZE', fmt, where, 'data_block_size = %s words = itemsize(data_block_fmt) / 4' % got)
    else:
        ctx.violation(Finding('R-BLOCKSIZE', rp, q, node[0], 'the step count divides by %s words, but one time block of the mapped type has %s words: the number of steps is wrong for every file '
                              '(or only whole for some), and a cut file is not recognised' % (got, want)))
    # the divisor really is data_block_size, the dividend size - offset
    cnt = [st for st in iter_stmts(fn.body) if isinstance(st, ast.Assign) and norm(st.targets[0]) == 'ntimes' and any(isinstance(x, ast.BinOp) for x in ast.walk(st.value))]
    if cnt:
        t = norm(_paths.subst(cnt[0].value, _paths.dominating_env(fn, cnt[0], keep=KEEP)))
        if 'data_block_size' in t and re.search(r'size - offset', t) and re.search(r'/ 4\.?\b', t):
            ctx.ok('R-BLOCKSIZE', fmt + ':quotient', where, t)
        else:
            ctx.violation(Finding('R-BLOCKSIZE', rp, q, cnt[0], 'the step count is %s, not (size - offset) / 4 / data_block_size' % t), oid=fmt + ':quotient')
    # the data are mapped from the same offset with the same type
    mm = [c for c in ast.walk(fn) if isinstance(c, ast.Call) and dotted(c.func) == 'memmap' and kw(c, 'dtype') is not None and norm(kw(c, 'dtype')) == 'data_block_fmt']
    if mm and kw(mm[0], 'offset') is not None and norm(kw(mm[0], 'offset')) == 'offset':
        ctx.ok('R-BLOCKSIZE', fmt + ':mapping', where, 'memmap(dtype=data_block_fmt, offset=offset)')
    else:
        ctx.violation(Finding('R-BLOCKSIZE', rp, q, api.stmt_of(mm[0]) if mm else fn.body[-1], 'the data are not mapped with data_block_fmt from the offset the count was computed with'), oid=fmt + ':mapping')


def run(ctx):
    for r, d in (('R-BLOCKSIZE', 'divisor of the step count = item size of the mapped block type (dtype/size algebra)'),
                 ('R-WHOLEBLOCKS', 'counts from floor division or guarded true division; nothing rounds up'),
                 ('R-PARTIALRAISE', 'a fractional count raises before it is used'),
                 ('R-MAPCOUNT', 'bpch maps exactly the counted whole blocks'),
                 ('R-WINDCOUNT', 'wind: bytes per time step include the dummy record')):
        ctx.rule(r, d)
    for fmt, cls in (('uamiv', 'uamiv'), ('lateral_boundary', 'lateral_boundary')):
        check_blocksize(ctx, fmt, cls)
    n = 0
    n += check_count_arith(ctx, CAMX + 'uamiv/Memmap.py', 'uamiv.__readheader', ('ntimes',))
    n += check_count_arith(ctx, CAMX + 'lateral_boundary/Memmap.py', 'lateral_boundary.__readheader', ('ntimes',))
    n += check_count_arith(ctx, CAMX + 'temperature/Memmap.py', 'temperature.__init__', ('records', 'rowsXcols'))
    n += check_count_arith(ctx, CAMX + 'one3d/Memmap.py', 'one3d.__init__', ('cols',))
    n += check_count_arith(ctx, CAMX + 'wind/Memmap.py', 'wind.__init__', ('times', 'lays'))
    for rp_, q_ in ((CAMX + 'temperature/Memmap.py', 'temperature.__init__'), (CAMX + 'one3d/Memmap.py', 'one3d.__init__'), (CAMX + 'wind/Memmap.py', 'wind.__init__'),
                    (CAMX + 'uamiv/Memmap.py', 'uamiv.__readheader'), (CAMX + 'lateral_boundary/Memmap.py', 'lateral_boundary.__readheader')):
        check_tstep_dims(ctx, rp_, q_)
    check_first_step_only(ctx)
    check_strided_flags(ctx)
    n += check_count_arith(ctx, 'geoschemfiles/_bpch.py', 'bpch1.__init__', ('itemcount',))
    # one3d stores its count in an attribute
    o3 = ctx.src.mod(CAMX + 'one3d/Memmap.py').func('one3d.__init__')
    for st in iter_stmts(o3.body):
        if isinstance(st, ast.Assign) and norm(st.targets[0]).endswith('__records'):
            n += 1
            if isinstance(st.value, ast.BinOp) and isinstance(st.value.op, ast.FloorDiv):
                ctx.ok('R-WHOLEBLOCKS', 'one3d.__init__:records', 'src/PseudoNetCDF/%sone3d/Memmap.py one3d.__init__' % CAMX, 'floor division: %s' % norm(st.value))
            else:
                ctx.violation(Finding('R-WHOLEBLOCKS', CAMX + 'one3d/Memmap.py', 'one3d.__init__', st, 'the record count is %s, not a floor division of the mapping size by the record length' % norm(st.value)))
    ctx.floor('count computations from file sizes', n, 6)
    # wind
    c13.check_windcount(ctx, 'R-WINDCOUNT')
    ctx.rule('R-SCANEOF', 'record scans driven by record_size can leave at end of file (RecordFile.next() is silent there): a cut file raises instead of hanging')
    c13.check_scan_eof(ctx, CAMX + 'wind/Memmap.py', 'wind.__init__')
    # bpch: mapped shape = (itemcount,)
    bm = ctx.src.mod('geoschemfiles/_bpch.py')
    bi = bm.func('bpch1.__init__')
    mm = [c for c in ast.walk(bi) if isinstance(c, ast.Call) and dotted(c.func) == 'memmap' and kw(c, 'dtype') is not None and norm(kw(c, 'dtype')) == 'time_type']
    wb = 'src/PseudoNetCDF/geoschemfiles/_bpch.py bpch1.__init__'
    if not mm:
        raise AnalysisError('anchor vanished: memmap(dtype=time_type) in bpch1.__init__')
    shp = kw(mm[0], 'shape')
    if shp is not None and norm(shp) in ('(itemcount,)', 'itemcount'):
        ctx.ok('R-MAPCOUNT', 'bpch', wb, 'memmap(..., dtype=time_type, shape=(itemcount,))')
    else:
        ctx.violation(Finding('R-MAPCOUNT', 'geoschemfiles/_bpch.py', 'bpch1.__init__', api.stmt_of(mm[0]), 'the time blocks are mapped with shape %s, not (itemcount,): a partial block at the end of a cut file is mapped '
                              'too (or the mapping fails for every cut file)' % (norm(shp) if shp is not None else 'taken from the file size')))
    ic = [st for st in iter_stmts(bi.body) if isinstance(st, ast.Assign) and norm(st.targets[0]) == 'itemcount' and 'getsize' in norm(st.value)]
    ic = [st for st in iter_stmts(bi.body) if isinstance(st, ast.Assign) and norm(st.targets[0]) == 'itemcount']
    icv = norm(_paths.subst(ic[0].value, _paths.dominating_env(bi, ic[0], keep=('time_type', '_general_header_type', 'self')))) if ic else ''
    if ic and 'getsize' in icv and '_general_header_type.itemsize' in icv and 'time_type.itemsize' in icv:
        ctx.ok('R-MAPCOUNT', 'bpch:quotient', wb, icv[:80])
    else:
        ctx.violation(Finding('R-MAPCOUNT', 'geoschemfiles/_bpch.py', 'bpch1.__init__', ic[0] if ic else bi.body[-1], 'itemcount is not (file size - general header) // size of one time block'), oid='bpch:quotient')
    # ---- the scan of the first time step ends on an exact end of file; a position beyond the end means a cut block and must not pass
    ctx.rule('R-SCANEXACT', 'bpch1: the header scan of the first time step compares the position with the file size for equality only (a position past the end is a cut block)')
    nse = 0
    for cmpn in [x for x in ast.walk(bi) if isinstance(x, ast.Compare) and len(x.ops) == 1 and norm(x.left) == 'offset' and norm(x.comparators[0]) == 'file_size']:
        nse += 1
        if isinstance(cmpn.ops[0], (ast.Eq, ast.NotEq)):
            ctx.ok('R-SCANEXACT', norm(cmpn), wb, 'exact comparison')
        elif isinstance(cmpn.ops[0], (ast.GtE, ast.Gt)):
            ctx.violation(Finding('R-SCANEXACT', 'geoschemfiles/_bpch.py', 'bpch1.__init__', api.stmt_of(cmpn), '`%s` also ends the scan when the next block header would lie beyond the end of the file: a file cut inside '
                                  'a data block of its first time step opens as a well-formed one-step file that lacks the remaining tracers' % norm(cmpn)))
        else:
            ctx.ok('R-SCANEXACT', norm(cmpn), wb, 'continuation test')
    ctx.floor('end-of-file comparisons in the bpch1 header scan', nse, 1)     # the loop condition alone when the walk needs no other test (a repeated block ends it)
    # ---- a partial trailing time block is left out by the floor count; it is not an error of this reader, because any error of bpch1
    # hands the file to bpch2 (the master class catches it), which has no whole-step rule and exposes the incomplete step
    ctx.rule('R-NOHANDOVER', 'bpch1: nothing raises on a partial trailing time block (the floor count leaves it out; an exception would hand the cut file to bpch2)')
    mast = ctx.src.mod('geoschemfiles/_bpchmaster.py')
    fallback = any(isinstance(x, ast.Try) and any(isinstance(h, ast.ExceptHandler) for h in x.handlers) for f_ in mast.functions.values() for x in ast.walk(f_))
    bad_r = None
    if ic:
        for s2 in iter_stmts(bi.body):
            if isinstance(s2, ast.If) and s2.lineno > ic[0].lineno and 'itemcount' in norm(s2.test) and any(isinstance(x, ast.Raise) for x in iter_stmts(s2.body)):
                bad_r = s2
    if bad_r is not None and fallback:
        ctx.violation(Finding('R-NOHANDOVER', 'geoschemfiles/_bpch.py', 'bpch1.__init__', bad_r, 'bpch1 raises when the file does not end on a whole time block (%s); the master class catches every exception of bpch1 '
                              'and re-reads with bpch2, which exposes the incomplete step: the stricter reader makes the public reader return partial data' % norm(bad_r.test)[:60]))
    else:
        ctx.ok('R-NOHANDOVER', 'bpch1', wb, 'no raise depends on itemcount (fallback to bpch2 present: %s)' % fallback)
    ctx.assumptions += ['numpy.memmap raises when offset/shape exceed the file and when the remaining size is not a multiple of the item size (numpy documentation)',
                        'sizes are positive, so int() of a quotient truncates like floor']
