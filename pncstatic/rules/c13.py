"""C13 - memory-mapped and record-based CAMx readers agree (structural clauses).

R-FMTTABLE  uamiv: the struct strings Read.py unpacks with expand to the same 4-byte word sequence as the layouts
            Memmap.py maps (markers removed).
R-IDWORDS   met formats: the record reader's id format ('fi': float hour, int date) agrees with how the memmap
            reader uses the words after the marker (columns 1:3, first = time, second re-viewed as integer = date,
            data from word 3 to the word before the trailing marker).
R-STEPID    the search for the first record of the next time step compares both identifier words.
R-LAYERVAR  uamiv record reader: one layer-count attribute feeds the LAY dimension and every record-offset formula.
R-WINDSTEP  wind record reader: per-step stride = padded time header + padded dummy record (size taken from what the
            writer emits) + 2 x layers x padded data record.
R-TIMENORM  timetuple.timeadd normalises the time into [0, eod) for every ordering of the sum against 0 and eod.
R-API       the record readers use only numpy APIs that exist.
"""
import ast
import re

from ..engine import AnalysisError, dotted, iter_stmts, norm, walk_expr, const_str, kw
from ..report import Finding
from ..sizealg import Poly
from .. import dtypes as DT
from .. import frame as FR
from .. import api
from . import c08, c09

LEVEL_TEXT = (
    "Static sibling-agreement checks between the two reader families (ast, dtype evaluator, struct-format expansion, "
    "finite case analysis): the uamiv record formats and memmap layouts describe one word sequence; the met readers agree "
    "on the two identifier words and their types; time-step detection uses the full identifier; record-offset formulas use "
    "one layer count and the stride constants the writer's record sizes imply; time addition normalises midnight the way the "
    "memmap flags do. That both readers terminate and expose equal data for every file is record-position arithmetic at run "
    "time and is not decided.")

CAMX = 'camxfiles/'


def expand_struct(fmt):
    """'10i60i3ifif' -> [('i',73),('f',1),('i',1),('f',1)] as merged (kind,count) words"""
    out = []
    for cnt, ch in re.findall(r'(\d*)([a-zA-Z])', fmt):
        n = int(cnt) if cnt else 1
        k = {'i': 'i', 'f': 'f', 'l': 'i', 'I': 'i'}.get(ch)
        if k is None:
            raise AnalysisError('struct code %r not understood' % ch)
        if out and out[-1][0] == k:
            out[-1] = (k, out[-1][1] + n)
        else:
            out.append((k, n))
    return out


def layout_words(fields):
    """flattened 4-byte words of a layout without SPAD/EPAD; character data counted as integer words"""
    out = []
    for f in fields:
        if re.match(r'^[SE]PAD\d*$', f.name):
            continue
        nb = f.nbytes().constval()
        if nb is None or nb % 4:
            raise AnalysisError('layout field %s is not a whole number of words' % f.name)
        k = 'f' if f.kind == 'f' else 'i'
        n = int(nb // 4)
        if out and out[-1][0] == k:
            out[-1] = (k, out[-1][1] + n)
        else:
            out.append((k, n))
    return out


def _poly_calls(e, env, conv, atomz):
    """to_poly with a hook that replaces call nodes by polynomials"""
    from ..sizealg import to_poly
    table = {}

    def atomize(n):
        r_ = conv(n)
        if r_ is not None:
            key = '@call%d' % len(table)
            table[key] = r_
            return key
        return atomz(n)
    p_ = to_poly(e, env, atomize=atomize)
    return p_.subst(table) if table else p_


def check_idwords_stepid(ctx, only_stepid=False):
    src = ctx.src
    for fmt, cls in (('temperature', 'temperature'), ('height_pressure', 'height_pressure'), ('one3d', 'one3d')):
        rmod = src.mod(CAMX + fmt + '/Read.py')
        mmod = src.mod(CAMX + fmt + '/Memmap.py')
        w = 'src/PseudoNetCDF/camxfiles/%s Read.py vs Memmap.py' % fmt
        idfmt = None
        for st in rmod.cls(cls).body:
            if isinstance(st, ast.Assign) and isinstance(st.targets[0], ast.Name) and st.targets[0].id == 'id_fmt':
                idfmt = const_str(st.value)
        init = mmod.func(cls + '.__init__')
        if not only_stepid:
            nid = len(idfmt or '')
            # the column window of the identifier words: X.reshape(records, reclen)[:, a:b]
            win = None
            for n in walk_expr(init):
                if isinstance(n, ast.Subscript) and isinstance(n.slice, ast.Tuple) and len(n.slice.elts) == 2 \
                        and isinstance(n.slice.elts[1], ast.Slice) and 'reshape' in norm(n.value):
                    sl = n.slice.elts[1]
                    if isinstance(sl.lower, ast.Constant) and isinstance(sl.upper, ast.Constant):
                        win = (sl.lower.value, sl.upper.value, n)
            t = ' ; '.join(norm(s2) for s2 in iter_stmts(init.body))
            if idfmt is None or win is None:
                ctx.undec('R-IDWORDS', fmt, w, 'identifier window of the memmap reader not extracted')
            elif win[0] != 1 or win[1] - win[0] != nid:
                ctx.violation(Finding('R-IDWORDS', mmod.relpath, cls + '.__init__', api.stmt_of(win[2]),
                                      'the record reader unpacks %d identifier words (%r) after the marker but the memory-mapped reader '
                                      'takes words %d:%d' % (nid, idfmt, win[0], win[1])), oid=fmt)
            else:
                # types: first word float time, second re-viewed as integer date
                intview = re.search(r"(SDATE|\[:, 1\])\.view\('>?i'\)", t) is not None
                order_r = 'self.start_time, self.start_date = self.rffile.read(self.id_fmt)' in norm(rmod.cls(cls))
                if idfmt == 'fi' and intview and order_r:
                    ctx.ok('R-IDWORDS', fmt, w, "id_fmt 'fi' (time float, date int); memmap words %d:%d, second re-viewed as integer" % (win[0], win[1]))
                elif idfmt != 'fi' and intview:
                    ctx.violation(Finding('R-IDWORDS', rmod.relpath, cls, rmod.cls(cls).body[0],
                                          "record reader id_fmt is %r but the memmap reader treats word 1 as float time and word 2 as integer date" % idfmt), oid=fmt)
                else:
                    ctx.undec('R-IDWORDS', fmt, w, 'integer re-view of the date word / unpack order not recognised')
        # R-STEPID
        found = None
        for st in iter_stmts(init.body):
            if isinstance(st, ast.For) and any(isinstance(s2, ast.Break) for s2 in iter_stmts(st.body)):
                tests = [s2.test for s2 in iter_stmts(st.body) if isinstance(s2, ast.If)]
                if tests:
                    found = (st, tests[0])
            if isinstance(st, ast.Assign) and isinstance(st.targets[0], ast.Name):
                # the index array of the records that differ from record 0: where(<comparison>)
                wh = [c for c in walk_expr(st.value) if isinstance(c, ast.Call) and (dotted(c.func) or '').split('.')[-1] in ('where', 'nonzero', 'flatnonzero')
                      and any(isinstance(n, ast.Compare) for a in c.args for n in ast.walk(a))]
                if wh:
                    found = (st, wh[0])
                elif st.targets[0].id in ('lays', 'i') and found is None and any(isinstance(n, (ast.Compare,)) for n in walk_expr(st.value)):
                    found = (st, st.value)
        if found is None:
            ctx.undec('R-STEPID', fmt, w, 'time-step detection idiom not recognised')
        else:
            st, te = found
            tt = norm(te)
            # a compared name that holds a row of the identifier table (first = T[newaxis, 0]) stands for that row
            for nm_ in set(n_.id for n_ in ast.walk(te) if isinstance(n_, ast.Name)):
                drow = [s2 for s2 in iter_stmts(init.body) if isinstance(s2, ast.Assign) and isinstance(s2.targets[0], ast.Name) and s2.targets[0].id == nm_]
                if len(drow) == 1 and isinstance(drow[0].value, ast.Subscript) and isinstance(drow[0].value.slice, ast.Tuple) and len(drow[0].value.slice.elts) == 2 \
                        and not isinstance(drow[0].value.slice.elts[0], ast.Slice) and isinstance(drow[0].value.value, ast.Name):
                    tt = re.sub(r'\b%s\b' % nm_, norm(drow[0].value), tt)
            both = ('(t, d)' in tt and 'self.STIME' in tt and 'self.SDATE' in tt) or ('time_date != time_date[' in tt) or \
                   (('[:, 0]' in tt) and ('[:, 1]' in tt)) or ('times != times[' in tt)
            one = (('[:, 0]' in tt) != ('[:, 1]' in tt)) or (('STIME' in tt) != ('SDATE' in tt))
            # a compared name that holds one column of the identifier table (x = T[:, 0] / T[:, 1]) is one word, whatever it is called
            for nm_ in set(n_.id for n_ in ast.walk(te) if isinstance(n_, ast.Name)):
                dcol = [s2 for s2 in iter_stmts(init.body) if isinstance(s2, ast.Assign) and isinstance(s2.targets[0], ast.Name) and s2.targets[0].id == nm_]
                if dcol and any(isinstance(x_, ast.Subscript) and isinstance(x_.slice, ast.Tuple) and len(x_.slice.elts) == 2 and isinstance(x_.slice.elts[1], ast.Constant)
                                and isinstance(x_.slice.elts[0], ast.Slice)     # T[:, k] is a column; T[newaxis, 0] / T[None, 0] is the first row
                                for x_ in ast.walk(dcol[-1].value)):
                    both, one = False, True
            # identity, not order: the dates are two-digit-year YYJJJ, which wrap from 99365 to 00001
            ordering = [x for x in ast.walk(te) if isinstance(x, ast.Compare) and any(isinstance(o, (ast.Gt, ast.GtE, ast.Lt, ast.LtE)) for o in x.ops)
                        and ('STIME' in norm(x) or 'SDATE' in norm(x) or 'time_date' in norm(x) or 'times' in norm(x))]
            if ordering:
                ctx.violation(Finding('R-STEPID', mmod.relpath, cls + '.__init__', st, 'the first record of the next time step is found with an ordering test (%s): the dates are YYJJJ with a two-digit year, so the '
                                      'step after 99365 is 00001, which compares smaller; such a file reads as one step with all records as layers' % norm(ordering[0])[:60]), oid=fmt)
            elif both:
                ctx.ok('R-STEPID', fmt, w, tt[:80])
            elif one:
                ctx.violation(Finding('R-STEPID', mmod.relpath, cls + '.__init__', st,
                                      'the first record of the next time step is searched by comparing only part of the (time, date) '
                                      'identifier (%s): records that differ only in the other word are taken for the same step' % tt[:60]), oid=fmt)
            else:
                ctx.undec('R-STEPID', fmt, w, 'comparison not recognised: %s' % tt[:60])


def _single_bindings(fn):
    """local names assigned exactly once from an arithmetic expression (temporaries like lays = i - 1)"""
    cnt, val = {}, {}
    for st in iter_stmts(fn.body):
        for n in ast.walk(st):
            if isinstance(n, ast.Name) and isinstance(n.ctx, ast.Store):
                cnt[n.id] = cnt.get(n.id, 0) + 1
        if isinstance(st, ast.Assign) and len(st.targets) == 1 and isinstance(st.targets[0], ast.Name) and isinstance(st.value, (ast.BinOp, ast.Name, ast.Constant)):
            val[st.targets[0].id] = st.value
    return dict((k, v) for k, v in val.items() if cnt.get(k) == 1)


def _expand(e, binds, depth=0):
    from .. import paths as _p
    if depth > 6:
        return e
    names = set(n.id for n in ast.walk(e) if isinstance(n, ast.Name)) & set(binds)
    if not names:
        return e
    return _expand(_p.subst(e, dict((k, binds[k]) for k in names)), binds, depth + 1)


def check_step_tile(ctx, fmt, cls, rule='R-STEPTILE'):
    """The memmap readers of temperature and height/pressure find i, the index of the first record of the second step (= records per
    step), and derive LAY = f(i) and TSTEP = N / g(i).  The variable getter reshapes the whole record table as
    (TSTEP, <middle factors in LAY>, record length): the middle factors are the records per step R(LAY).  The three must agree:
    R(f(i)) = i = g(i) for every i, otherwise TSTEP * R(LAY) is not the record count (the reader reports a wrong number of steps
    whenever the integer truncation does not hide it, e.g. TSTEP = records / LAY instead of records / (LAY + 1)).  Decided by the
    checker's own arithmetic on sample values of i (the expressions are linear)."""
    from .. import consteval
    rp = CAMX + fmt + '/Memmap.py'
    m = ctx.src.mod(rp)
    init = m.func(cls + '.__init__')
    get = m.functions.get(cls + '.__var_get')
    where = 'src/PseudoNetCDF/%s %s' % (rp, cls)
    dims = {}
    for c in ast.walk(init):
        if isinstance(c, ast.Call) and isinstance(c.func, ast.Attribute) and c.func.attr == 'createDimension' and len(c.args) >= 2 and isinstance(c.args[0], ast.Constant):
            dims[c.args[0].value] = c
    if 'LAY' not in dims or 'TSTEP' not in dims or get is None:
        ctx.undec(rule, fmt, where, 'LAY / TSTEP dimension or the variable getter not found')
        return 1
    binds = _single_bindings(init)
    # the loop index is never expanded
    loopvars = set(n.id for st in iter_stmts(init.body) if isinstance(st, ast.For) for n in ast.walk(st.target) if isinstance(n, ast.Name))
    for k in list(binds):
        if k in loopvars:
            del binds[k]
    lay = _expand(dims['LAY'].args[1], binds)
    ts = _expand(dims['TSTEP'].args[1], binds)
    while isinstance(ts, ast.Call) and dotted(ts.func) in ('int', 'np.int32', 'int32') and ts.args:
        ts = ts.args[0]
    if not (isinstance(ts, ast.BinOp) and isinstance(ts.op, (ast.Div, ast.FloorDiv))):
        ctx.undec(rule, fmt, where, 'TSTEP length is not a quotient: %s' % norm(ts)[:60])
        return 1
    den = ts.right
    free = (set(n.id for n in ast.walk(lay) if isinstance(n, ast.Name)) | set(n.id for n in ast.walk(den) if isinstance(n, ast.Name))) - set(['int', 'len'])
    if len(free) != 1 or not (free & loopvars):
        ctx.undec(rule, fmt, where, 'layer count and step divisor depend on %s, not on the one record index of the search loop' % sorted(free))
        return 1
    iv = list(free)[0]
    # the getter: <whole-table>.reshape(times, <middle...>, <record length>) with times / lays read from the dimensions
    gb = {}
    for st in iter_stmts(get.body):
        if isinstance(st, ast.Assign) and len(st.targets) == 1 and isinstance(st.targets[0], ast.Name) and isinstance(st.value, ast.Call) and dotted(st.value.func) == 'len' \
                and st.value.args and isinstance(st.value.args[0], ast.Subscript) and norm(st.value.args[0].value).endswith('.dimensions') and isinstance(st.value.args[0].slice, ast.Constant):
            gb[st.targets[0].id] = st.value.args[0].slice.value
    tname = [k for k, v in gb.items() if v == 'TSTEP']
    lname = [k for k, v in gb.items() if v == 'LAY']
    mid = None
    for c in walk_expr(get):
        if isinstance(c, ast.Call) and isinstance(c.func, ast.Attribute) and c.func.attr == 'reshape' and len(c.args) >= 3 and tname \
                and isinstance(c.args[0], ast.Name) and c.args[0].id == tname[0] and 'shape' in norm(c.func.value):
            mid = c.args[1:-1]
            node = c
            break
    if mid is None or not lname:
        ctx.undec(rule, fmt, where, 'reshape of the whole record table (TSTEP, ..., record length) not found in the variable getter')
        return 1
    bad = None
    for i in (2, 4, 6, 8, 12, 20):
        L = consteval.ev(lay, {iv: i})
        D = consteval.ev(den, {iv: i})
        if L is consteval.UNK or D is consteval.UNK:
            ctx.undec(rule, fmt, where, 'layer count / divisor outside the evaluated fragment: %s ; %s' % (norm(lay)[:40], norm(den)[:40]))
            return 1
        R = 1
        for a in mid:
            v = consteval.ev(a, {lname[0]: L})
            if v is consteval.UNK:
                ctx.undec(rule, fmt, where, 'reshape factor outside the evaluated fragment: %s' % norm(a)[:40])
                return 1
            R *= v
        if not (R == i and D == i):
            bad = (i, L, D, R)
            break
    if bad is None:
        ctx.ok(rule, fmt, where, 'LAY = %s, TSTEP = N / (%s), records per step in the getter = %s: all equal the record index i on 6 samples'
               % (norm(lay), norm(den), ' * '.join(norm(a) for a in mid)))
    else:
        i, L, D, R = bad
        ctx.violation(Finding(rule, rp, cls + '.__init__', api.stmt_of(dims['TSTEP']),
                              'with %d records per time step the reader sets LAY = %s = %s and TSTEP = records / %s, while its variable getter reads %s = %s records per '
                              'step: TSTEP * records-per-step is not the record count, so the step count is wrong whenever integer truncation does not hide it'
                              % (i, norm(lay), L, D, ' * '.join(norm(a) for a in mid), R)), oid=fmt)
    return 1


def _is_generator_fn(fn):
    return any(isinstance(n, (ast.Yield, ast.YieldFrom)) for n in ast.walk(fn) if not (isinstance(n, (ast.FunctionDef, ast.Lambda)) and n is not fn))


def _yields_oneshot(src, mod, cls, e, depth=0):
    """does expression e evaluate to a one-shot iterator?  generator expression, map/filter/zip/iter, a call of a generator function
    (resolved through this module's imports), or a call of a method of the class that returns one"""
    if depth > 3:
        return False
    if isinstance(e, ast.GeneratorExp):
        return True
    if not isinstance(e, ast.Call):
        return False
    d = dotted(e.func) or ''
    if d in ('map', 'filter', 'zip', 'iter', 'reversed', 'enumerate'):
        return True
    if isinstance(e.func, ast.Name):
        tgt = None
        if e.func.id in mod.functions:
            tgt = (mod, mod.functions[e.func.id])
        elif e.func.id in mod.imports:
            r = src.resolve_import(mod, e.func.id)
            if r is not None:
                m2 = src.mod(r[0])
                if r[1] in m2.functions:
                    tgt = (m2, m2.functions[r[1]])
        if tgt is not None:
            if _is_generator_fn(tgt[1]):
                return True
            rets = [st for st in iter_stmts(tgt[1].body) if isinstance(st, ast.Return) and st.value is not None]
            return bool(rets) and all(_yields_oneshot(src, tgt[0], None, st.value, depth + 1) for st in rets)
    if isinstance(e.func, ast.Attribute) and isinstance(e.func.value, ast.Name) and e.func.value.id == 'self' and cls is not None:
        q = cls + '.' + e.func.attr
        if q in mod.functions:
            f2 = mod.functions[q]
            if _is_generator_fn(f2):
                return True
            rets = [st for st in iter_stmts(f2.body) if isinstance(st, ast.Return) and st.value is not None]
            return bool(rets) and all(_yields_oneshot(src, mod, cls, st.value, depth + 1) for st in rets)
    return False


def check_stored_generators(ctx, rule='R-ONESHOT'):
    src = ctx.src
    ncls = 0
    for m in src.all_modules():
        if not (m.relpath.startswith(CAMX) and m.relpath.endswith('/Read.py')):
            continue
        for cname in sorted(m.classes):
            meths = dict((q.split('.', 1)[1], f) for q, f in m.functions.items() if q.startswith(cname + '.') and q.count('.') == 1)
            if not meths:
                continue
            ncls += 1
            stored = {}
            for mn, f in meths.items():
                for st in iter_stmts(f.body):
                    if isinstance(st, ast.Assign):
                        for t in st.targets:
                            if isinstance(t, ast.Attribute) and isinstance(t.value, ast.Name) and t.value.id == 'self' and _yields_oneshot(src, m, cname, st.value):
                                stored[t.attr] = (mn, st)
            bad = None
            for attr, (mn, st) in sorted(stored.items()):
                for mn2, f in meths.items():
                    for n in ast.walk(f):
                        it = None
                        if isinstance(n, ast.For):
                            it = n.iter
                        elif isinstance(n, ast.comprehension):
                            it = n.iter
                        elif isinstance(n, ast.Call) and dotted(n.func) in ('list', 'tuple', 'sorted', 'enumerate', 'zip', 'sum', 'max', 'min', 'next'):
                            it = n
                        if it is None:
                            continue
                        if any(isinstance(x, ast.Attribute) and x.attr == attr and isinstance(x.value, ast.Name) and x.value.id == 'self' and isinstance(x.ctx, ast.Load) for x in ast.walk(it)):
                            bad = bad or (attr, mn, st, mn2, api.stmt_of(it) if not isinstance(it, ast.stmt) else it)
            where = 'src/PseudoNetCDF/%s %s' % (m.relpath, cname)
            if bad:
                attr, mn, st, mn2, use = bad
                ctx.violation(Finding(rule, m.relpath, '%s.%s' % (cname, mn), st,
                                      'self.%s holds a one-shot iterator (%s) and %s iterates it: the first read exhausts it, so every later read through the same reader object iterates '
                                      'nothing and returns its initial (zero) array' % (attr, norm(st.value)[:40], mn2)), oid='%s.%s' % (cname, attr))
            else:
                ctx.ok(rule, cname, where, '%d methods, no generator stored in the instance' % len(meths))
    return ncls


def check_scan_eof(ctx, rp, q, rule='R-SCANEOF'):
    """a loop that scans records with <rf>.next() and continues on a condition over <rf>.record_size must be able to leave at end of
    file: RecordFile.next() (read from its source) does not raise there and leaves record_size as it was, so such a loop never ends
    on a file that stops before the record it is looking for (a truncated or single-step file)"""
    from .. import paths as _paths
    src = ctx.src
    ff = src.mod(CAMX + 'FortranFileUtil.py')
    nx = ff.func('RecordFile.next')
    silent = False
    for pth in _paths.function_paths(nx):
        if pth.exit[0] == 'raise':
            continue
        moves = any(isinstance(c, ast.Call) and isinstance(c.func, ast.Attribute) and c.func.attr in ('_newrecord',) for st in pth.stmts for c in ast.walk(st)) or \
            any(isinstance(st, ast.Assign) and any(isinstance(t, ast.Attribute) and t.attr == 'record_size' for t in st.targets) for st in pth.stmts)
        if not moves:
            silent = True
    where = 'src/PseudoNetCDF/%s %s' % (rp, q)
    fn = src.mod(rp).func(q)
    n = 0
    for lp in [st for st in iter_stmts(fn.body) if isinstance(st, ast.While)]:
        nexts = [st for st in iter_stmts(lp.body) if isinstance(st, ast.Expr) and isinstance(st.value, ast.Call) and isinstance(st.value.func, ast.Attribute) and st.value.func.attr == 'next']
        if not nexts or not any(isinstance(n_, ast.Attribute) and n_.attr == 'record_size' for n_ in ast.walk(lp.test)):
            continue
        n += 1
        recv = norm(nexts[0].value.func.value)
        # other ways out: a break / return / raise in the body, or a test that also looks at the result of next() / the position
        leaves = any(isinstance(x, (ast.Break, ast.Return, ast.Raise)) for st in lp.body for x in ast.walk(st))
        positional = any(isinstance(c, ast.Call) and isinstance(c.func, ast.Attribute) and c.func.attr in ('next', 'eof', 'tell') for c in ast.walk(lp.test)) or \
            any(isinstance(n_, ast.Attribute) and n_.attr in ('length',) for n_ in ast.walk(lp.test))
        stored = set(n_.id for st in lp.body for n_ in ast.walk(st) if isinstance(n_, ast.Name) and isinstance(n_.ctx, ast.Store))
        varying = any(isinstance(n_, ast.Name) and n_.id in stored for n_ in ast.walk(lp.test))
        oid = 'while %s' % norm(lp.test)[:50]
        if not silent:
            ctx.ok(rule, oid, where, 'RecordFile.next() raises or moves on every path')
        elif leaves or positional or varying:
            ctx.ok(rule, oid, where, 'the loop has an exit that does not depend on the record size alone')
        else:
            ctx.violation(Finding(rule, rp, q, lp, 'the scan `while %s: %s.next()` cannot end at end of file: RecordFile.next() returns False there and leaves record_size unchanged, so a file that stops '
                                  'before the record the scan is looking for (cut inside the first time step, or holding a single step) makes the reader loop forever instead of raising' % (
                                      norm(lp.test)[:50], recv)), oid=oid)
    return n


def check_windcount(ctx, rule='R-WINDCOUNT'):
    src = ctx.src
    # ---------------- R-WINDCOUNT: the memmap reader derives the step count from the bytes one step really occupies
    ctx.rule(rule, 'wind Memmap.py: bytes per time step used for the step count = time header + 2 x layers x data record + dummy record')
    wmm = src.mod(CAMX + 'wind/Memmap.py')
    wi = wmm.func('wind.__init__')
    wwi = 'src/PseudoNetCDF/camxfiles/wind/Memmap.py wind.__init__'
    from ..sizealg import to_poly as _tp2

    def atomw(n):
        t = norm(n)
        if t.endswith('__time_hdr_fmts_size'):
            return 'H'
        if t.endswith('__dummy_length'):
            return 'D'
        return None
    envw = {}
    for st in iter_stmts(wi.body):
        if isinstance(st, ast.Assign) and len(st.targets) == 1 and isinstance(st.targets[0], ast.Name) and st.targets[0].id in ('record', 'step_size'):
            try:
                envw[st.targets[0].id] = _tp2(st.value, dict(envw), atomize=atomw)
            except Exception:
                pass
    want = Poly.atom('H') + 8 + (Poly.atom('rows') * Poly.atom('cols') * 4 + 8) * 2 * Poly.atom('lays') + Poly.atom('D') * 4
    cand = None
    for st in iter_stmts(wi.body):
        # division form: times = rf.length // E
        if isinstance(st, ast.Assign) and isinstance(st.value, ast.BinOp) and isinstance(st.value.op, ast.FloorDiv) and norm(st.value.left).endswith('rf.length'):
            cand = (st, st.value.right, 'div')
        # counting-loop form: total += E inside `while total < rf.length`
        if isinstance(st, ast.While) and 'rf.length' in norm(st.test):
            for s2 in st.body:
                if isinstance(s2, ast.AugAssign) and isinstance(s2.op, ast.Add) and isinstance(s2.target, ast.Name) and s2.target.id in norm(st.test):
                    cand = (s2, s2.value, 'loop')
    if cand is None:
        ctx.undec(rule, 'step count', wwi, 'derivation of the step count from the file length not in a recognised form')
    else:
        try:
            got = _tp2(cand[1], dict(envw), atomize=atomw)
        except Exception as e:
            got = None
        if got is None:
            ctx.undec(rule, 'step count', wwi, 'step size expression not polynomial: %s' % norm(cand[1])[:60])
        elif got == want:
            if cand[2] == 'div':
                ctx.ok(rule, 'step count', wwi, 'length // (%s)' % got)
            else:
                ctx.undec(rule, 'step count', wwi, 'counting loop with the right step size; start value and final adjustment not evaluated')
        else:
            ctx.violation(Finding(rule, wmm.relpath, 'wind.__init__', cand[0], 'one time step is taken to occupy %s bytes, but it occupies %s (H = time header, D = dummy record in words): the error '
                                  'accumulates with the number of steps and long files get a TSTEP dimension that is too long (26 for 25 steps of a 2-layer 3x4 grid)' % (got, want)))


def check_scan_siblings(ctx, rule='R-SCANSIBS'):
    """the end-of-file scans of the record readers: (a) the branches that read the two time-header layouts leave the same attributes
    of the reader updated - a branch that forgets the end stamp stops the count at the second header for files of that layout;
    (b) the scan ends by running off the file (the exception), not by comparing a stamp with a predicted one - CAMx stamps the last
    hour of a day 2400 on the same date, which no roll-over arithmetic predicts."""
    ctx.rule(rule, 'record readers: the header-layout branches of the end-of-file scan update the same attributes, and the scan has no stamp-comparison exit')
    n = 0
    for fmt in ('wind', 'one3d', 'temperature', 'height_pressure'):
        rp = CAMX + fmt + '/Read.py'
        m = ctx.src.mod(rp)
        for q, fn in sorted(m.functions.items()):
            if not q.endswith('__gettimestep'):
                continue
            where = 'src/PseudoNetCDF/%s %s' % (rp, q)
            for lp in [x for x in ast.walk(fn) if isinstance(x, ast.While)]:
                tries = [x for x in lp.body if isinstance(x, ast.Try)]
                if not tries:
                    continue
                n += 1
                tr = tries[0]
                # (b) no conditional break in the try body
                brk = [x for st in tr.body for x in ast.walk(st) if isinstance(x, ast.If) and any(isinstance(y, ast.Break) for y in ast.walk(x))
                       and any(isinstance(y, ast.Compare) for y in ast.walk(x.test))]
                if brk:
                    ctx.violation(Finding(rule, rp, q, brk[0], 'the scan stops when the stamp it reads differs from the one it computed (%s): the last hour of a day is stamped 2400 on the same date, '
                                          'the computed stamp is 0000 of the next day, so the record reader ends one step before the memory-mapped reader' % norm(brk[0].test)[:50]))
                    continue
                # (a) sibling branches on the record size / header format
                chain = [x for st in tr.body for x in ast.walk(st) if isinstance(x, ast.If) and ('record_size' in norm(x.test) or 'hdr_fmt' in norm(x.test))]
                if chain:
                    top = chain[0]
                    branches, node = [], top
                    while isinstance(node, ast.If):
                        branches.append(node.body)
                        node = node.orelse[0] if len(node.orelse) == 1 and isinstance(node.orelse[0], ast.If) else None
                    sets = []
                    for b in branches:
                        if any(isinstance(x, ast.Raise) for st in b for x in ast.walk(st)):
                            continue
                        sets.append(set(norm(t) for st in b for x in ast.walk(st) if isinstance(x, ast.Assign) for t0 in x.targets for t in (t0.elts if isinstance(t0, ast.Tuple) else [t0])
                                        if isinstance(t, ast.Attribute)))
                    if len(sets) >= 2 and any(s_ != sets[0] for s_ in sets[1:]):
                        missing = sorted(set.union(*sets) - set.intersection(*sets))
                        ctx.violation(Finding(rule, rp, q, top, 'the branches for the two time-header layouts do not update the same attributes (%s only in some): for files of the other layout the end stamp '
                                              'stays at the second header and the reader exposes two time steps whatever the file holds' % ', '.join(missing)))
                    else:
                        ctx.ok(rule, '%s:scan' % q, where, 'branches update %s' % (sorted(sets[0]) if sets else 'nothing'))
                else:
                    ctx.ok(rule, '%s:scan' % q, where, 'position-only scan, exit by exception')
    ctx.floor('end-of-file scans of the record readers', n, 3)


def check_step_length(ctx, rule='R-STEPLEN'):
    """record readers: the length of a time step is a difference of (date, time) stamps (timediff), never of the times alone - a step
    that ends on the next day would come out negative"""
    ctx.rule(rule, 'record readers: self.time_step is a timediff of (date, time) stamps, not a difference of the time words alone')
    n = 0
    for fmt in ('uamiv', 'wind', 'one3d', 'temperature', 'height_pressure'):
        rp = CAMX + fmt + '/Read.py'
        m = ctx.src.mod(rp)
        for q, fn in sorted(m.functions.items()):
            for st in iter_stmts(fn.body):
                if isinstance(st, ast.Assign) and any(isinstance(t, ast.Attribute) and t.attr == 'time_step' and norm(t.value) == 'self' for t in st.targets):
                    n += 1
                    where = 'src/PseudoNetCDF/%s %s' % (rp, q)
                    v = st.value
                    calls = [c for c in walk_expr(v) if isinstance(c, ast.Call) and (dotted(c.func) or '').split('.')[-1] == 'timediff']
                    if calls or 'date' in norm(v).lower():
                        ctx.ok(rule, '%s:time_step' % q, where, norm(v)[:60])
                    elif isinstance(v, ast.BinOp) and isinstance(v.op, ast.Sub) and 'time' in norm(v).lower():
                        ctx.violation(Finding(rule, rp, q, st, 'the step length is %s: the dates of the two stamps are ignored, so a first step from 23:00 to 00:00 of the next day is -23 hours and the '
                                              'reader fails on a file the memory-mapped reader accepts' % norm(v)[:50]))
                    else:
                        ctx.undec(rule, '%s:time_step' % q, where, 'step length %s' % norm(v)[:50])
    ctx.floor('time-step lengths of the record readers', n, 3)


def check_fresh_arrays(ctx, rule='R-FRESHARRAY'):
    """record readers: getArray returns a new array on every call (variables created with values= are views of what they are given);
    a work array kept on the reader and refilled makes two variables of one reader share their buffer"""
    ctx.rule(rule, 'record readers: getArray allocates its result on every call (no work array kept on the reader)')
    n = 0
    for fmt in ('height_pressure', 'temperature', 'one3d', 'wind', 'uamiv'):
        rp = CAMX + fmt + '/Read.py'
        m = ctx.src.mod(rp)
        for q, fn in sorted(m.functions.items()):
            if not q.endswith('.getArray'):
                continue
            n += 1
            where = 'src/PseudoNetCDF/%s %s' % (rp, q)
            kept = [st for st in iter_stmts(fn.body) if isinstance(st, ast.Assign) and any(isinstance(t, ast.Attribute) and norm(t.value) == 'self' for t in st.targets)
                    and any(isinstance(c, ast.Call) and (dotted(c.func) or '').split('.')[-1] in ('zeros', 'empty', 'ones', 'zeros_like', 'empty_like') for c in ast.walk(st.value))]
            reuse = [st for st in iter_stmts(fn.body) if isinstance(st, ast.Assign) and isinstance(st.value, ast.Call) and dotted(st.value.func) == 'getattr' and st.value.args and norm(st.value.args[0]) == 'self'
                     and len(st.value.args) == 3]
            if kept:
                ctx.violation(Finding(rule, rp, q, kept[0], 'the result array is kept on the reader (%s) and refilled by the next call: variables that are views of it (created with values=) then hold the data of '
                                      'whichever variable was read last' % norm(kept[0])[:50]))
            else:
                ctx.ok(rule, q, where, 'result allocated per call')
    ctx.floor('getArray methods of the record readers', n, 3)


def check_species_bound(ctx, rule='R-SPCBOUND'):
    """uamiv record reader: seek converts the species index to 1-based and then rejects indices above nspec; `>=` would reject the last"""
    ctx.rule(rule, 'uamiv record reader: after the index is made 1-based the upper test is spc > nspec (the last species is nspec)')
    rp = CAMX + 'uamiv/Read.py'
    fn = ctx.src.mod(rp).functions.get('uamiv.seek')
    where = 'src/PseudoNetCDF/%s uamiv.seek' % rp
    if fn is None:
        ctx.undec(rule, 'seek', where, 'function not found')
        return
    onebased = any(isinstance(st, ast.AugAssign) and norm(st.target) == 'spc' and isinstance(st.op, ast.Add) and norm(st.value) == '1' for st in iter_stmts(fn.body))
    cmps = [c for c in walk_expr(fn) if isinstance(c, ast.Compare) and len(c.ops) == 1 and norm(c.left) == 'spc' and 'nspec' in norm(c.comparators[0])]
    if not cmps:
        ctx.undec(rule, 'seek', where, 'upper-bound test not found')
    for c in cmps:
        if isinstance(c.ops[0], ast.Gt) and onebased or (isinstance(c.ops[0], ast.GtE) and not onebased):
            ctx.ok(rule, norm(c), where, '1-based index' if onebased else '0-based index')
        elif isinstance(c.ops[0], ast.GtE) and onebased:
            ctx.violation(Finding(rule, rp, 'uamiv.seek', api.stmt_of(c), '%s after the index was made 1-based: the last species of every file raises KeyError in the record reader while the memory-mapped reader '
                                  'delivers it' % norm(c)))
        else:
            ctx.undec(rule, norm(c), where, 'comparison form not recognised')


def check_default_shape(ctx, rule='R-DEFSHAPE'):
    """both readers of a format give a file opened without a grid shape the same default orientation (all cells in one column of rows)"""
    ctx.rule(rule, 'record and memory-mapped reader of a format use the same default (rows, cols) when no grid shape is given')
    n = 0
    for fmt, cls in (('one3d', 'one3d'), ('temperature', 'temperature'), ('height_pressure', 'height_pressure')):
        got = {}
        for kind in ('Read', 'Memmap'):
            rp = CAMX + fmt + '/%s.py' % kind
            m = ctx.src.mod(rp)
            for q, fn in m.functions.items():
                if not q.startswith(cls + '.'):
                    continue
                for st in ast.walk(fn):
                    if isinstance(st, ast.If) and norm(st.test) in ('rows is None and cols is None', 'cols is None and rows is None'):
                        ones = [norm(s2.targets[0]) for s2 in st.body if isinstance(s2, ast.Assign) and isinstance(s2.value, ast.Constant) and s2.value.value == 1]
                        if len(ones) == 1:
                            got[kind] = (ones[0], st, rp, q)
        where = 'src/PseudoNetCDF/%s%s Read.py vs Memmap.py' % (CAMX, fmt)
        if len(got) < 2:
            ctx.undec(rule, fmt, where, 'default shape not found in both readers (%s)' % sorted(got))
            continue
        n += 1
        if got['Read'][0] == got['Memmap'][0]:
            ctx.ok(rule, fmt, where, 'both set %s = 1' % got['Read'][0])
        else:
            g = got['Memmap']
            ctx.violation(Finding(rule, g[2], g[3], g[1], 'opened without a grid shape the memory-mapped reader sets %s = 1 and the record reader %s = 1: ROW and COL have other lengths in the two '
                                  'readers (1 x N against N x 1)' % (g[0], got['Read'][0])))
    ctx.floor('formats with a default grid shape in both readers', n, 2)


def check_squeeze_index(ctx, rule='R-SQUEEZEIDX'):
    """squeeze() without an axis drops *every* axis of length one, so the rank of its result depends on the file (one step, one row,
    one column, one layer).  Indexing that result with a fixed number of positions is right only for the shapes the author had in
    mind; restoring the axes by name (reshape with the dimension lengths) is right for all."""
    ctx.rule(rule, 'record readers: the result of squeeze() (rank depends on which dimensions have length 1) is not indexed with a fixed number of positions')
    n = 0
    for m in ctx.src.all_modules():
        if not (m.relpath.startswith(CAMX) and m.relpath.endswith('/Read.py')):
            continue
        for q, fn in sorted(m.functions.items()):
            if '<locals>' in q and q.count('<locals>') > 1:
                continue
            for x in ast.walk(fn):
                if isinstance(x, ast.Call) and isinstance(x.func, ast.Attribute) and x.func.attr == 'squeeze' and not x.args and not x.keywords:
                    n += 1
            for x in ast.walk(fn):
                if isinstance(x, ast.Subscript) and isinstance(x.value, ast.Call) and isinstance(x.value.func, ast.Attribute) and x.value.func.attr == 'squeeze' \
                        and not x.value.args and not x.value.keywords and isinstance(x.slice, ast.Tuple) and len(x.slice.elts) > 1:
                    ctx.violation(Finding(rule, m.relpath, q, api.stmt_of(x), 'the squeezed array is indexed with %d positions (%s): squeeze() also drops a time, row or column axis of length one, so for a file with a '
                                          'single step, row or column the variable raises IndexError (or gets the wrong axes) while the memory-mapped reader presents it' % (len(x.slice.elts), norm(x.slice)[:40])),
                                  oid='%s:%s' % (q, norm(x.slice)[:30]))
    if not any(o['rule'] == rule and o['status'] == 'violated' for o in ctx.obligations):
        ctx.ok(rule, 'squeeze sites', 'src/PseudoNetCDF/%s*/Read.py' % CAMX, '%d squeeze() calls, none indexed by position' % n)
    ctx.count('squeeze() calls in the record readers', n)


def run(ctx):
    check_squeeze_index(ctx)
    check_scan_siblings(ctx)
    check_default_shape(ctx)
    check_step_length(ctx)
    check_fresh_arrays(ctx)
    check_species_bound(ctx)
    for r, d in (('R-FMTTABLE', 'uamiv: struct strings of Read.py == word sequence of the Memmap.py layouts'),
                 ('R-IDWORDS', "met formats: id_fmt 'fi' == memmap usage of words 1:3 (float time, integer date), data 3:-1"),
                 ('R-STEPID', 'time-step detection compares both identifier words'),
                 ('R-LAYERVAR', 'uamiv Read.py: one layer-count attribute in LAY and in every offset formula'),
                 ('R-WINDSTEP', 'wind Read.py: per-step stride constants follow from the record sizes the writer emits'),
                 ('R-TIMENORM', 'timeadd normalises the time into [0, eod)'),
                 ('R-API', 'record readers use only numpy APIs that exist')):
        ctx.rule(r, d)
    src = ctx.src
    # ---------------- R-FMTTABLE
    rd = src.mod(CAMX + 'uamiv/Read.py')
    mm = src.mod(CAMX + 'uamiv/Memmap.py')
    rc = rd.cls('uamiv')
    consts = {}
    for st in rc.body:
        if isinstance(st, ast.Assign) and isinstance(st.targets[0], ast.Name):
            v = st.value
            s = const_str(v)
            if s is None and isinstance(v, ast.BinOp) and isinstance(v.op, ast.Add):
                l = const_str(v.left)
                r_ = consts.get(v.right.id) if isinstance(v.right, ast.Name) else const_str(v.right)
                if l is not None and r_ is not None:
                    s = l + r_
            if s is not None:
                consts[st.targets[0].id] = s
    b = c08.class_dtype_bindings(mm, 'uamiv')
    b.update(c08.local_bindings(mm.func('uamiv.__readheader')))
    env = DT.DtypeEnv(b)
    where = 'src/PseudoNetCDF/camxfiles/uamiv Read.py vs Memmap.py'
    pairs = [('emiss_hdr_fmt', 'emiss_hdr_fmt'), ('grid_hdr_fmt', 'grid_hdr_fmt'), ('cell_hdr_fmt', 'cell_hdr_fmt'),
             ('time_hdr_fmt', 'date_time_fmt'), ('spc_fmt', 'spc_fmt')]
    # the formats the record reader actually unpacks with
    used = set(n.attr for n in ast.walk(rc) if isinstance(n, ast.Attribute) and isinstance(n.value, ast.Name) and n.value.id == 'self' and n.attr.endswith('_fmt'))
    for rn, mn in pairs:
        if rn not in consts or mn not in b:
            raise AnalysisError('anchor vanished: %s / %s' % (rn, mn))
        if rn not in used:
            ctx.undec('R-FMTTABLE', rn, where, 'declared but never used by the record reader')
            continue
        rw = expand_struct(consts[rn])
        mw = layout_words(env.eval(b[mn]))
        if rw == mw:
            ctx.ok('R-FMTTABLE', rn, where, '%r = %s' % (consts[rn], rw))
        else:
            node = [st for st in rc.body if isinstance(st, ast.Assign) and isinstance(st.targets[0], ast.Name) and st.targets[0].id == rn][0]
            ctx.violation(Finding('R-FMTTABLE', rd.relpath, 'uamiv', node,
                                  'the record reader unpacks %s with %r = %s but the memory-mapped reader maps %s' % (rn, consts[rn], rw, mw)), oid=rn)
    # data record: "i" + spc_fmt then floats  vs  spc_1_lay_fmt
    idf = consts.get('id_fmt')
    lay = env.eval(b['spc_1_lay_fmt'])
    mw = layout_words([f for f in lay if f.name != 'DATA'])
    if idf and expand_struct(idf) == mw and [f.kind for f in lay if f.name == 'DATA'] == ['f']:
        ctx.ok('R-FMTTABLE', 'id_fmt', where, "record id %r = %s, data float32" % (idf, mw))
    else:
        ctx.violation(Finding('R-FMTTABLE', rd.relpath, 'uamiv', rc.body[0], 'record id format %r disagrees with the memmap per-layer record %s' % (idf, mw)), oid='id_fmt')
    check_idwords_stepid(ctx)
    # ---------------- R-LAYERVAR
    names = {}
    for q in ('uamiv.__init__', 'uamiv.__spcrecords', 'uamiv.__recordposition', 'uamiv.keys', 'uamiv.__timerecords'):
        fn = rd.func(q)
        for n in walk_expr(fn):
            if isinstance(n, ast.Attribute) and isinstance(n.value, ast.Name) and n.value.id == 'self' and n.attr in ('nz', 'nlayers', 'nlays', 'NLAYS'):
                if q == 'uamiv.__init__' and not any("createDimension('LAY'" in norm(p) for p in [api.stmt_of(n)]):
                    continue
                names.setdefault(n.attr, []).append((q, n))
    w = 'src/PseudoNetCDF/camxfiles/uamiv/Read.py uamiv'
    if len(names) == 1:
        k = list(names)[0]
        ctx.ok('R-LAYERVAR', 'uamiv.Read', w, 'self.%s used at %d sites (LAY dimension and record offsets)' % (k, len(names[k])))
    elif not names:
        raise AnalysisError('construct not understood: layer count in uamiv/Read.py')
    else:
        major = max(names, key=lambda k: len(names[k]))
        for k, sites in names.items():
            if k != major:
                for q, n in sites:
                    ctx.violation(Finding('R-LAYERVAR', rd.relpath, q, api.stmt_of(n),
                                          'record offsets use self.%s here but self.%s for the LAY dimension and the other formulas: for '
                                          'EMISSIONS files (nlayers forced to 1) species/time offsets are computed with the wrong layer count' % (k, major)))
    # ---------------- R-RECPOS: number of time headers before a record = number of whole steps (size algebra)
    ctx.rule('R-RECPOS', 'uamiv Read.py: time-header count in the record offset equals the number of whole time steps')
    from ..sizealg import to_poly
    tr = rd.func('uamiv.__timerecords')
    sr = rd.func('uamiv.__spcrecords')
    lr = rd.func('uamiv.__layerrecords')
    rpf = rd.func('uamiv.__recordposition')

    def ret_expr(f_):
        r_ = [s2 for s2 in iter_stmts(f_.body) if isinstance(s2, ast.Return)]
        return r_[-1].value if r_ else None
    try:
        # layerrecords(k) = k - 1 ; spcrecords(spc) = (spc - 1) * layerrecords(nlayers + 1) ; timerecords = nsteps * spcrecords(nspec + 1)
        lay_p = lambda arg: to_poly(ret_expr(lr), {lr.args.args[1].arg: arg})
        def atomz(n):
            if isinstance(n, ast.Attribute) and isinstance(n.value, ast.Name) and n.value.id == 'self':
                return n.attr
            return None
        def spc_p(arg):
            e = ret_expr(sr)
            # replace the call self.__layerrecords(X) by its polynomial
            def conv(n):
                if isinstance(n, ast.Call) and (dotted(n.func) or '').endswith('__layerrecords'):
                    return lay_p(to_poly(n.args[0], {}, atomize=atomz))
                return None
            return _poly_calls(e, {sr.args.args[1].arg: arg}, conv, atomz)
        nspec_def = [s2 for s2 in iter_stmts(tr.body) if isinstance(s2, ast.Assign) and norm(s2.targets[0]) == 'nspec'][0]
        nspec_p = _poly_calls(nspec_def.value, {}, lambda n: spc_p(to_poly(n.args[0], {}, atomize=atomz)) if isinstance(n, ast.Call) and (dotted(n.func) or '').endswith('__spcrecords') else None, atomz)
        ntime_p = Poly.atom('nsteps') * nspec_p
        nid_def = [s2 for s2 in iter_stmts(rpf.body) if isinstance(s2, ast.Assign) and norm(s2.targets[0]) == 'nid'][0]
        nid_p = to_poly(nid_def.value, {'ntime': ntime_p}, atomize=atomz)
        wrp = 'src/PseudoNetCDF/camxfiles/uamiv/Read.py uamiv.__recordposition'
        if nid_p == Poly.atom('nsteps'):
            ctx.ok('R-RECPOS', 'nid', wrp, 'ntime = %s ; nid = %s' % (ntime_p, nid_p))
        else:
            ctx.violation(Finding('R-RECPOS', rd.relpath, 'uamiv.__recordposition', nid_def,
                                  'records before a time step number %s, so the count of time headers %s evaluates to %s instead of the number of whole steps: '
                                  'offsets of later steps of multi-layer files are wrong' % (ntime_p, norm(nid_def.value), nid_p)))
    except (IndexError, AttributeError, TypeError) as e:
        ctx.undec('R-RECPOS', 'nid', 'src/PseudoNetCDF/camxfiles/uamiv/Read.py', 'record arithmetic not extracted: %s' % e)
    # ---------------- R-WINDSTEP
    wr = src.mod(CAMX + 'wind/Read.py')
    rp = wr.func('wind.__recordposition')
    ww = src.mod(CAMX + 'wind/Write.py')
    wfn = ww.func('ncf2wind')
    seq = FR.Writer(ww, wfn, var_dims=c09.reader_var_dims(src.mod(CAMX + 'wind/Memmap.py')), dtype_bindings=dict(ww.assigns)).run()
    parsed = FR.parse_records(seq)
    dummy = None
    for r in parsed:
        if r['kind'] == 'loop':
            recs = [x for x in r['sub'] if x['kind'] == 'record']
            if recs:
                last = recs[-1]
                if last['open'].marker is not None and last['open'].marker.constval() is not None:
                    dummy = int(last['open'].marker.constval()) + 8
    strides = []
    for st in iter_stmts(rp.body):
        if isinstance(st, ast.AugAssign) and isinstance(st.value, ast.BinOp) and isinstance(st.value.op, ast.Mult) \
                and 'nsteps / self.nlayers' in norm(st.value.left):
            strides.append((st, norm(st.value.right)))
    w = 'src/PseudoNetCDF/camxfiles/wind/Read.py wind.__recordposition'
    if dummy is None or not strides:
        ctx.undec('R-WINDSTEP', 'wind', w, 'dummy record size or per-step strides not extracted')
    else:
        want = set(['self.padded_time_hdr_size', str(dummy)])
        got = set(s for st, s in strides)
        if got == want:
            ctx.ok('R-WINDSTEP', 'wind', w, 'per step: %s (dummy record written as %d bytes incl. markers)' % (sorted(got), dummy))
        else:
            bad = [st for st, s in strides if s not in want]
            ctx.violation(Finding('R-WINDSTEP', wr.relpath, 'wind.__recordposition', bad[0] if bad else strides[0][0],
                                  'per-step stride terms are %s but each time step holds one padded time header and one dummy record of %d '
                                  'bytes (what the writer emits): with the 8-byte time header the offsets of later steps are wrong' % (sorted(got), dummy)))
    # ---------------- R-TIMENORM
    tm = src.mod(CAMX + 'timetuple.py')
    ta = tm.func('timeadd')
    w = 'src/PseudoNetCDF/camxfiles/timetuple.py timeadd'
    up = dn = None
    for st in ta.body:
        if isinstance(st, ast.If) and isinstance(st.test, ast.Compare) and norm(st.test.left) == 'time1':
            if norm(st.test.comparators[0]) == 'eod':
                up = st
            if norm(st.test.comparators[0]) in ('0', '0.0'):
                dn = st
    if up is None or dn is None:
        raise AnalysisError('construct not understood: normalisation guards of timeadd')
    cases = {'sum == eod': isinstance(up.test.ops[0], ast.GtE), 'sum > eod': isinstance(up.test.ops[0], (ast.GtE, ast.Gt)),
             'sum < 0': isinstance(dn.test.ops[0], (ast.Lt,)), 'sum == 0 stays': not isinstance(dn.test.ops[0], ast.LtE)}
    for cname, okc in cases.items():
        if okc:
            ctx.ok('R-TIMENORM', cname, w, 'normalised into [0, eod)')
        else:
            ctx.violation(Finding('R-TIMENORM', tm.relpath, 'timeadd', up if 'eod' in cname else dn,
                                  'for %s the time is not brought into [0, eod): midnight is reported as (date, 2400) by the record readers '
                                  'while the memory-mapped flags say (date + 1, 0)' % cname), oid=cname)
    # ---------------- R-RANGEEND: the equality-terminated time iteration compares two normalised tuples
    ctx.rule('R-RANGEEND', 'timerange: both sides of the terminating comparison are normalised with timeadd(.., (0, 0), eod) before the loop')
    tr_ = tm.func('timerange')
    wtr = 'src/PseudoNetCDF/camxfiles/timetuple.py timerange'
    loops = [st for st in tr_.body if isinstance(st, ast.While) and isinstance(st.test, ast.Compare) and isinstance(st.test.ops[0], ast.NotEq)]
    if not loops:
        # an ordering comparison terminates for every end; nothing to show
        ctx.ok('R-RANGEEND', 'loop', wtr, 'no equality-terminated loop')
    from .. import paths as _paths
    for lp in loops:
        env = _paths.dominating_env(tr_, lp)
        for side in (lp.test.left, lp.test.comparators[0]):
            # with temporaries substituted, every component of the compared value is (an element of) timeadd(x, (0, 0), eod)
            x = _paths.subst(side, env)
            comps = x.elts if isinstance(x, ast.Tuple) else [x]
            missing = []
            for c_ in comps:
                while isinstance(c_, ast.Subscript) and isinstance(c_.slice, ast.Constant):
                    c_ = c_.value
                if not (isinstance(c_, ast.Call) and dotted(c_.func) == 'timeadd' and len(c_.args) >= 2 and norm(c_.args[1]) == '(0, 0)'):
                    missing.append(norm(c_)[:30])
            if missing:
                ctx.violation(Finding('R-RANGEEND', tm.relpath, 'timerange', lp, 'the loop ends only when %s equals the other tuple exactly, but %s is compared as given (not normalised with '
                                      'timeadd): an end of (date, eod) - which the one3d-family readers pass for files ending at the last step of a day - is never reached and the '
                                      'iteration does not terminate' % (norm(side), ', '.join(missing))), oid=norm(side))
            else:
                ctx.ok('R-RANGEEND', norm(side), wtr, 'normalised before the loop')
    # ---------------- R-WINDSCAN: the scan to the next time header skips as many records as were counted between the first two headers
    ctx.rule('R-WINDSCAN', 'wind Read.py: records skipped between time headers = records counted between the first two headers (2 x layers + dummy)')
    gt = wr.func('wind.__gettimestep')
    wgt = 'src/PseudoNetCDF/camxfiles/wind/Read.py wind.__gettimestep'
    inv = None
    for st in iter_stmts(gt.body):
        if isinstance(st, ast.Assign) and norm(st.targets[0]) == 'self.nlayers' and isinstance(st.value, ast.BinOp) and isinstance(st.value.op, ast.FloorDiv) \
                and isinstance(st.value.right, ast.Constant) and isinstance(st.value.left, ast.BinOp) and isinstance(st.value.left.op, ast.Sub) \
                and isinstance(st.value.left.left, ast.Name) and isinstance(st.value.left.right, ast.Constant):
            # L = (R - c) // d   ->   R = d * L + c
            inv = Poly.atom('L') * st.value.right.value + st.value.left.right.value
    skips = []
    for st in iter_stmts(gt.body):
        if isinstance(st, ast.For) and isinstance(st.iter, ast.Call) and dotted(st.iter.func) == 'range' and len(st.iter.args) == 1 \
                and any(isinstance(c, ast.Call) and (dotted(c.func) or '').endswith('rffile.next') for c in ast.walk(st)):
            skips.append(st)
    if inv is None or not skips:
        ctx.undec('R-WINDSCAN', 'scan', wgt, 'layer count derivation or skip loop not in the recognised form')
    else:
        from ..sizealg import to_poly as _tp
        from .. import paths as _pws
        for st in skips:
            # the count with local temporaries substituted (an extracted skip helper binds it to a parameter first)
            cnt_ = _pws.subst(st.iter.args[0], _pws.dominating_env(gt, st))
            got = _tp(cnt_, {}, atomize=lambda n: 'L' if norm(n) == 'self.nlayers' else None)
            if got == inv:
                ctx.ok('R-WINDSCAN', norm(st.iter), wgt, 'skips %s records = records per step' % got)
            else:
                ctx.violation(Finding('R-WINDSCAN', wr.relpath, 'wind.__gettimestep', st, 'the scan skips %s records but %s records lie between two time headers (as counted for the first '
                                      'step): it lands on a data/dummy record, stops, and files with more than two steps are cut short' % (got, inv)))
    check_windcount(ctx)
    ctx.rule('R-SCANEOF', 'record scans driven by record_size can leave at end of file (RecordFile.next() is silent there)')
    check_scan_eof(ctx, CAMX + 'wind/Read.py', 'wind.__gettimestep')
    ctx.rule('R-ONESHOT', 'record readers: no generator (one-shot iterator) is stored in the instance and iterated by a method that can run more than once')
    ctx.floor('reader classes scanned by R-ONESHOT', check_stored_generators(ctx), 6)
    ctx.rule('R-STEPTILE', 'memmap met readers: TSTEP = records / (records per step), with the records per step that the layer count and the reshape of the variable getter imply')
    ctx.floor('readers judged by R-STEPTILE', sum(check_step_tile(ctx, f_, c_) for f_, c_ in (('temperature', 'temperature'), ('height_pressure', 'height_pressure'))), 2)
    # ---------------- R-EODUNIT: one end-of-day constant per record reader (the unit of its time values)
    ctx.rule('R-EODUNIT', 'record readers: every timediff/timeadd/timerange call of one class uses the same end-of-day value (24 for hours, 2400 for HHMM)')
    EODPOS = {'timediff': 2, 'timeadd': 2, 'timerange': 3}
    ncalls = 0
    for fmt in ('uamiv', 'temperature', 'height_pressure', 'humidity', 'vertical_diffusivity', 'wind', 'one3d'):
        m = src.mod(CAMX + fmt + '/Read.py')
        per_class = {}
        for q, fn in sorted(m.functions.items()):
            if '.' not in q or '<locals>' in q or 'Test' in q:
                continue
            cls_ = q.split('.')[0]
            for c in ast.walk(fn):
                if isinstance(c, ast.Call) and isinstance(c.func, ast.Name) and c.func.id in EODPOS:
                    e = kw(c, 'eod')
                    if e is None and len(c.args) > EODPOS[c.func.id]:
                        e = c.args[EODPOS[c.func.id]]
                    val = '2400 (default)' if e is None else norm(e)
                    if e is not None and isinstance(e, ast.Constant):
                        val = '2400 (default)' if float(e.value) == 2400.0 else ('%g' % float(e.value))
                    per_class.setdefault(cls_, []).append((val, q, c))
                    ncalls += 1
        for cls_, calls in per_class.items():
            vals = {}
            wcl = 'src/PseudoNetCDF/%s %s' % (m.relpath, cls_)
            for v, q, c in calls:
                if not re.match(r'^(2400 \(default\)|[\d.]+)$', v):
                    # a value chosen at run time from the step length (HHMM vs hours heuristic): not decidable here
                    ctx.undec('R-EODUNIT', '%s:%s:%d' % (fmt, q, c.lineno), wcl, 'end of day chosen at run time: %s' % v[:50])
                    continue
                vals.setdefault(v, []).append((q, c))
            if not vals:
                continue
            if len(vals) == 1:
                ctx.ok('R-EODUNIT', '%s:%s' % (fmt, cls_), wcl, '%d calls, all with end of day %s' % (len(calls), list(vals)[0]))
            else:
                major = max(vals, key=lambda v: len(vals[v]))
                for v, sites in vals.items():
                    if v == major:
                        continue
                    for q, c in sites:
                        ctx.violation(Finding('R-EODUNIT', m.relpath, q, api.stmt_of(c), '%s is called with end of day %s here but with %s at %d other sites of %s: differences across midnight '
                                              'are computed in another unit than the times the class iterates over, so steps after the first midnight are located at wrong records '
                                              '(or the step count is wrong)' % (c.func.id, v, major, len(vals[major]), cls_)))
    ctx.floor('timetuple calls in the record readers', ncalls, 20)
    # ---------------- R-STEPARG: the time iteration of every record reader advances by the reader's own step
    ctx.rule('R-STEPARG', 'record readers: every call of timetuple.timerange passes the time step found in the file (the default of 100 is one hour in HHMM only)')
    nsa = 0
    for fmt in ('uamiv', 'temperature', 'height_pressure', 'humidity', 'vertical_diffusivity', 'wind', 'one3d'):
        m = src.mod(CAMX + fmt + '/Read.py')
        for q, fn in sorted(m.functions.items()):
            if '.' not in q or '<locals>' in q or 'Test' in q:
                continue
            for c in ast.walk(fn):
                if isinstance(c, ast.Call) and isinstance(c.func, ast.Name) and c.func.id == 'timerange':
                    nsa += 1
                    stp = kw(c, 'step') if kw(c, 'step') is not None else (c.args[2] if len(c.args) > 2 else None)
                    if stp is not None and 'time_step' in norm(stp):
                        ctx.ok('R-STEPARG', '%s:%s@%d' % (fmt, q, c.lineno), 'src/PseudoNetCDF/%s %s' % (m.relpath, q), 'step=%s' % norm(stp))
                    elif stp is None:
                        ctx.violation(Finding('R-STEPARG', m.relpath, q, api.stmt_of(c), 'timerange is called without the step: it advances by its default of 100 (one hour in HHMM) whatever the '
                                              'interval of the file, so a file with another interval is iterated at instants it does not contain (index errors, other time flags than the memmap reader)'))
                    else:
                        ctx.undec('R-STEPARG', '%s:%s@%d' % (fmt, q, c.lineno), 'src/PseudoNetCDF/%s %s' % (m.relpath, q), 'step argument %s not recognised as the file step' % norm(stp))
    ctx.floor('timerange calls in the record readers', nsa, 5)
    # ---------------- R-TIMEORIGIN: the record offset of a time is measured from the file's start date AND start time
    ctx.rule('R-TIMEORIGIN', "record readers: the elapsed time that positions a record is timediff((start_date, start_time), (d, t)) - measured from the file's own first time")
    nto = 0
    for fmt in ('uamiv', 'height_pressure', 'wind', 'one3d', 'point_source'):
        m = src.mod(CAMX + fmt + '/Read.py')
        for q, fn in sorted(m.functions.items()):
            if not q.endswith('__timerecords') or '<locals>' in q:
                continue
            for c in ast.walk(fn):
                if isinstance(c, ast.Call) and isinstance(c.func, ast.Name) and c.func.id == 'timediff' and c.args:
                    nto += 1
                    a0 = c.args[0]
                    wq = 'src/PseudoNetCDF/%s %s' % (m.relpath, q)
                    if isinstance(a0, ast.Tuple) and len(a0.elts) == 2 and norm(a0.elts[0]) == 'self.start_date' and norm(a0.elts[1]) == 'self.start_time':
                        ctx.ok('R-TIMEORIGIN', '%s:%s' % (fmt, q), wq, norm(a0))
                    else:
                        ctx.violation(Finding('R-TIMEORIGIN', m.relpath, q, api.stmt_of(c), 'the elapsed time is measured from %s instead of (self.start_date, self.start_time): for a file that does not '
                                              'start at that instant every record is looked up start_time / time_step steps too far (data of a later step, too few steps)' % norm(a0)),
                                      oid='%s:%s' % (fmt, q))
    ctx.floor('timediff calls in __timerecords judged by R-TIMEORIGIN', nto, 5)
    # the elapsed time becomes a step count by division with the file's own step (four of the five readers; point_source counts hours)
    ctx.rule('R-STEPCOUNT', 'record readers: the elapsed time from timediff is divided by self.time_step to give the number of steps to skip')
    nsc = 0
    for fmt in ('uamiv', 'height_pressure', 'wind', 'one3d'):
        m = src.mod(CAMX + fmt + '/Read.py')
        for q, fn in sorted(m.functions.items()):
            if not q.endswith('__timerecords') or '<locals>' in q:
                continue
            for c in ast.walk(fn):
                if isinstance(c, ast.Call) and isinstance(c.func, ast.Name) and c.func.id == 'timediff':
                    nsc += 1
                    par = getattr(c, '_parent', None)
                    wq = 'src/PseudoNetCDF/%s %s' % (m.relpath, q)
                    if isinstance(par, ast.BinOp) and isinstance(par.op, (ast.Div, ast.FloorDiv)) and par.left is c and norm(par.right) == 'self.time_step':
                        ctx.ok('R-STEPCOUNT', '%s:%s' % (fmt, q), wq, norm(par)[:70])
                    else:
                        ctx.violation(Finding('R-STEPCOUNT', m.relpath, q, api.stmt_of(c), 'the elapsed time is used as the number of steps without dividing by self.time_step: for a file whose output interval is not '
                                              'one unit of time the record reader seeks to the record of another step (or beyond the data)'), oid='%s:%s' % (fmt, q))
    ctx.floor('timediff calls judged by R-STEPCOUNT', nsc, 4)
    # ---------------- R-DATAWINDOW: temperature record reader: byte offset and window of the mapped data = what the record layout says
    ctx.rule('R-DATAWINDOW', 'temperature Read.py: position offset + dropped leading words = marker + id (12 bytes); mapped words - dropped words = cells of the record')
    tm_ = src.mod(CAMX + 'temperature/Read.py')

    def const_add(e, base_names):
        # e = <sum of names in base_names> + K  ->  K  (None if not of that form)
        try:
            p_ = to_poly_t(e)
        except Exception:
            return None
        rest = p_
        for b_ in base_names:
            rest = rest - Poly.atom(b_)
        return rest.constval()

    def to_poly_t(e):
        from ..sizealg import to_poly as _tp3
        return _tp3(e, {}, atomize=lambda n: n.attr if isinstance(n, ast.Attribute) and isinstance(n.value, ast.Name) and n.value.id == 'self' else None)
    for posq, mapq, base, cnt_atom, per_layer in (('temperature.__surfpos', 'temperature.__surfmaps', ['data_start_byte'], 'area_count', False),
                                                  ('temperature.__airpos', 'temperature.__airmaps', ['data_start_byte', 'area_padded_size'], 'cell_count', True)):
        wq = 'src/PseudoNetCDF/%s %s' % (tm_.relpath, mapq)
        try:
            pf, mf_ = tm_.func(posq), tm_.func(mapq)
            pos0 = [st for st in pf.body if isinstance(st, ast.Assign) and norm(st.targets[0]) == 'pos'][0]
            k0 = const_add(pos0.value, base)
            mm_call = [c for c in ast.walk(mf_) if isinstance(c, ast.Call) and dotted(c.func) == 'memmap'][0]
            shp = mm_call.args[4] if len(mm_call.args) > 4 else kw(mm_call, 'shape')
            if isinstance(shp, ast.Name):
                shp = [st for st in iter_stmts(mf_.body) if isinstance(st, ast.Assign) and norm(st.targets[0]) == shp.id][-1].value
            words = to_poly_t(shp.elts[0])
            if per_layer:
                words = words.divexact(Poly.atom('nlayers'))
            extra = (words - Poly.atom(cnt_atom)).constval()
            # slices applied to the mapped array: [f:-b] (1-D) or [:, f:-b]
            front = back = 0
            for n in ast.walk(mf_):
                if isinstance(n, ast.Subscript):
                    sl = n.slice.elts[-1] if isinstance(n.slice, ast.Tuple) else n.slice
                    if isinstance(sl, ast.Slice) and (sl.lower is not None or sl.upper is not None) and 'tmpmm' in norm(n.value):
                        front += sl.lower.value if isinstance(sl.lower, ast.Constant) else 0
                        back += sl.upper.operand.value if isinstance(sl.upper, ast.UnaryOp) and isinstance(sl.upper.operand, ast.Constant) else 0
            if k0 is None or extra is None:
                ctx.undec('R-DATAWINDOW', mapq, wq, 'position or window not in the recognised arithmetic form')
                continue
            first_byte = k0 + 4 * front
            kept = extra - front - back
            if first_byte == 12 and kept == 0:
                ctx.ok('R-DATAWINDOW', mapq, wq, 'first data byte at record start + %d; %s + %d words mapped, %d + %d dropped' % (first_byte, cnt_atom, extra, front, back))
            else:
                ctx.violation(Finding('R-DATAWINDOW', tm_.relpath, mapq, api.stmt_of(mm_call), 'the data window starts %d bytes after the record start (position offset %d + %d dropped words) and keeps %s%+d '
                                      'words; the record is marker(4) + time/date(8) + %s floats + marker(4): values are shifted by %d cells and the tail is padding of the next record' % (
                                          first_byte, k0, front, cnt_atom, kept, cnt_atom, (first_byte - 12) // 4)))
        except (IndexError, AttributeError, TypeError, KeyError) as e:
            ctx.undec('R-DATAWINDOW', mapq, wq, 'window arithmetic not extracted (%s)' % type(e).__name__)
    # ---------------- R-REWIND: a record file handed to a reader is positioned on its first record, whatever its history
    ctx.rule('R-REWIND', 'OpenRecordFile returns the record file rewound to record 0 on every path (a caller-supplied RecordFile may have been used before)')
    ffu = src.mod(CAMX + 'FortranFileUtil.py')
    orf = ffu.func('OpenRecordFile')
    rew = [st for st in orf.body if isinstance(st, ast.Expr) and isinstance(st.value, ast.Call) and isinstance(st.value.func, ast.Attribute) and st.value.func.attr == '_newrecord'
           and st.value.args and norm(st.value.args[0]) == '0']
    rets_ = [st for st in orf.body if isinstance(st, ast.Return)]
    if rew and rets_ and rew[-1].lineno < rets_[-1].lineno:
        ctx.ok('R-REWIND', 'OpenRecordFile', 'src/PseudoNetCDF/%sFortranFileUtil.py OpenRecordFile' % CAMX, '%s before return' % norm(rew[-1]))
    else:
        ctx.violation(Finding('R-REWIND', ffu.relpath, 'OpenRecordFile', rets_[-1] if rets_ else orf.body[-1], 'the record file is returned without an unconditional rewind (_newrecord(0)): a RecordFile object that was used before '
                              'is parsed from wherever it was left, so the record readers expose other lengths and data than the memory-mapped readers for the same file'))
    # ---------------- R-SELPARAM: no selector parameter of a record-reader method is ignored
    ctx.rule('R-SELPARAM', 'record readers: every parameter of every method is read in its body (a selector that is accepted is also used/forwarded)')
    npar = 0
    for fmt in ('uamiv', 'temperature', 'height_pressure', 'humidity', 'vertical_diffusivity', 'wind', 'one3d'):
        m = src.mod(CAMX + fmt + '/Read.py')
        for q, fn in sorted(m.functions.items()):
            if '<locals>' in q or 'Test' in q or q.split('.')[-1].startswith('test') or q.split('.')[-1] in ('runTest', 'setUp'):
                continue
            ps = [a.arg for a in fn.args.args[1:]] + [a.arg for a in fn.args.kwonlyargs]
            if not ps:
                continue
            loads = set(n.id for n in ast.walk(fn) if isinstance(n, ast.Name) and isinstance(n.ctx, ast.Load))
            dead = [p_ for p_ in ps if p_ not in loads]
            npar += len(ps)
            if dead:
                ctx.violation(Finding('R-SELPARAM', m.relpath, q, fn.body[-1] if not isinstance(fn.body[0], ast.Expr) or len(fn.body) < 2 else fn.body[1],
                                      'parameter %s of %s is never read: the caller\'s selection is ignored and the default record is returned (e.g. heights in place of '
                                      'pressures)' % (dead, q)), oid=q)
            else:
                ctx.ok('R-SELPARAM', '%s:%s' % (fmt, q), 'src/PseudoNetCDF/%s %s' % (m.relpath, q), '%d parameters all read' % len(ps))
    ctx.floor('parameters of record-reader methods', npar, 60)
    # ---------------- R-API on the record readers
    n = 0
    for fmt in ('uamiv', 'temperature', 'height_pressure', 'humidity', 'vertical_diffusivity', 'wind', 'one3d'):
        m = src.mod(CAMX + fmt + '/Read.py')
        for q, fn in sorted(m.functions.items()):
            if '<locals>' in q or 'Test' in q or q.split('.')[-1].startswith('test') or q.split('.')[-1] in ('runTest', 'setUp'):
                continue
            n += 1
            miss, rem = api.missing_numpy_names(m, fn), api.removed_method_calls(m, fn)
            for node, d in miss:
                ctx.violation(Finding('R-API', m.relpath, q, api.stmt_of(node), '%s does not exist in the installed numpy' % d))
            for node, mt in rem:
                ctx.violation(Finding('R-API', m.relpath, q, api.stmt_of(node), 'ndarray.%s was removed from numpy' % mt))
            if not miss and not rem:
                ctx.ok('R-API', '%s:%s' % (fmt, q), 'src/PseudoNetCDF/%s %s' % (m.relpath, q), 'numpy names resolve')
    ctx.floor('record reader functions under R-API', n, 60)
