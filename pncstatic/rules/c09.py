"""C09 - binary files conform to the published layout (record framing, by size algebra).

R-FRAME      every Fortran record a writer emits has equal leading/trailing markers whose value equals the number
             of payload bytes between them, for all array sizes; the emission sequence tiles into records.
R-DTYPEPADS  for every structured record with SPAD/EPAD fields the value stored into each pad equals the byte sum
             of the fields it brackets and both pads receive the same value.
R-RECLAYOUT  the per-layer record the uamiv / boundary writers emit has the field-kind sequence the reader maps.
R-BEPAIR / R-EDGECELLS (shared with C08): header dates and cell counts match the content.
R-API        a writer that cannot run emits no conforming file.
"""
import ast
import re

from ..engine import AnalysisError, dotted, iter_stmts, norm, walk_expr, const_str, kw
from ..report import Finding
from ..sizealg import Poly, to_poly
from .. import dtypes as DT
from .. import frame as FR
from .. import api
from . import c08

LEVEL_TEXT = (
    "Static size algebra over the binary writers (symbolic interpreter + dtype-literal evaluator): each writer's "
    "emission sequence is parsed into Fortran records and, for every record, marker value == payload byte count is "
    "proved as an identity of polynomials over array sizes (sizes of file variables come from the dimension tuples the "
    "matching reader declares); SPAD/EPAD pad stores are checked against the byte sum of the bracketed fields; header "
    "counts/dates are paired with the content (shared rules with C08). That an independent decoder recovers the content, "
    "and the reverse direction (reference encoder -> library reader), need execution and are not decided.")

CAMX = 'camxfiles/'
WRITERS = [  # (format, writer relpath, function, reader relpath)
    ('uamiv', 'uamiv/Write.py', 'ncf2uamiv', 'uamiv/Memmap.py'),
    ('lateral_boundary', 'lateral_boundary/Write.py', 'ncf2lateral_boundary', 'lateral_boundary/Memmap.py'),
    ('wind', 'wind/Write.py', 'ncf2wind', 'wind/Memmap.py'),
    ('temperature', 'temperature/Write.py', 'ncf2temperature', 'temperature/Memmap.py'),
    ('height_pressure', 'height_pressure/Write.py', 'ncf2height_pressure', 'height_pressure/Memmap.py'),
    ('one3d', 'one3d/Write.py', 'ncf2one3d', 'one3d/Memmap.py'),
    ('cloud_rain', 'cloud_rain/Write.py', 'ncf2cloud_rain', 'cloud_rain/Memmap.py'),
]


def reader_var_dims(mod):
    out = {}
    for c in ast.walk(mod.tree):
        if not isinstance(c, ast.Call):
            continue
        d = (dotted(c.func) or '').split('.')[-1]
        name = dims = None
        if d in ('PseudoNetCDFVariable', 'PseudoNetCDFMaskedVariable', 'PseudoIOAPIVariable') and len(c.args) >= 4:
            name, dims = c.args[1], c.args[3]
        elif d == 'createVariable' and len(c.args) >= 3:
            name, dims = c.args[0], c.args[2]
        if name is not None and const_str(name) and isinstance(dims, ast.Tuple) and all(const_str(e) for e in dims.elts):
            out[const_str(name)] = tuple(const_str(e) for e in dims.elts)
    return out


def judge(ctx, fmt, rp, q, parsed, where, depth=0):
    n = 0
    for r in parsed:
        k = r['kind']
        if k == 'loop':
            n += judge(ctx, fmt, rp, q, r['sub'], where, depth + 1)
            continue
        if k == 'struct':
            continue     # framed by its own SPAD/EPAD fields: R-DTYPEPADS
        if k == 'list':
            n += 1
            check_list_record(ctx, fmt, rp, q, r['item'], where)
            continue
        if k == 'undecided':
            ctx.undec('R-FRAME', '%s:%s' % (fmt, r['item'].text[:40]), where, r['why'])
            continue
        if k in ('unclosed', 'stray'):
            it = r['item']
            ctx.violation(Finding('R-FRAME', rp, q, api.stmt_of(it.node) if isinstance(it.node, ast.AST) else it.node,
                                  'the emission %s does not belong to a record that is closed by the marker it was opened with: the '
                                  'file is not a gap-free sequence of Fortran records' % it.text[:50]))
            n += 1
            continue
        n += 1
        op, cl, payload = r['open'], r['close'], r['payload']
        oid = '%s:%s..%s@%s' % (fmt, op.text[:20], cl.text[:20], getattr(op.node, 'lineno', '?'))
        unknown = [p for p in payload if isinstance(p, FR.Loop) or p.nb is None]
        if op.marker is None or unknown:
            ctx.undec('R-FRAME', oid, where, 'marker value or payload size not expressible (%s)' % (
                ', '.join(getattr(u, 'text', 'loop')[:30] for u in unknown) or 'marker'))
            continue
        total = sum((p.nb for p in payload), Poly())
        diff = op.marker - total
        scalar_attrs = sorted(set(a for mono in diff.t for a, pw in mono if str(a).startswith('len(ncffile.') and str(a)[12:-1].isupper()))
        if op.marker == total:
            ctx.ok('R-FRAME', oid, where, 'marker %s == payload %s bytes (%d pieces)' % (op.marker, total, len(payload)))
        elif scalar_attrs and all(any(a in scalar_attrs for a, pw in mono) for mono in diff.t if mono):
            # the only disagreement is the element count of a file-level attribute the writer converts with array(.., ndmin=1): one
            # element for the scalar the readers store there; its shape is a run-time fact
            ctx.undec('R-FRAME', oid, where, 'marker %s, payload %s: equal when %s hold one value each (file attributes the readers set to scalars)' % (op.marker, total, ', '.join(scalar_attrs)))
        else:
            ctx.violation(Finding('R-FRAME', rp, q, api.stmt_of(op.node),
                                  'record marker is %s but the payload between the markers is %s bytes (%s): a Fortran reader '
                                  'cannot walk this file' % (op.marker, total, ' + '.join('%s[%s]' % (p.text[:18], p.nb) for p in payload))), oid=oid)
    return n


def check_list_record(ctx, fmt, rp, q, it, where):
    """np.array([buf, ..., buf] built with + and *).astype('>i') : one record written as a list of ints"""
    e = it.struct
    first = e
    while isinstance(first, ast.BinOp):
        first = first.left
    last = e
    while isinstance(last, ast.BinOp):
        last = last.right
    oid = '%s:list-record@%s' % (fmt, getattr(it.node, 'lineno', '?'))
    if not (isinstance(first, ast.List) and isinstance(last, ast.List) and first.elts and last.elts):
        ctx.undec('R-FRAME', oid, where, 'list-built record not understood')
        return
    a, b = first.elts[0], last.elts[-1]
    if norm(a) != norm(b):
        ctx.violation(Finding('R-FRAME', rp, q, api.stmt_of(it.node), 'list-built record starts with %s and ends with %s' % (norm(a), norm(b))), oid=oid)
        return
    # value of the marker
    fn = None
    p = it.node
    while p is not None and not isinstance(p, ast.FunctionDef):
        p = getattr(p, '_parent', None)
    val = None
    env = {}
    if p is not None:
        target_st = api.stmt_of(it.node)
        for st in iter_stmts(p.body):
            # program order, not line numbers: statements inlined from a helper keep the helper's lines
            if st is target_st:
                break
            if isinstance(st, ast.Assign) and isinstance(st.targets[0], ast.Name) \
                    and isinstance(st.value, (ast.BinOp, ast.Constant)):
                try:
                    env[st.targets[0].id] = to_poly(st.value, env)
                except Exception:
                    pass
    try:
        val = to_poly(a, env)
    except Exception:
        val = None
    cnt = it.nb
    if val is None or cnt is None:
        ctx.undec('R-FRAME', oid, where, 'marker value / element count not expressible')
        return
    # normalise element count with the same environment (nbcell etc. stay atoms on both sides)
    payload = cnt - 8
    if val == payload:
        ctx.ok('R-FRAME', oid, where, 'marker %s == payload %s bytes' % (val, payload))
    else:
        ctx.violation(Finding('R-FRAME', rp, q, api.stmt_of(it.node), 'list-built record: marker %s but %s payload bytes' % (val, payload)), oid=oid)


def check_pads(ctx, fmt, wm, wfn, extra_bindings=None):
    """R-DTYPEPADS on every structured header of the writer"""
    rp = wm.relpath
    where = 'src/PseudoNetCDF/%s %s' % (rp, wfn.name)
    b = dict(wm.assigns)
    b.update(c08.local_bindings(wfn))
    # array name -> dtype expr
    arrs = {}
    for st in iter_stmts(wfn.body):
        if isinstance(st, ast.Assign) and isinstance(st.targets[0], ast.Name) and isinstance(st.value, ast.Call) \
                and (dotted(st.value.func) or '').split('.')[-1] in ('zeros', 'empty') and kw(st.value, 'dtype') is not None:
            arrs[st.targets[0].id] = kw(st.value, 'dtype')
    polyenv = {}
    for st in iter_stmts(wfn.body):
        if isinstance(st, ast.Assign) and isinstance(st.targets[0], ast.Name):
            try:
                p = to_poly(st.value, polyenv, atomize=c08._dim_atom)
                if not any(a.startswith(('np.', 'ncffile.', 'getattr', '[')) for a in p.atoms()) or all(a.startswith('dim:') for a in p.atoms()):
                    polyenv[st.targets[0].id] = p
            except Exception:
                pass
    env = DT.DtypeEnv(b, polyenv=polyenv, atomize=c08._dim_atom)
    n = 0
    for name, dexpr in sorted(arrs.items()):
        try:
            lay = env.eval(dexpr)
        except AnalysisError as e:
            ctx.undec('R-DTYPEPADS', '%s:%s' % (fmt, name), where, 'dtype not evaluated: %s' % e)
            continue
        names = [f.name for f in lay]
        pads = [x for x in names if re.match(r'^[SE]PAD\d*$', x)]
        if not pads:
            continue
        # pairs (SPADk, EPADk)
        for sp in [x for x in pads if x.startswith('SPAD')]:
            ep = 'EPAD' + sp[4:]
            if ep not in names:
                ctx.violation(Finding('R-DTYPEPADS', rp, wfn.name, dexpr, 'record %s has %s without %s' % (name, sp, ep)))
                continue
            i, j = names.index(sp), names.index(ep)
            between = DT.nbytes(lay[i + 1:j])
            vals = {}
            for st in iter_stmts(wfn.body):
                if isinstance(st, ast.Assign):
                    for t in st.targets:
                        tt = norm(t)
                        for pad in (sp, ep):
                            if tt.startswith(name) and ("['%s']" % pad) in tt:
                                v = st.value
                                pv = None
                                try:
                                    vt = norm(v)
                                    m = re.match(r'^(\w+)\.itemsize - 8$', vt)
                                    if m and (m.group(1) == name or m.group(1) in b):
                                        ref = lay if m.group(1) == name else env.eval(b[m.group(1)])
                                        pv = DT.nbytes(ref) - 8
                                    else:
                                        pv = to_poly(v, polyenv, atomize=c08._dim_atom)
                                except Exception:
                                    pv = None
                                vals[pad] = (st, pv)
            n += 1
            oid = '%s:%s.%s' % (fmt, name, sp)
            if sp not in vals or ep not in vals:
                ctx.violation(Finding('R-DTYPEPADS', rp, wfn.name, dexpr, 'record %s: pad %s is never stored' % (name, sp if sp not in vals else ep)), oid=oid)
                continue
            (s1, v1), (s2, v2) = vals[sp], vals[ep]
            if v1 is None or v2 is None:
                ctx.undec('R-DTYPEPADS', oid, where, 'pad expression not expressible')
                continue
            unk = [a for a in (v1.atoms() | between.atoms()) if not a.startswith('dim:')]
            if v1 != v2:
                ctx.violation(Finding('R-DTYPEPADS', rp, wfn.name, s2, 'record %s: leading pad %s but trailing pad %s' % (name, v1, v2)), oid=oid)
            elif v1 == between:
                ctx.ok('R-DTYPEPADS', oid, where, '%s = %s = %s bytes between the pads' % (sp, ep, between))
            elif unk:
                ctx.undec('R-DTYPEPADS', oid, where, 'pads %s vs %s bytes bracketed: sizes of %s unknown' % (v1, between, sorted(unk)[:3]))
            else:
                ctx.violation(Finding('R-DTYPEPADS', rp, wfn.name, s1, 'record %s: pads hold %s but bracket %s bytes' % (name, v1, between)), oid=oid)
    return n


def check_nz_floor(ctx, rule='R-NZMIN'):
    """gridded reader: two-dimensional files (low-level emissions) carry nz = 0 in the grid header but hold one record per species and
    step; the layer count used for the record layout and the LAY dimension is max(header nz, 1)"""
    ctx.rule(rule, 'uamiv memmap reader: the layer count used for the layout and for LAY is max(<header nz>, 1) (two-dimensional files say nz = 0)')
    rp = 'camxfiles/uamiv/Memmap.py'
    m = ctx.src.mod(rp)
    fn = None
    for q, f_ in m.functions.items():
        if q.endswith('uamiv.__readheader') or q == 'uamiv.__readheader':
            fn, qn = f_, q
    where = 'src/PseudoNetCDF/%s uamiv.__readheader' % rp
    if fn is None:
        ctx.undec(rule, 'nz', where, 'function not found')
        return
    defs = [st for st in iter_stmts(fn.body) if isinstance(st, ast.Assign) and any(isinstance(t, ast.Name) and t.id == 'nz' for t in st.targets)]
    floored = set(t.id for st in iter_stmts(fn.body) if isinstance(st, ast.Assign) and re.search(r"max\(.*\b1\b", norm(st.value)) and "'nz'" in norm(st.value) or
                  (isinstance(st, ast.Assign) and re.search(r"max\(nz, ", norm(st.value))) for t in st.targets if isinstance(t, ast.Name))
    uses = [c for c in walk_expr(fn) if isinstance(c, ast.Call) and isinstance(c.func, ast.Attribute) and c.func.attr == 'createDimension' and c.args and const_str(c.args[0]) == 'LAY']
    if not defs or not uses:
        ctx.undec(rule, 'nz', where, 'definition of nz / creation of LAY not found')
        return
    layarg = uses[0].args[1]
    if isinstance(layarg, ast.Name) and layarg.id in floored:
        ctx.ok(rule, 'nz', where, 'LAY = %s, floored at 1' % layarg.id)
    else:
        ctx.violation(Finding(rule, rp, qn, api.stmt_of(uses[0]), 'the LAY dimension gets %s, which is not max(<header nz>, 1): a two-dimensional emissions file (nz = 0 in its grid header) reads with LAY = 0 '
                              '(and, when the stride uses the same value, with a step size that collapses to the time header)' % norm(layarg)))


def run(ctx):
    check_nz_floor(ctx)
    for r, d in (('R-FRAME', 'every emitted record: leading marker = trailing marker = payload byte count; the sequence tiles into records'),
                 ('R-DTYPEPADS', 'SPAD/EPAD pad values equal the byte sum of the bracketed fields'),
                 ('R-RECLAYOUT', 'per-layer record pieces have the kind/size sequence of the reader record'),
                 ('R-BEPAIR', 'begin/end header dates and times paired with the time records (shared with C08)'),
                 ('R-EDGECELLS', 'boundary cell counts agree with the grid header (shared with C08)'),
                 ('R-API', 'writers use only numpy APIs that exist')):
        ctx.rule(r, d)
    src = ctx.src
    nrec = npad = 0
    for fmt, wrp, q, rrp in WRITERS:
        wm = src.mod(CAMX + wrp)
        rm = src.mod(CAMX + rrp)
        fn = wm.func(q)
        where = 'src/PseudoNetCDF/%s %s' % (CAMX + wrp, q)
        dims = reader_var_dims(rm)
        b = dict(wm.assigns)
        b.update(c08.local_bindings(fn))
        w = FR.Writer(wm, fn, var_dims=dims, dtype_bindings=b)
        seq = w.run()
        parsed = FR.parse_records(seq)
        got = judge(ctx, fmt, CAMX + wrp, q, parsed, where)
        # list pieces built by repetition: `[..] * (n - 2)` has 4 * (n - 2) elements only when n >= 2; Python gives the empty list
        # for a negative count, so for the smallest grids the statement admits (every dimension length >= 1) the piece is longer than
        # the polynomial says and the marker no longer equals the payload
        seen_rc = set()
        for e_, cnt in getattr(w, 'repeat_counts', []):
            if norm(e_) in seen_rc or not isinstance(cnt, Poly):
                continue
            seen_rc.add(norm(e_))
            low = sum(cnt.t.values())          # value with every atom = 1 (coefficients of a length expression are >= 0 apart from the constant)
            if all(v_ >= 0 for k_, v_ in cnt.t.items() if k_ != ()) and low < 0:
                atoms = sorted(set(str(a_) for k_ in cnt.t for a_, pw in k_))
                ctx.violation(Finding('R-FRAME', CAMX + wrp, q, api.stmt_of(e_), 'the piece %s is repeated %s times; for %s = 1 that count is negative, Python repeats zero times, and the record then holds '
                                      'more values than its markers announce (%s more): the file written for a grid with a single row / column does not tile into records'
                                      % (norm(e_.left if isinstance(e_.left, ast.List) else e_.right)[:30], cnt, ', '.join(atoms), -low)), oid='%s:repeat:%s' % (fmt, norm(e_)[:30]))
            else:
                ctx.ok('R-FRAME', '%s:repeat:%s' % (fmt, norm(e_)[:30]), where, 'repetition count %s is not negative for lengths >= 1' % cnt)
        if got == 0 and not any(r['kind'] == 'struct' for r in parsed):
            raise AnalysisError('construct not understood: no record emitted by %s' % q)
        nrec += got
        npad += check_pads(ctx, fmt, wm, fn)
        ctx.count('writers interpreted')
    ctx.floor('records judged by R-FRAME', nrec, 12)
    ctx.floor('pad pairs judged by R-DTYPEPADS', npad, 8)
    # landuse pads
    lm = src.mod(CAMX + 'landuse/Write.py')
    check_landuse_pads(ctx, lm)
    # bpch writer pads (geoschem)
    check_bpch_pads(ctx)
    # record kinds: writer pieces vs reader per-layer record
    check_reclayout(ctx)
    # shared rules
    for fmt, cls in (('uamiv', 'uamiv'), ('lateral_boundary', 'lateral_boundary')):
        wm = src.mod(CAMX + fmt + '/Write.py')
        c08.check_bepair(ctx, fmt, wm, wm.func('ncf2' + fmt))
    c08.check_edgecells(ctx)
    # reader side (reference encoder -> library reader): time-step stride inference uses the full identifier
    from . import c13
    ctx.rule('R-STEPID', 'met memmap readers detect the next time step by comparing both identifier words')
    c13.check_idwords_stepid(ctx, only_stepid=True)
    # R-API on writers
    n = 0
    for fmt, wrp, q, rrp in WRITERS + [('landuse', 'landuse/Write.py', 'ncf2landuse', None)]:
        wm = src.mod(CAMX + wrp)
        fn = wm.func(q)
        miss, rem = api.missing_numpy_names(wm, fn), api.removed_method_calls(wm, fn)
        n += 1
        for node, d in miss:
            ctx.violation(Finding('R-API', CAMX + wrp, q, api.stmt_of(node), '%s does not exist in the installed numpy' % d))
        for node, m in rem:
            ctx.violation(Finding('R-API', CAMX + wrp, q, api.stmt_of(node), 'ndarray.%s was removed from numpy: the writer raises for every input' % m))
        if not miss and not rem:
            ctx.ok('R-API', q, 'src/PseudoNetCDF/%s %s' % (CAMX + wrp, q), 'numpy names resolve')
    # FortranFileUtil.writeline: struct.pack(prefix + 'i' + fmt + 'i', n, ..., n)
    check_writeline(ctx)
    # reader side: probing the first record for a key must not raise on the data an unkeyed file starts with
    check_probe_total(ctx)


TOTAL_CODECS = ('latin1', 'latin-1', 'latin_1', 'iso-8859-1', 'iso8859-1', 'l1', 'cp437', 'cp1252x')[:7]


def _decode_calls(fn):
    return [c for c in walk_expr(fn) if isinstance(c, ast.Call) and isinstance(c.func, ast.Attribute) and c.func.attr == 'decode']


def _decode_total(c):
    """can bytes.decode(...) as called raise on some byte string?  total = it cannot"""
    err = kw(c, 'errors') if kw(c, 'errors') is not None else (c.args[1] if len(c.args) > 1 else None)
    if err is not None:
        e = const_str(err)
        return e is not None and e != 'strict'
    enc = kw(c, 'encoding') if kw(c, 'encoding') is not None else (c.args[0] if c.args else None)
    e = const_str(enc) if enc is not None else None
    return e is not None and e.lower() in TOTAL_CODECS


def check_probe_total(ctx):
    """R-PROBETOTAL.  A reader that tells file variants apart by comparing the start of the first record with key strings, and has a
    branch for 'no key' (old-style land-use files start with float data), must obtain the probed value by an operation that is
    defined for every byte string.  The record-file helpers decode what they unpack with the strict default codec: on data bytes
    that raises UnicodeDecodeError, so the 'no key' branch is unreachable for most files the encoder of the format produces."""
    ctx.rule('R-PROBETOTAL', 'a key probe with a no-key branch reads the probed bytes with an operation that cannot raise on data bytes')
    src = ctx.src
    util = src.mod(CAMX + 'FortranFileUtil.py')
    nprobe = 0
    for m in src.all_modules():
        if not (m.relpath.startswith(CAMX) and m.relpath.rsplit('/', 1)[-1] in ('Memmap.py', 'Read.py')):
            continue
        for q, fn in sorted(m.functions.items()):
            for st in iter_stmts(fn.body):
                if not isinstance(st, ast.If):
                    continue
                par = getattr(st, '_parent', None)
                if isinstance(par, ast.If) and par.orelse == [st]:
                    continue        # an elif arm: handled from the head of its chain
                # collect the chain
                keys, cur, name, fall = [], st, None, None
                while True:
                    t = cur.test
                    if not (isinstance(t, ast.Compare) and len(t.ops) == 1 and isinstance(t.ops[0], ast.Eq) and isinstance(t.left, ast.Name)
                            and isinstance(t.comparators[0], ast.Constant) and isinstance(t.comparators[0].value, (str, bytes))):
                        keys = []
                        break
                    if name not in (None, t.left.id):
                        keys = []
                        break
                    name = t.left.id
                    keys.append(t.comparators[0].value)
                    if len(cur.orelse) == 1 and isinstance(cur.orelse[0], ast.If):
                        cur = cur.orelse[0]
                        continue
                    fall = cur.orelse
                    break
                if len(keys) < 2:
                    continue
                # the probed name must come from a read of the file in this function
                bind = None
                for s2 in iter_stmts(fn.body):
                    if s2.lineno >= st.lineno:
                        break
                    if isinstance(s2, ast.Assign) and len(s2.targets) == 1:
                        tg = s2.targets[0]
                        if isinstance(tg, ast.Tuple) and len(tg.elts) == 1:
                            tg = tg.elts[0]
                        if isinstance(tg, ast.Name) and tg.id == name:
                            bind = s2
                if bind is None:
                    continue
                reads = [c for c in walk_expr(bind.value) if isinstance(c, ast.Call) and isinstance(c.func, ast.Attribute)
                         and c.func.attr in ('read', 'unpack', 'aread')]
                if not reads:
                    continue
                nprobe += 1
                where = 'src/PseudoNetCDF/%s %s' % (m.relpath, q)
                oid = '%s:%s' % (m.relpath.split('/')[1], name)
                nokey_ok = not (fall and all(isinstance(x, ast.Raise) for x in fall[-1:]))
                if not nokey_ok:
                    ctx.ok('R-PROBETOTAL', oid, where, 'every file without one of the keys %s is rejected' % (keys,))
                    continue
                rd = reads[0]
                fmtarg = rd.args[0] if rd.args else None
                if isinstance(fmtarg, ast.Constant) and isinstance(fmtarg.value, str):
                    # struct-style read through the record-file helper: follow OpenRecordFile.<read|unpack> into unpack_from_file
                    meths = [f for k, f in sorted(util.functions.items()) if k.endswith('.' + rd.func.attr)]
                    if not meths:
                        ctx.undec('R-PROBETOTAL', oid, where, 'reader method %s not resolved' % rd.func.attr)
                        continue
                    bodies = meths + [util.functions[c.func.id] for meth in meths for c in walk_expr(meth) if isinstance(c, ast.Call)
                                      and isinstance(c.func, ast.Name) and c.func.id in util.functions]
                    decs = [c for b in bodies for c in _decode_calls(b)]
                    partial = [c for c in decs if not _decode_total(c)]
                    if partial:
                        ctx.violation(Finding('R-PROBETOTAL', m.relpath, q, bind,
                                              '%s is probed for the keys %s and any other content is taken as a file without key records, but the '
                                              'probe goes through %s, which decodes the bytes with the strict default codec (%s): the float data an '
                                              'unkeyed file starts with raise UnicodeDecodeError, so such files cannot be opened'
                                              % (name, keys, 'OpenRecordFile.' + rd.func.attr, norm(partial[0]))), oid=oid)
                    else:
                        ctx.ok('R-PROBETOTAL', oid, where, 'record-file helper decodes with a total codec (%d decode calls)' % len(decs))
                    continue
                # raw read of n bytes, compared as bytes or decoded with a total codec
                outer = [c for c in _decode_calls(bind.value)]
                if all(_decode_total(c) for c in outer):
                    ctx.ok('R-PROBETOTAL', oid, where, 'probe reads raw bytes%s' % (' and decodes them with a codec defined for every byte' if outer else ''))
                else:
                    ctx.violation(Finding('R-PROBETOTAL', m.relpath, q, bind,
                                          '%s is probed for the keys %s with a no-key branch, but %s can raise on data bytes' % (name, keys, norm(outer[0]))), oid=oid)
    ctx.floor('key probes judged by R-PROBETOTAL', nprobe, 1)


def check_landuse_pads(ctx, lm):
    fn = lm.func('ncf2landuse')
    where = 'src/PseudoNetCDF/camxfiles/landuse/Write.py ncf2landuse'
    t = ' ; '.join(norm(s) for s in iter_stmts(fn.body))
    ok1 = "var['SPAD1'] = 8" in t and "var['EPAD1'] = 8" in t and "'8>S'" in t
    ok2 = "var['SPAD2'][...] = invar.size * 4" in t and "var['EPAD2'][...] = invar.size * 4" in t
    if ok1:
        ctx.ok('R-DTYPEPADS', 'landuse:KEY pads', where, 'SPAD1 = EPAD1 = 8 = bytes of the 8-character key')
    else:
        ctx.violation(Finding('R-DTYPEPADS', lm.relpath, 'ncf2landuse', fn.body[-3], 'key record pads are not both 8 (the key field is 8 bytes)'))
    if ok2:
        ctx.undec('R-DTYPEPADS', 'landuse:DATA pads', where, 'SPAD2 = EPAD2 = invar.size * 4; equality with the DATA field size depends on the input variable shape')
    else:
        ctx.violation(Finding('R-DTYPEPADS', lm.relpath, 'ncf2landuse', fn.body[-3], 'data record pads are not both invar.size * 4'))


def check_bpch_pads(ctx):
    rp = 'geoschemfiles/_bpch.py'
    m = ctx.src.mod(rp)
    fn = m.func('ncf2bpch')
    where = 'src/PseudoNetCDF/%s ncf2bpch' % rp
    b = c08.local_bindings(fn)
    env = DT.DtypeEnv(b)
    gh = env.eval(b['_general_header_type'])
    dh = env.eval(b['_datablock_header_type'])
    t = ' ; '.join(norm(s) for s in iter_stmts(fn.body))

    def between(lay, a, c):
        names = [f.name for f in lay]
        return DT.nbytes(lay[names.index(a) + 1:names.index(c)])
    # every store of a record marker, by access path with local aliases resolved (paths.stores_by_path): the markers of one
    # header object, however the object is named and whether the two are stored in one statement or two
    from .. import paths as _paths
    table = _paths.stores_by_path(fn)
    for lay, hdrtxt, a, c in ((gh, "general_header", 'SPAD1', 'EPAD1'), (gh, "general_header", 'SPAD2', 'EPAD2'),
                              (dh, "tdv['header']", 'SPAD1', 'EPAD1'), (dh, "tdv['header']", 'SPAD2', 'EPAD2')):
        want = between(lay, a, c).constval()
        isblock = hdrtxt != 'general_header'
        opens = dict((k[:-len("['%s']" % a)], v) for k, v in table.items() if k.endswith("['%s']" % a) and (k[:-len("['%s']" % a)].endswith("['header']") == isblock)
                     and (isblock or 'header' in k))
        closes = dict((k[:-len("['%s']" % c)], v) for k, v in table.items() if k.endswith("['%s']" % c))
        good = bad = None
        for pre, vals in opens.items():
            cv = closes.get(pre)
            ov = set(v for v, st_ in vals)
            if cv is not None and ov == set(v for v, st_ in cv) == set([str(want)]):
                good = pre
            else:
                bad = (pre, sorted(ov), sorted(set(v for v, st_ in cv)) if cv else None, vals[0][1])
        if good is not None and bad is None:
            ctx.ok('R-DTYPEPADS', 'bpch:%s.%s' % (hdrtxt, a), where, "%s['%s'] = %s['%s'] = %d" % (good, a, good, c, want))
        else:
            ctx.violation(Finding('R-DTYPEPADS', rp, 'ncf2bpch', bad[3] if bad else fn.body[0], 'bpch %s pads %s/%s must both be %d (bytes of the bracketed fields); found %s'
                                  % (hdrtxt, a, c, want, ('%s / %s' % (bad[1], bad[2])) if bad else 'no paired store')), oid='bpch:%s.%s' % (hdrtxt, a))
    # the data record: both markers of the per-variable block (not of its header) hold prod(shape of the step's values) * 4, and the
    # data field is declared as float32 of the variable's per-step shape - through the store table / the dtype expression wherever built
    recpads = dict((k, sorted(set(v for v, st_ in vs))) for k, vs in table.items() if (k.endswith("['SPAD1']") or k.endswith("['EPAD1']")) and "['header']" not in k
                   and not k.startswith('general_header'))
    padvals = set(v for vs in recpads.values() for v in vs)
    okpads = len(recpads) == 2 and len(padvals) == 1 and re.match(r"^np\.prod\((vals|[\w\.\[\]']+\[ti\])\.shape\) \* 4$", list(padvals)[0])
    dfmt = [norm(n) for n in ast.walk(fn) if isinstance(n, ast.BinOp) and isinstance(n.op, ast.Mod) and isinstance(n.left, ast.Constant) and n.left.value == '%s>f']
    okfmt = any(re.match(r"^'%s>f' % \(?(str\()?tuple\(var\[0\]\.shape\)\)?,?\)?$", d_) for d_ in dfmt)
    if not okfmt:
        # the shape text may be built in its own statement
        for n in ast.walk(fn):
            if isinstance(n, ast.BinOp) and isinstance(n.op, ast.Mod) and isinstance(n.left, ast.Constant) and n.left.value == '%s>f' and isinstance(n.right, ast.Name):
                defs_ = [s2 for s2 in ast.walk(fn) if isinstance(s2, ast.Assign) and any(isinstance(t_, ast.Name) and t_.id == n.right.id for t_ in s2.targets)]
                if defs_ and norm(defs_[-1].value) in ('str(tuple(var[0].shape))', 'tuple(var[0].shape)'):
                    okfmt = True
    if okpads and okfmt:
        ctx.ok('R-DTYPEPADS', 'bpch:data record', where, 'pads = prod(vals.shape) * 4 for a float32 field of shape var[0].shape')
    else:
        ctx.violation(Finding('R-DTYPEPADS', rp, 'ncf2bpch', fn.body[0], 'bpch data record pads are not prod(shape) * 4'), oid='bpch:data')
    if "header['skip'] = tdv['SPAD1'] + 8" in t:
        ctx.ok('R-DTYPEPADS', 'bpch:skip', where, 'skip = data bytes + 2 markers')
    else:
        ctx.violation(Finding('R-DTYPEPADS', rp, 'ncf2bpch', fn.body[0], "header['skip'] must be the data record length including its two markers"), oid='bpch:skip')


def check_reclayout(ctx):
    src = ctx.src
    for fmt, recname, want in (('uamiv', 'spc_1_lay_fmt', None), ('lateral_boundary', 'spc_we_fmt', None)):
        rm = src.mod(CAMX + fmt + '/Memmap.py')
        rh = rm.func(fmt + '.__readheader')
        b = c08.class_dtype_bindings(rm, fmt)
        b.update(c08.local_bindings(rh))
        env = DT.DtypeEnv(b)
        lay = env.eval(b[recname])
        kinds = [(f.kind, f.itemsize if f.kind != 'S' else 1) for f in lay]
        wm = src.mod(CAMX + fmt + '/Write.py')
        fn = wm.func('ncf2' + fmt)
        dims = reader_var_dims(rm)
        wb = dict(wm.assigns)
        wb.update(c08.local_bindings(fn))
        w = FR.Writer(wm, fn, var_dims=dims, dtype_bindings=wb)
        parsed = FR.parse_records(w.run())

        def find(parsed):
            for r in parsed:
                if r['kind'] == 'loop':
                    x = find(r['sub'])
                    if x:
                        return x
                if r['kind'] == 'record' and len(r['payload']) >= 3:
                    return r
            return None
        rec = find(parsed)
        where = 'src/PseudoNetCDF/%s/Write.py vs Memmap.py' % (CAMX + fmt)
        if rec is None:
            ctx.undec('R-RECLAYOUT', fmt, where, 'no multi-piece record found in the writer')
            continue
        wk = [('i', 4)] + [((p.kind if p.kind != 'struct' else 'S'), (1 if p.kind in ('struct', 'S') else 4)) for p in rec['payload']] + [('i', 4)]
        if wk == kinds:
            ctx.ok('R-RECLAYOUT', fmt, where, 'writer pieces %s == reader record %s' % (wk, [f.name for f in lay]))
        else:
            ctx.violation(Finding('R-RECLAYOUT', CAMX + fmt + '/Write.py', 'ncf2' + fmt, api.stmt_of(rec['open'].node),
                                  'the per-layer record is written as %s but the reader maps %s (%s)' % (wk, kinds, [f.name for f in lay])))


def check_writeline(ctx):
    rp = CAMX + 'FortranFileUtil.py'
    m = ctx.src.mod(rp)
    fn = m.func('writeline')
    where = 'src/PseudoNetCDF/%s writeline' % rp
    # path-wise with temporaries substituted (paths.py): on every returning path the value is struct.pack(F, *D) with
    # F = [byte order] 'i' + fmt + 'i' and D = the payload bracketed by struct.calcsize(fmt) - built by concatenation or by
    # insert(0, n) / append(n) on a copy
    from .. import paths as _paths
    params = [a_.arg for a_ in fn.args.args]
    fmtp = params[1] if len(params) > 1 else 'fmt'
    LEN = 'struct.calcsize(%s)' % fmtp

    def concat_terms(e):
        if isinstance(e, ast.BinOp) and isinstance(e.op, ast.Add):
            return concat_terms(e.left) + concat_terms(e.right)
        return [e]
    okf = okd = okp = oklen = True
    nret = 0
    for pth in _paths.function_paths(fn):
        if pth.exit[0] != 'return':
            continue
        res = _paths.expand(pth)
        if not res.feasible:
            continue
        ret = [new for st, new in res.stmts if isinstance(st, ast.Return)][-1].value
        if not (isinstance(ret, ast.Call) and dotted(ret.func) == 'struct.pack' and len(ret.args) == 2 and isinstance(ret.args[1], ast.Starred)):
            okp = False
            continue
        nret += 1
        # the format
        terms = concat_terms(ret.args[0])
        pieces = []
        for t_ in terms:
            if isinstance(t_, ast.Constant) and isinstance(t_.value, str):
                if pieces and pieces[-1][0] == 'c':
                    pieces[-1] = ('c', pieces[-1][1] + t_.value)
                else:
                    pieces.append(('c', t_.value))
            else:
                pieces.append(('e', norm(t_)))
        txt = [x for k_, x in pieces if not (k_ == 'c' and x == '')]
        import re as _re
        if not (len(txt) == 3 and _re.match(r'^[<>=!@]?i$', txt[0]) and txt[1] == fmtp and txt[2] == 'i'):
            okf = False
        # the payload
        dv = ret.args[1].value
        dt = concat_terms(dv)
        if len(dt) >= 3 and all(isinstance(x, ast.List) and len(x.elts) == 1 for x in (dt[0], dt[-1])):
            a_, b_ = norm(dt[0].elts[0]), norm(dt[-1].elts[0])
            if a_ != b_:
                okd = False
            if a_ != LEN or b_ != LEN:
                oklen = False
        elif isinstance(dv, ast.Name):
            ins = [c_ for st, new in res.stmts for c_ in ast.walk(new) if isinstance(c_, ast.Call) and isinstance(c_.func, ast.Attribute) and norm(c_.func.value) == dv.id
                   and c_.func.attr == 'insert' and len(c_.args) == 2 and norm(c_.args[0]) == '0']
            app = [c_ for st, new in res.stmts for c_ in ast.walk(new) if isinstance(c_, ast.Call) and isinstance(c_.func, ast.Attribute) and norm(c_.func.value) == dv.id
                   and c_.func.attr == 'append' and len(c_.args) == 1]
            if len(ins) != 1 or len(app) != 1 or norm(ins[0].args[1]) != norm(app[0].args[0]):
                okd = False
            elif norm(ins[0].args[1]) != LEN:
                oklen = False
        else:
            okd = False
    conds = [(oklen, 'the length word is struct.calcsize of the payload format'),
             (okf, "the packed format is 'i' + fmt + 'i'"),
             (okd, 'the same length word is placed before and after the payload'),
             (okp and nret > 0, 'packed with that format')]
    bad = [why for ok, why in conds if not ok]
    if not bad:
        ctx.ok('R-FRAME', 'FortranFileUtil.writeline', where, 'pack(">" + "i" + fmt + "i", calcsize(fmt), *payload, calcsize(fmt))')
    else:
        ctx.violation(Finding('R-FRAME', rp, 'writeline', fn.body[-1], 'writeline no longer brackets the payload with its byte length: ' + '; '.join(bad)))
