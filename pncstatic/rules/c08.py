"""C08 - CAMx write/read round trip: layout, mapping and pairing agreement between each writer and its
memory-mapped reader.

R-HDRTABLE   header layouts (emiss, grid, cell, time, species) of Write.py and Memmap.py are the same flattened
             sequence of (kind, item size, count); field names agree position-wise.
R-ATTRFIELD  (header field <-> file attribute / dimension) relation of the writer is the inverse of the reader's.
R-TFLAGPAIR  ConvertCAMxTime(DATE[d], DATE[t]) uses adjacent fields (begin: BDATE,BTIME; end: EDATE,ETIME).
R-BEPAIR     begin/end slots: begin fields receive begin values, end fields end values; date roll-over pairs a
             date field with the time field of the same slot.
R-EDGECELLS  lateral boundary: edge -> cell-count dimension table agrees between writer and reader.
R-VARORDER   cloud/rain: the writer emits variables in the order the reader maps the records.
R-ONESTEP    memory-mapped met readers: the search for the second time step is defined for single-step files.
R-API        registered writers and the readers use only numpy APIs that exist.
"""
import ast
import re

from ..engine import AnalysisError, dotted, iter_stmts, norm, walk_expr, const_str, kw
from ..report import Finding
from ..sizealg import Poly, to_poly
from .. import dtypes as DT
from .. import api

LEVEL_TEXT = (
    "Static writer/reader agreement checks (ast, dtype-literal evaluator, size algebra): the five header layouts of "
    "uamiv and lateral_boundary (and the land-use records) flatten to the same (kind, size, count) sequence on both "
    "sides; every header field the writer fills from a file attribute or dimension is read back into that same "
    "attribute/dimension; begin/end time-flag fields are paired; edge/cell-count and variable-order tables agree; all "
    "numpy names used by writers and readers exist. float32 identity of payloads, date roll-over arithmetic and "
    "byte-identical rewrite are not decided.")

CAMX = 'camxfiles/'
ALIASES = {'rdum5': 'rdum'}
HDRS = ['emiss_hdr', 'grid_hdr', 'cell_hdr']


def class_dtype_bindings(mod, clsname):
    """dtype-valued assignments of a reader class: class-level and self.__x = ... in methods"""
    out = {}
    c = mod.cls(clsname)
    for st in c.body:
        if isinstance(st, ast.Assign) and isinstance(st.targets[0], ast.Name):
            out[st.targets[0].id.lstrip('_')] = st.value
    for st in ast.walk(c):
        if isinstance(st, ast.Assign) and isinstance(st.targets[0], ast.Attribute) and isinstance(st.targets[0].value, ast.Name) \
                and st.targets[0].value.id == 'self':
            out.setdefault(st.targets[0].attr.lstrip('_'), st.value)
    return out


def local_bindings(fn):
    out = {}
    for st in iter_stmts(fn.body):
        if isinstance(st, ast.Assign) and isinstance(st.targets[0], ast.Name):
            out[st.targets[0].id] = st.value
    return out


def cmp_layout(ctx, rule, tag, wf, rf, relpath, qual, node, where):
    a, b = DT.flatten(wf), DT.flatten(rf)
    if a != b:
        ctx.violation(Finding(rule, relpath, qual, node,
                              '%s: writer layout %s differs from reader layout %s' % (tag, DT.describe(wf)[:160], DT.describe(rf)[:160])), oid=tag)
        return
    names_w = [ALIASES.get(f.name, f.name) for f in wf]
    names_r = [ALIASES.get(f.name, f.name) for f in rf]
    if len(names_w) == len(names_r) and names_w != names_r and not all(n.startswith('f') and n[1:].isdigit() for n in names_w + names_r):
        diff = [(x, y) for x, y in zip(names_w, names_r) if x != y]
        ctx.violation(Finding(rule, relpath, qual, node, '%s: same byte layout but the field names differ position-wise %s: a value '
                              'written under one name is read under another' % (tag, diff)), oid=tag)
        return
    ctx.ok(rule, tag, where, '%s bytes: %s' % (DT.nbytes(wf), DT.describe(wf)[:100]))


def writer_relation(mod, fn):
    """-> {(hdr, field): ('attr', NAME) | ('poly', Poly over dim atoms)}  last store before H.tofile wins"""
    env = {}
    rel = {}
    for st in iter_stmts(fn.body):
        if isinstance(st, ast.Assign) and len(st.targets) == 1 and isinstance(st.targets[0], ast.Name):
            v = st.value
            m = re.match(r"^len\(ncffile\.dimensions\['(\w+[-\w]*)'\]\)(.*)$", norm(v))
            if m:
                env[st.targets[0].id] = to_poly(v, env, atomize=_dim_atom)
            continue
        if not isinstance(st, ast.Assign):
            continue
        for t in st.targets:
            # H['field'] = V ; H['field'][0] = V ; H[0]['field'][...] = V
            keys, base = [], t
            while isinstance(base, ast.Subscript):
                if const_str(base.slice):
                    keys.append(const_str(base.slice))
                base = base.value
            if not (isinstance(base, ast.Name) and keys):
                continue
            hdr, field = base.id, keys[-1]
            v = st.value
            val = None
            attrs = [n for n in walk_expr(v) if isinstance(n, ast.Attribute) and isinstance(n.value, ast.Name) and n.value.id == 'ncffile'
                     and n.attr not in ('dimensions', 'variables')]
            if len(attrs) == 1 and (norm(v) == 'ncffile.' + attrs[0].attr or norm(v).startswith('np.array(ncffile.' + attrs[0].attr)):
                val = ('attr', attrs[0].attr)
            elif isinstance(v, ast.Name) and v.id in env:
                val = ('poly', env[v.id])
            elif isinstance(v, ast.Subscript) and isinstance(v.value, ast.Name) and const_str(v.slice) and (v.value.id, const_str(v.slice)) in rel:
                val = rel[(v.value.id, const_str(v.slice))]
            else:
                p = None
                try:
                    p = to_poly(v, env, atomize=_dim_atom)
                except Exception:
                    p = None
                if p is not None and p.atoms() and all(a.startswith('dim:') for a in p.atoms()):
                    val = ('poly', p)
            rel[(hdr, field)] = val      # a later store of something else overwrites (None = not a mapped value)
    return dict((k, v) for k, v in rel.items() if v is not None)


def _dim_atom(n):
    m = re.match(r"^len\(ncffile\.dimensions\['([-\w]+)'\]\)$", norm(n))
    if m:
        return 'dim:' + m.group(1)
    return None


def reader_relation(mod, clsname):
    """-> attrs {(hdr, field): set(ATTR)} ; dims {DIM: Poly over 'fld:hdr.field' atoms}"""
    attrs, dims = {}, {}
    c = mod.cls(clsname)
    for fn in [s for s in c.body if isinstance(s, ast.FunctionDef)]:
        env = {}        # local -> (hdr, field)
        penv = {}       # local -> Poly
        for st in iter_stmts(fn.body):
            if isinstance(st, ast.Assign):
                src = None
                for n in walk_expr(st.value):
                    if isinstance(n, ast.Subscript) and const_str(n.slice) and isinstance(n.value, ast.Attribute) \
                            and isinstance(n.value.value, ast.Name) and n.value.value.id == 'self' and n.value.attr.lstrip('_') in HDRS:
                        src = (n.value.attr.lstrip('_'), const_str(n.slice))
                if src is None:
                    used = set(n.id for n in walk_expr(st.value) if isinstance(n, ast.Name) and n.id in env)
                    if len(used) == 1 and not any(isinstance(n, (ast.BinOp, ast.Compare)) for n in walk_expr(st.value)):
                        src = env[list(used)[0]]      # name = name.decode() / local copies keep their source field
                # dict lookups keyed by a header field ({0: 1, ...}[field]) are derived values, not the field itself
                derived = src is not None and isinstance(st.value, ast.Subscript) and isinstance(st.value.value, ast.Dict)
                for t in st.targets:
                    if isinstance(t, ast.Name):
                        if src is not None and not derived:
                            env[t.id] = src
                            penv[t.id] = Poly.atom('fld:%s.%s' % src)
                        else:
                            env.pop(t.id, None)
                            try:
                                penv[t.id] = to_poly(st.value, penv)
                            except Exception:
                                penv.pop(t.id, None)
                    elif isinstance(t, ast.Attribute) and isinstance(t.value, ast.Name) and t.value.id == 'self' and src is not None and not derived \
                            and not t.attr.startswith('_'):
                        attrs.setdefault(src, set()).add(t.attr)
            for c2 in walk_expr(st) if isinstance(st, (ast.Expr, ast.Assign)) else []:
                if isinstance(c2, ast.Call) and dotted(c2.func) == 'self.createDimension' and len(c2.args) == 2 and const_str(c2.args[0]):
                    try:
                        dims[const_str(c2.args[0])] = to_poly(c2.args[1], penv)
                    except Exception:
                        pass
    return attrs, dims


def check_format(ctx, fmt, reader_cls):
    src = ctx.src
    wrp, rrp = CAMX + fmt + '/Write.py', CAMX + fmt + '/Memmap.py'
    wm, rm = src.mod(wrp), src.mod(rrp)
    wfn = wm.func('ncf2' + fmt)
    wenv = DT.DtypeEnv(wm.assigns)
    rb = class_dtype_bindings(rm, reader_cls)
    rh = rm.func(reader_cls + '.__readheader')
    rb.update(local_bindings(rh))
    renv = DT.DtypeEnv(rb, atomize=lambda n: None)
    where = 'src/PseudoNetCDF/%s vs %s' % (wrp, rrp)
    pairs = [('emiss', '_emiss_hdr_fmt', 'emiss_hdr_fmt'), ('grid', '_grid_hdr_fmt', 'grid_hdr_fmt'), ('cell', '_cell_hdr_fmt', 'cell_hdr_fmt'),
             ('time', '_time_hdr_fmt', 'date_time_fmt'), ('species', '_spc_fmt', 'spc_fmt')]
    for tag, wn, rn in pairs:
        if wn not in wm.assigns:
            raise AnalysisError('anchor vanished: %s in %s' % (wn, wrp))
        if rn not in rb:
            raise AnalysisError('anchor vanished: %s in %s' % (rn, rrp))
        wf = wenv.eval(wm.assigns[wn])
        rf = renv.eval(rb[rn])
        if tag == 'time':
            # reader names the same record BDATE/BTIME/EDATE/ETIME: compare layout only, names by role
            role = {'ibdate': 'BDATE', 'btime': 'BTIME', 'iedate': 'EDATE', 'etime': 'ETIME'}
            for f in wf:
                f.name = role.get(f.name, f.name)
        cmp_layout(ctx, 'R-HDRTABLE', '%s:%s' % (fmt, tag), wf, rf, wrp, 'module', wm.assigns[wn], where)
    # ---- R-ATTRFIELD
    wrel = writer_relation(wm, wfn)
    rattrs, rdims = reader_relation(rm, reader_cls)
    n = 0
    for (hdr, field), val in sorted(wrel.items()):
        if hdr not in HDRS:
            continue
        n += 1
        oid = '%s:%s.%s' % (fmt, hdr, field)
        if val[0] == 'attr':
            got = rattrs.get((hdr, field), set())
            if val[1] in got:
                ctx.ok('R-ATTRFIELD', oid, where, 'writer %s[%r] <- %s ; reader %s <- %s[%r]' % (hdr, field, val[1], val[1], hdr, field))
            else:
                st = _find_store(wfn, hdr, field)
                ctx.violation(Finding('R-ATTRFIELD', wrp, 'ncf2' + fmt, st,
                                      'the writer fills header field %s[%r] from attribute %s, but the reader assigns that field to %s: '
                                      'after write/read the attribute comes back from a different field' % (hdr, field, val[1], sorted(got) or 'nothing')), oid=oid)
        else:
            p = val[1]
            atoms = [a for a in p.atoms()]
            if len(atoms) != 1:
                ctx.undec('R-ATTRFIELD', oid, where, 'field computed from %s' % p)
                continue
            dim = atoms[0][4:]
            rp_ = rdims.get(dim)
            if rp_ is None:
                ctx.undec('R-ATTRFIELD', oid, where, 'reader does not create dimension %s from a header field' % dim)
                continue
            if ('fld:%s.%s' % (hdr, field)) not in rp_.atoms():
                ctx.ok('R-ATTRFIELD', oid, where, 'redundant header field: the reader derives %s from %s' % (dim, rp_))
                continue
            comp = rp_.subst({'fld:%s.%s' % (hdr, field): p})
            if comp is not None and comp == Poly.atom(atoms[0]):
                ctx.ok('R-ATTRFIELD', oid, where, 'writer %s[%r] = %s ; reader %s = %s' % (hdr, field, p, dim, rp_))
            else:
                st = _find_store(wfn, hdr, field)
                ctx.violation(Finding('R-ATTRFIELD', wrp, 'ncf2' + fmt, st,
                                      'the writer stores %s into %s[%r] but the reader derives dimension %s as %s: the round trip '
                                      'does not return the same length' % (p, hdr, field, dim, rp_)), oid=oid)
    ctx.floor('%s attribute/field pairs' % fmt, n, 12)
    # ---- R-TFLAGPAIR in the reader
    date_names = [f.name for f in renv.eval(rb['date_time_fmt'])]
    npair = 0
    # local aliases of the DATE record (datehdr = self.__memmap__['DATE'])
    date_alias = set()
    for st_ in ast.walk(rm.cls(reader_cls)):
        if isinstance(st_, ast.Assign) and len(st_.targets) == 1 and isinstance(st_.targets[0], ast.Name) and isinstance(st_.value, ast.Subscript) \
                and const_str(st_.value.slice) == 'DATE':
            date_alias.add(st_.targets[0].id)
    for c in ast.walk(rm.cls(reader_cls)):
        if isinstance(c, ast.Call) and dotted(c.func) == 'ConvertCAMxTime' and len(c.args) >= 2:
            ks = []
            for a in c.args[:2]:
                k = None
                if isinstance(a, ast.Subscript) and const_str(a.slice) and isinstance(a.value, ast.Subscript) and const_str(a.value.slice) == 'DATE':
                    k = const_str(a.slice)
                if isinstance(a, ast.Subscript) and const_str(a.slice) and isinstance(a.value, ast.Name) and a.value.id in date_alias:
                    k = const_str(a.slice)
                ks.append(k)
            if None in ks:
                continue
            npair += 1
            oid = '%s:ConvertCAMxTime(%s,%s)' % (fmt, ks[0], ks[1])
            if ks[0] in date_names and ks[1] in date_names and date_names.index(ks[1]) == date_names.index(ks[0]) + 1 \
                    and date_names.index(ks[0]) in (1, 3):
                ctx.ok('R-TFLAGPAIR', oid, 'src/PseudoNetCDF/%s %s' % (rrp, reader_cls), 'adjacent fields %d,%d of the DATE record' % (date_names.index(ks[0]), date_names.index(ks[1])))
            else:
                ctx.violation(Finding('R-TFLAGPAIR', rrp, reader_cls + '.__init__', api.stmt_of(c),
                                      'the time flag is built from DATE fields (%s, %s), which are not a (date, time) pair of the same slot in %s'
                                      % (ks[0], ks[1], date_names)), oid=oid)
    ctx.floor('%s ConvertCAMxTime pairs' % fmt, npair, 2)
    return wm, wfn, rm


def _find_store(fn, hdr, field):
    last = None
    for st in iter_stmts(fn.body):
        if isinstance(st, ast.Assign):
            for t in st.targets:
                if norm(t).startswith(hdr) and ("['%s']" % field) in norm(t):
                    last = st
    return last if last is not None else fn


SLOT = {'ibdate': ('b', 'date'), 'btime': ('b', 'time'), 'iedate': ('e', 'date'), 'etime': ('e', 'time')}
NAME_ROLE = {'date_s': ('b', 'date'), 'time_s': ('b', 'time'), 'date_e': ('e', 'date'), 'time_e': ('e', 'time'),
             'date': ('b', 'date'), 'time': ('b', 'time'), 'EDATE': ('e', 'date'), 'ETIME': ('e', 'time')}


def check_bepair(ctx, fmt, wm, wfn):
    """stores into begin/end header fields and date roll-over statements pair slots consistently"""
    wrp = wm.relpath
    where = 'src/PseudoNetCDF/%s %s' % (wrp, wfn.name)
    n = 0
    for st in iter_stmts(wfn.body):
        tg = None
        if isinstance(st, (ast.Assign, ast.AugAssign)):
            tg = st.targets[0] if isinstance(st, ast.Assign) else st.target
        if tg is None:
            continue
        # field store
        fld = None
        b = tg
        while isinstance(b, ast.Subscript):
            if const_str(b.slice) in SLOT:
                fld = const_str(b.slice)
            b = b.value
        if fld is not None and isinstance(b, ast.Name):
            slot, kind = SLOT[fld]
            v = st.value
            roles = set()
            for nme in walk_expr(v):
                if isinstance(nme, ast.Name) and nme.id in NAME_ROLE:
                    roles.add(NAME_ROLE[nme.id])
                if isinstance(nme, ast.Subscript) and const_str(nme.slice) in SLOT:
                    roles.add(SLOT[const_str(nme.slice)])
                if isinstance(nme, ast.Attribute) and nme.attr in ('SDATE', 'STIME'):
                    roles.add(('b', 'date' if nme.attr == 'SDATE' else 'time'))
            if not roles:
                continue
            n += 1
            oid = '%s:%s' % (fmt, norm(st)[:60])
            if isinstance(st, ast.AugAssign):
                # roll-over: X[date slot] += f(X[time slot]) ; X[time] -= f(X[time])   -> same slot
                bad = [r for r in roles if r[0] != slot]
                if bad:
                    ctx.violation(Finding('R-BEPAIR', wrp, wfn.name, st, 'the %s %s field is rolled over with a value of the %s slot: '
                                          'the end date does not advance when the end time passes midnight'
                                          % ({'b': 'begin', 'e': 'end'}[slot], kind, {'b': 'begin', 'e': 'end'}[bad[0][0]])), oid=oid)
                else:
                    ctx.ok('R-BEPAIR', oid, where, 'roll-over within the %s slot' % slot)
            else:
                # plain store: the value must have the same kind; an end field may be initialised from begin values
                # (end = begin + step) but never an *end* value into a begin field, and never a date into a time field
                kinds = set(r[1] for r in roles)
                if kind not in kinds and kinds:
                    ctx.violation(Finding('R-BEPAIR', wrp, wfn.name, st, 'a %s value is stored into the %s field %s' % (sorted(kinds)[0], kind, fld)), oid=oid)
                elif slot == 'b' and any(r[0] == 'e' for r in roles):
                    ctx.violation(Finding('R-BEPAIR', wrp, wfn.name, st, 'an end-slot value is stored into the begin field %s' % fld), oid=oid)
                elif slot == 'e' and all(r[0] == 'b' for r in roles) and _pure_copy(v):
                    # exact copy of a begin value into an end field: allowed only when a roll-over/increment of that field follows
                    if _incremented_later(wfn, st, fld, b.id):
                        ctx.ok('R-BEPAIR', oid, where, 'end field initialised from the begin value and advanced afterwards')
                    else:
                        ctx.violation(Finding('R-BEPAIR', wrp, wfn.name, st, 'the end field %s receives the begin value unchanged' % fld), oid=oid)
                else:
                    ctx.ok('R-BEPAIR', oid, where, '%s field <- %s' % (fld, sorted(roles)))
        # name-level roll-over: date_e += (time_e // 24)
        if isinstance(st, ast.AugAssign) and isinstance(tg, ast.Name) and tg.id in NAME_ROLE:
            roles = set(NAME_ROLE[x.id] for x in walk_expr(st.value) if isinstance(x, ast.Name) and x.id in NAME_ROLE)
            if roles:
                n += 1
                slot = NAME_ROLE[tg.id][0]
                oid = '%s:%s' % (fmt, norm(st)[:60])
                if any(r[0] != slot for r in roles):
                    ctx.violation(Finding('R-BEPAIR', wrp, wfn.name, st, '%s is rolled over with a value of the other slot' % tg.id), oid=oid)
                else:
                    ctx.ok('R-BEPAIR', oid, where, 'roll-over within the %s slot' % slot)
    return n


def _pure_copy(v):
    return isinstance(v, (ast.Name, ast.Subscript)) or (isinstance(v, ast.Call) and isinstance(v.func, ast.Attribute) and v.func.attr == 'copy')


def _incremented_later(fn, st, fld, hdr):
    for s2 in iter_stmts(fn.body):
        if s2.lineno > st.lineno and isinstance(s2, ast.AugAssign) and ("['%s']" % fld) in norm(s2.target) \
                and norm(s2.target).startswith(hdr):
            return True
    return False


def check_edgecells(ctx):
    src = ctx.src
    wm = src.mod(CAMX + 'lateral_boundary/Write.py')
    rm = src.mod(CAMX + 'lateral_boundary/Memmap.py')
    wfn = wm.func('ncf2lateral_boundary')
    rfn = rm.func('lateral_boundary.__readheader')
    where = 'src/PseudoNetCDF/camxfiles/lateral_boundary Write.py vs Memmap.py'
    # reader table: for bkey, bdim in [('WEST', ny), ...]
    rtab = {}
    from .. import paths as _paths
    for st in iter_stmts(rfn.body):
        if not isinstance(st, ast.For):
            continue
        it = st.iter
        # a literal list of (edge, count) pairs, or zip(<edges>, <counts>) of two lists (named or literal)
        if isinstance(it, ast.Call) and dotted(it.func) == 'zip' and len(it.args) == 2:
            env = _paths.dominating_env(rfn, st, deep=False)
            a_, b_ = [env.get(x.id, x) if isinstance(x, ast.Name) else x for x in it.args]
            if isinstance(a_, (ast.List, ast.Tuple)) and isinstance(b_, (ast.List, ast.Tuple)) and len(a_.elts) == len(b_.elts):
                it = ast.List(elts=[ast.Tuple(elts=[x, y], ctx=ast.Load()) for x, y in zip(a_.elts, b_.elts)], ctx=ast.Load())
        if isinstance(it, ast.List) and it.elts and all(isinstance(e, ast.Tuple) and len(e.elts) == 2 and const_str(e.elts[0]) for e in it.elts):
            for e in it.elts:
                rtab[const_str(e.elts[0])] = norm(e.elts[1])
    rfield = {}
    for st in iter_stmts(rfn.body):
        if isinstance(st, ast.Assign) and isinstance(st.targets[0], ast.Name):
            m = re.search(r"grid_hdr\['(\w+)'\]", norm(st.value))
            if m:
                rfield[st.targets[0].id] = m.group(1)
    # writer: nbcell = <expr of ename>
    nb = [st for st in iter_stmts(wfn.body) if isinstance(st, ast.Assign) and isinstance(st.targets[0], ast.Name) and st.targets[0].id == 'nbcell']
    if not nb or len(rtab) != 4:
        raise AnalysisError('construct not understood: edge/cell-count tables of lateral_boundary')
    wfield = {}
    for st in iter_stmts(wfn.body):
        if isinstance(st, ast.Assign) and isinstance(st.value, ast.Name):
            m = re.match(r"^grid_hdr\['(\w+)'\]$", norm(st.targets[0]))
            if m:
                wfield[st.value.id] = m.group(1)

    def ev(e, edge):
        if isinstance(e, ast.Subscript) and isinstance(e.slice, ast.Name):
            d = e.value
            if isinstance(d, ast.Call) and dotted(d.func) == 'dict':
                for k in d.keywords:
                    if k.arg == edge:
                        return norm(k.value)
            if isinstance(d, ast.Dict):
                for k, v in zip(d.keys, d.values):
                    if const_str(k) == edge:
                        return norm(v)
        if isinstance(e, ast.IfExp):
            t = e.test
            val = None
            if isinstance(t, ast.Compare) and isinstance(t.left, ast.Name) and len(t.ops) == 1:
                if isinstance(t.ops[0], ast.In) and isinstance(t.comparators[0], (ast.Tuple, ast.List, ast.Set)):
                    val = edge in [const_str(x) for x in t.comparators[0].elts]
                elif isinstance(t.ops[0], ast.NotIn) and isinstance(t.comparators[0], (ast.Tuple, ast.List, ast.Set)):
                    val = edge not in [const_str(x) for x in t.comparators[0].elts]
                elif isinstance(t.ops[0], ast.Eq):
                    val = edge == const_str(t.comparators[0])
            if val is None:
                return None
            return ev(e.body if val else e.orelse, edge)
        if isinstance(e, ast.Name):
            return e.id
        return None
    for edge in ('WEST', 'EAST', 'SOUTH', 'NORTH'):
        w = ev(nb[0].value, edge)
        if w is None:
            ctx.undec('R-EDGECELLS', edge, where, 'writer expression not understood')
            continue
        wf_, rf_ = wfield.get(w), rfield.get(rtab[edge])
        if wf_ is not None and wf_ == rf_:
            ctx.ok('R-EDGECELLS', edge, where, 'writer %s (grid %s) ; reader %s (grid %s)' % (w, wf_, rtab[edge], rf_))
        else:
            ctx.violation(Finding('R-EDGECELLS', wm.relpath, 'ncf2lateral_boundary', nb[0],
                                  'edge %s: the writer announces %s cells (grid field %s) but the reader sizes the edge record with %s (grid field %s)'
                                  % (edge, w, wf_, rtab[edge], rf_)), oid=edge)


def check_landuse_order(ctx, rule='R-LUORDER'):
    """the land-use writer emits its records in the order of a literal key list; the reader decides the style of the file from the
    *first* record (its key must be a land-use category key) and names the records in the order land use, then the optional fields:
    in the writer's list every land-use category key must come before every optional key"""
    src = ctx.src
    wm = src.mod(CAMX + 'landuse/Write.py')
    rm = src.mod(CAMX + 'landuse/Memmap.py')
    wfn = wm.func('ncf2landuse')
    rfn = rm.func('landuse.__init__')
    where = 'src/PseudoNetCDF/camxfiles/landuse Write.py vs Memmap.py'
    # reader: keys accepted for the first record (constants compared with the first 8 characters) and the name tables of __addvars
    first = [c.value.strip() for n in ast.walk(rfn) if isinstance(n, ast.Compare) and 'first_line' in norm(n.left) for c in n.comparators if isinstance(c, ast.Constant) and isinstance(c.value, str)]
    av = rm.func('landuse.__addvars')
    tables = [[const_str(e) for e in kw(c, 'names').elts] for c in ast.walk(av) if isinstance(c, ast.Call) and dotted(c.func) == 'dict' and kw(c, 'names') is not None
              and isinstance(kw(c, 'names'), (ast.List, ast.Tuple))]
    optional = sorted(set(n for t in tables for n in t[1:] if n))
    lists = [n for n in ast.walk(wfn) if isinstance(n, (ast.List, ast.Tuple)) and len(n.elts) >= 3 and all(const_str(e) for e in n.elts) and set(const_str(e) for e in n.elts) & set(first + ['FLAND'])]
    if not first or not optional or not lists:
        ctx.undec(rule, 'record order', where, 'first-record keys %s, optional fields %s or the writer key list not found' % (first, optional))
        return
    keys = [const_str(e) for e in lists[0].elts]
    cats = [k for k in keys if k in first or k == 'FLAND']
    opts = [k for k in keys if k in optional]
    late = [k for k in cats if any(keys.index(o) < keys.index(k) for o in opts)]
    if late:
        ctx.violation(Finding(rule, wm.relpath, 'ncf2landuse', api.stmt_of(lists[0]), 'the writer emits %s after the optional record(s) %s: a file whose land-use variable is named %s (the name the reader gives it) is written '
                              'with an optional record first, and the reader, which tells the style of the file from the key of the first record, can no longer open it' % (late, opts, late[0])))
    else:
        ctx.ok(rule, 'record order', where, 'land-use category keys %s before optional %s' % (cats, opts))


def check_byteorder(ctx, rule='R-BYTEORDER'):
    """every value a CAMx writer emits (tobytes / tofile) has its byte order fixed by the writer: the outermost conversion is
    astype('>..') / array(.., dtype='>..'), or the value is (an element of) a header array allocated with a big-endian record type.
    A value taken from an attribute of the input file and emitted as it is has the byte order of the machine (numpy scalars are
    native): the bytes differ from what was read, and the attribute does not survive write/read."""
    from .. import paths as _paths
    src = ctx.src
    n = nbad = 0
    for rp in sorted(src.relpaths()):
        if not (rp.startswith('camxfiles/') and rp.endswith('Write.py')):
            continue
        m = src.mod(rp)
        for q, fn in sorted(m.functions.items()):
            if not q.startswith('ncf2') or '.' in q:
                continue
            fparam = fn.args.args[0].arg if fn.args.args else 'ncffile'
            where = 'src/PseudoNetCDF/%s %s' % (rp, q)
            # header arrays: names allocated with an explicit dtype whose codes are big-endian
            be_arrays = set()
            for st in iter_stmts(fn.body):
                if isinstance(st, ast.Assign) and isinstance(st.targets[0], ast.Name) and isinstance(st.value, ast.Call):
                    dts = [kw(c_, 'dtype') for c_ in ast.walk(st.value) if isinstance(c_, ast.Call) and kw(c_, 'dtype') is not None]
                    dts += [c_.args[0] for c_ in ast.walk(st.value) if isinstance(c_, ast.Call) and (dotted(c_.func) or '').split('.')[-1] in ('zeros', 'empty', 'ones') and False]
                    for d_ in dts:
                        codes = [x.value for x in ast.walk(d_) if isinstance(x, ast.Constant) and isinstance(x.value, str)]
                        if isinstance(d_, ast.Name):
                            dd = [s2 for s2 in ast.walk(fn) if isinstance(s2, ast.Assign) and any(isinstance(t_, ast.Name) and t_.id == d_.id for t_ in s2.targets)]
                            dd += [m.assigns[d_.id]] if d_.id in m.assigns else []
                            codes = [x.value for d2 in dd for x in ast.walk(d2.value if isinstance(d2, ast.Assign) else d2) if isinstance(x, ast.Constant) and isinstance(x.value, str)]
                            # composed of other named types: follow one more level
                            for d2 in dd:
                                for nm in [x.id for x in ast.walk(d2.value if isinstance(d2, ast.Assign) else d2) if isinstance(x, ast.Name)]:
                                    d3 = [s3 for s3 in ast.walk(fn) if isinstance(s3, ast.Assign) and any(isinstance(t_, ast.Name) and t_.id == nm for t_ in s3.targets)]
                                    codes += [x.value for s3 in d3 for x in ast.walk(s3.value) if isinstance(x, ast.Constant) and isinstance(x.value, str)]
                        fmtcodes = [c_ for c_ in codes if re.search(r'[<>]?\d*[ifSdcU]\d*$|^[<>]', c_) and not re.match(r'^[A-Za-z_ ]+$', c_)]
                        if fmtcodes and all('>' in c_ or re.search(r'S\d*$|>S', c_) or c_.endswith('S1') for c_ in fmtcodes):
                            be_arrays.add(st.targets[0].id)
            loopvars = {}
            for lp in [x for x in ast.walk(fn) if isinstance(x, ast.For)]:
                srcs = [n_.id for n_ in ast.walk(lp.iter) if isinstance(n_, ast.Name)]
                for t_ in ast.walk(lp.target):
                    if isinstance(t_, ast.Name):
                        loopvars[t_.id] = srcs
            for c in ast.walk(fn):
                if not (isinstance(c, ast.Call) and isinstance(c.func, ast.Attribute) and c.func.attr in ('tobytes', 'tofile', 'tostring')):
                    continue
                st = api.stmt_of(c)
                r = _paths.subst(c.func.value, _paths.dominating_env(fn, st, keep=tuple(be_arrays)))
                # strip wrappers that keep the dtype
                e = r
                indexed = False
                while True:
                    if isinstance(e, ast.Subscript):
                        indexed = True
                    if isinstance(e, ast.Call) and dotted(e.func) in ('np.ma.filled', 'filled', 'np.ascontiguousarray', 'np.asarray') and e.args:
                        e = e.args[0]
                    elif isinstance(e, ast.Call) and isinstance(e.func, ast.Attribute) and e.func.attr in ('ravel', 'reshape', 'copy', 'squeeze', 'swapaxes', 'transpose', 'filled'):
                        e = e.func.value
                    elif isinstance(e, ast.Subscript):
                        e = e.value
                    elif isinstance(e, ast.Attribute) and e.attr == 'T':
                        e = e.value
                    else:
                        break
                n += 1
                oid = '%s:%s' % (q, norm(c.func.value)[:40])
                explicit = (isinstance(e, ast.Call) and isinstance(e.func, ast.Attribute) and e.func.attr == 'astype' and e.args and isinstance(e.args[0], ast.Constant)
                            and str(e.args[0].value).startswith('>')) or \
                    (isinstance(e, ast.Call) and (dotted(e.func) or '').split('.')[-1] in ('array', 'zeros', 'ones', 'empty') and kw(e, 'dtype') is not None
                     and isinstance(kw(e, 'dtype'), ast.Constant) and str(kw(e, 'dtype').value).startswith('>'))
                root = e.id if isinstance(e, ast.Name) else None
                header = root in be_arrays or (root in loopvars and any(s_ in be_arrays for s_ in loopvars[root]))
                # a scalar attribute (not an item of a table the reader left on the object: arrays carry their own byte order)
                from_input = isinstance(e, ast.Attribute) and isinstance(e.value, ast.Name) and e.value.id == fparam and e.attr not in ('variables', 'dimensions') and not indexed
                if explicit:
                    ctx.ok(rule, oid, where, 'outermost conversion fixes the byte order')
                elif header:
                    ctx.ok(rule, oid, where, 'element of a header array allocated with a big-endian record type')
                elif from_input:
                    nbad += 1
                    ctx.violation(Finding(rule, rp, q, st, 'attribute %s of the input file is emitted as it is: numpy scalars are stored in the byte order of the machine, so on a little-endian host the '
                                          'four bytes are written reversed (a value of 1 reads back as 16777216) and a file that was read and written again is not the file that was read' % norm(e)))
                else:
                    ctx.undec(rule, oid, where, 'byte order of %s not established by the writer' % norm(e)[:50])
    ctx.count('emission sites examined for byte order', n)
    return n


def _loaded_after(fn, node, names):
    """names loaded in fn at a position after node (line order), outside node"""
    inside = set(id(n) for n in ast.walk(node))
    end = max(getattr(n, 'lineno', 0) for n in ast.walk(node))
    out = set()
    for n in ast.walk(fn):
        if isinstance(n, ast.Name) and isinstance(n.ctx, ast.Load) and n.id in names and id(n) not in inside and n.lineno > end:
            out.add(n.id)
    return out


def _is_where(c):
    return isinstance(c, ast.Call) and (dotted(c.func) or '').split('.')[-1] in ('where', 'nonzero', 'flatnonzero', 'argwhere')


def _zero_index(n):
    return isinstance(n, ast.Subscript) and isinstance(n.slice, ast.Constant) and n.slice.value == 0


def check_scalar_view(ctx, rule='R-SCALARVIEW'):
    """an element taken from a one-dimensional array by one integer index is a numpy scalar, and scalars are in machine byte order
    whatever the array's was: re-interpreting it with .view('>..') / .view('<..') swaps the bytes on one of the two kinds of machine.
    The reinterpretation has to name no byte order (or be applied to a slice, which keeps the array's own)."""
    ctx.rule(rule, 'readers: a single element of a flat map is never re-interpreted with an explicit byte order (scalars are in machine order)')
    src = ctx.src
    n = 0
    for rp in sorted(src.relpaths()):
        if not (rp.startswith(CAMX) and rp.endswith('Memmap.py')):
            continue
        m = src.mod(rp)
        for q, fn in sorted(m.functions.items()):
            flat = set()
            for st in iter_stmts(fn.body):
                if isinstance(st, ast.Assign) and isinstance(st.value, ast.Call) and (dotted(st.value.func) or '').split('.')[-1] == 'memmap' and kw(st.value, 'shape') is None \
                        and len(st.value.args) < 5:
                    flat.add(norm(st.targets[0]))
            if not flat:
                continue
            for st in iter_stmts(fn.body):
                for c in walk_expr(st):
                    if not (isinstance(c, ast.Call) and isinstance(c.func, ast.Attribute) and c.func.attr == 'view' and c.args):
                        continue
                    base = c.func.value
                    if not (isinstance(base, ast.Subscript) and norm(base.value) in flat):
                        continue
                    idx = base.slice
                    scalar = isinstance(idx, ast.Constant) and isinstance(idx.value, int) or \
                        (isinstance(idx, ast.UnaryOp) and isinstance(idx.operand, ast.Constant) and isinstance(idx.operand.value, int))
                    if not scalar:
                        continue
                    n += 1
                    code = const_str(c.args[0])
                    where = 'src/PseudoNetCDF/%s %s' % (rp, q)
                    if code is None:
                        ctx.undec(rule, 'view of %s' % norm(base), where, 'type code is not a literal')
                    elif code[:1] in '<>':
                        ctx.violation(Finding(rule, rp, q, c, "%s is one element of the flat map (a scalar, already in machine byte order); .view('%s') forces a byte order and swaps the bytes on a "
                                              'machine of the other kind: the value (and every header the writer fills from it) changes' % (norm(base), code)))
                    else:
                        ctx.ok(rule, 'view of %s' % norm(base), where, "'%s' names no byte order" % code)
    return n


def check_sized_text(ctx, rule='R-SIZEDTEXT'):
    """a writer that sizes a record from len(<file>.ATTR) and writes ATTR as it is relies on the reader keeping the text of the field
    unchanged: stripping blanks (or any other edit of the decoded text) shortens the record of the re-written file."""
    ctx.rule(rule, 'a text attribute whose length sizes a record of the writer is stored by the reader as decoded (no strip/replace/split)')
    src = ctx.src
    n = 0
    edits = ('strip', 'rstrip', 'lstrip', 'replace', 'split', 'upper', 'lower', 'title', 'ljust', 'rjust', 'center', 'expandtabs')
    for rp in sorted(src.relpaths()):
        if not (rp.startswith(CAMX) and rp.endswith('Write.py')):
            continue
        m = src.mod(rp)
        for q, fn in sorted(m.functions.items()):
            if not q.startswith('ncf2') or '.' in q or not fn.args.args:
                continue
            fparam = fn.args.args[0].arg
            attrs = set()
            for st in iter_stmts(fn.body):
                for c in walk_expr(st):
                    if isinstance(c, ast.Call) and dotted(c.func) == 'len' and c.args and isinstance(c.args[0], ast.Attribute) and norm(c.args[0].value) == fparam:
                        attrs.add(c.args[0].attr)
            if not attrs:
                continue
            rrp = rp[:-len('Write.py')] + 'Memmap.py'
            if rrp not in src.relpaths():
                continue
            rmod = src.mod(rrp)
            for a in sorted(attrs):
                stores = []
                for rq, rfn in sorted(rmod.functions.items()):
                    for st in iter_stmts(rfn.body):
                        if isinstance(st, ast.Assign) and any(isinstance(t, ast.Attribute) and t.attr == a and norm(t.value) == 'self' for t in st.targets):
                            stores.append((rq, st))
                        elif isinstance(st, ast.Expr) and isinstance(st.value, ast.Call) and (dotted(st.value.func) or '').split('.')[-1] in ('setncattr', 'setattr') and \
                                any(const_str(x) == a for x in st.value.args[:2]):
                            stores.append((rq, st))
                for rq, st in stores:
                    n += 1
                    val = st.value if isinstance(st, ast.Assign) else st.value.args[-1]
                    bad = [c for c in walk_expr(val) if isinstance(c, ast.Call) and isinstance(c.func, ast.Attribute) and c.func.attr in edits]
                    where = 'src/PseudoNetCDF/%s %s' % (rrp, rq)
                    if bad:
                        ctx.violation(Finding(rule, rrp, rq, st, 'the writer sizes a record from len(%s.%s) and writes the text as it is; the reader edits the decoded field (.%s()): a padded '
                                              'text comes back shorter and the re-written record (and everything after it) moves' % (fparam, a, bad[0].func.attr)))
                    else:
                        ctx.ok(rule, 'self.%s' % a, where, 'decoded field stored without editing; writer %s sizes the record from its length' % q)
    return n


def check_one_step(ctx, rule='R-ONESTEP'):
    """The statement quantifies over files of 1..n time steps.  The memory-mapped met readers find the number of records per time step
    by looking for the first record whose (time, date) identifier differs from that of record 0.  In a single-step file there is no
    such record, so the search must define its result for that case as well:
      (a) 'for i, ... in enumerate(records): if differs: break' followed by a use of i - when the loop runs out i is the last index,
          one less than the record count, unless an else clause of the loop rebinds it;
      (c) '(differs).argmax()' - 0 when nothing differs, unless taken under an any() test;
      (b) 'where(differs)[0][0]' - the first element of an empty index array raises IndexError unless the array is tested first."""
    ctx.rule(rule, 'memory-mapped met readers: the search for the first record of the second time step is defined for a single-step file')
    src = ctx.src
    n = 0
    for m in src.all_modules():
        if not (m.relpath.startswith(CAMX) and m.relpath.endswith('/Memmap.py')):
            continue
        for q, fn in sorted(m.functions.items()):
            if not q.endswith('.__init__'):
                continue
            where = 'src/PseudoNetCDF/%s %s' % (m.relpath, q)
            fmt = m.relpath.split('/')[1]
            for st in iter_stmts(fn.body):
                # (a) search loop
                if isinstance(st, ast.For):
                    brk = [s2 for s2 in iter_stmts(st.body) if isinstance(s2, ast.Break)]
                    if not brk:
                        continue
                    others = [s2 for s2 in iter_stmts(st.body) if not isinstance(s2, (ast.Break, ast.If, ast.Pass, ast.Continue))]
                    tnames = set(x.id for x in ast.walk(st.target) if isinstance(x, ast.Name))
                    used = _loaded_after(fn, st, tnames)
                    if others or not used:
                        continue
                    n += 1
                    oid = '%s:for %s' % (fmt, norm(st.target))
                    if st.orelse:
                        rebound = set(x.id for s2 in st.orelse for x in ast.walk(s2) if isinstance(x, ast.Name) and isinstance(x.ctx, ast.Store))
                        leaves = isinstance(st.orelse[-1], (ast.Raise, ast.Return))
                        if used <= rebound or leaves:
                            ctx.ok(rule, oid, where, 'the else clause of the search loop %s when no record differs'
                                   % ('leaves' if leaves else 'rebinds %s' % ', '.join(sorted(used))))
                            continue
                    ctx.violation(Finding(rule, m.relpath, q, st,
                                          'the loop searches the first record of the second time step and %s is used after it, but the loop has no else '
                                          'clause for a single-step file: when it runs out %s is the last record index, not the record count, and the '
                                          'layer and step counts derived from it are wrong (the file written for one time step cannot be read back)'
                                          % (', '.join(sorted(used)), ', '.join(sorted(used)))), oid=oid)
                    continue
                # (d) counting while loop: `while I < N: ... if differs: break ... I += 1` - when no record differs the counter has reached
                # the bound, which is the record count the for/else form sets by hand
                if isinstance(st, ast.While) and any(isinstance(x, ast.Break) for x in ast.walk(st)):
                    t_ = st.test
                    if isinstance(t_, ast.Compare) and len(t_.ops) == 1 and isinstance(t_.ops[0], ast.Lt) and isinstance(t_.left, ast.Name):
                        cn = t_.left.id
                        incs = [s2 for s2 in st.body if isinstance(s2, ast.AugAssign) and isinstance(s2.target, ast.Name) and s2.target.id == cn
                                and isinstance(s2.op, ast.Add) and isinstance(s2.value, ast.Constant) and s2.value.value == 1]
                        used = _loaded_after(fn, st, set([cn]))
                        if incs and used:
                            n += 1
                            ctx.ok(rule, '%s:while %s' % (fmt, norm(t_)), where, 'counting loop: %s equals its bound %s when no record differs' % (cn, norm(t_.comparators[0])))
                    continue
                if not isinstance(st, ast.Assign):
                    continue
                # (e) records // <number of distinct stamps or stamp changes + 1>: one stamp for a single-step file, so the quotient is the
                # record count (whether such a whole-table statistic is acceptable for cut files is C14's R-FIRSTSTEP, not this rule's)
                if any(isinstance(b_, ast.BinOp) and isinstance(b_.op, (ast.FloorDiv, ast.Div)) and 'record' in norm(b_.left) and
                       any(isinstance(c_, ast.Call) and ((dotted(c_.func) or getattr(c_.func, 'attr', '') or '').split('.')[-1] in ('unique', 'sum', 'count_nonzero')) for c_ in ast.walk(b_.right))
                       for b_ in ast.walk(st.value)):
                    n += 1
                    ctx.ok(rule, '%s:%s' % (fmt, norm(st.targets[0])), where, 'records // number of stamps: the record count for a single-step file')
                    continue
                # (c) argmax of the comparison: 0 when no record differs
                hit_c = False
                for c in walk_expr(st.value):
                    if isinstance(c, ast.Call) and ((isinstance(c.func, ast.Attribute) and c.func.attr == 'argmax') or
                                                    (isinstance(c.func, ast.Name) and c.func.id == 'argmax')):
                        isnp = isinstance(c.func, ast.Name) or (dotted(c.func) or '').startswith(('np.', 'numpy.'))
                        arg = (c.args[0] if c.args else None) if isnp else c.func.value
                        if arg is None or not any(isinstance(x, ast.Compare) for x in ast.walk(arg)):
                            continue
                        hit_c = True
                        n += 1
                        oid = '%s:%s' % (fmt, norm(st.targets[0]))
                        guarded = False
                        p = getattr(c, '_parent', None)
                        while p is not None and p is not fn:
                            if isinstance(p, (ast.IfExp, ast.If)) and any(isinstance(x, ast.Call) and isinstance(x.func, ast.Attribute) and x.func.attr == 'any'
                                                                          for x in ast.walk(p.test)):
                                guarded = True
                            p = getattr(p, '_parent', None)
                        if guarded:
                            ctx.ok(rule, oid, where, 'argmax of the comparison is taken only when some record differs')
                        else:
                            ctx.violation(Finding(rule, m.relpath, q, st,
                                                  'the first record of the second time step is taken as argmax of %s: when no record differs (a single-step '
                                                  'file) that is 0, not the record count, and the layer and step counts derived from it are wrong'
                                                  % norm(arg)[:70]), oid=oid)
                if hit_c:
                    continue
                # (b) first element of an index array
                for sub in walk_expr(st.value):
                    if not _zero_index(sub):
                        continue
                    inner = sub.value
                    direct = _zero_index(inner) and _is_where(inner.value)
                    via = None
                    if isinstance(inner, ast.Name):
                        for s2 in iter_stmts(fn.body):
                            if s2 is st:
                                break        # statements in program order (inlined helper statements share the line of their call site)
                            if isinstance(s2, ast.Assign) and len(s2.targets) == 1 and isinstance(s2.targets[0], ast.Name) \
                                    and s2.targets[0].id == inner.id:
                                via = s2 if (_zero_index(s2.value) and _is_where(s2.value.value)) or _is_where(s2.value) else None
                    if not direct and via is None:
                        continue
                    wcall = inner.value if direct else (via.value.value if _zero_index(via.value) else via.value)
                    if not any(isinstance(x, ast.Compare) for x in ast.walk(wcall)):
                        continue
                    n += 1
                    oid = '%s:%s' % (fmt, norm(st.targets[0]))
                    guarded = False
                    if via is not None:
                        p = getattr(sub, '_parent', None)
                        while p is not None and p is not fn:
                            if isinstance(p, (ast.IfExp, ast.If)) and inner.id in set(x.id for x in ast.walk(p.test) if isinstance(x, ast.Name)):
                                guarded = True
                            if isinstance(p, ast.Try) and p.handlers:
                                guarded = True
                            p = getattr(p, '_parent', None)
                    else:
                        p = getattr(sub, '_parent', None)
                        while p is not None and p is not fn:
                            if isinstance(p, ast.Try) and p.handlers:
                                guarded = True
                            p = getattr(p, '_parent', None)
                    if guarded:
                        ctx.ok(rule, oid, where, 'the index array is tested before its first element is taken')
                    else:
                        ctx.violation(Finding(rule, m.relpath, q, st,
                                              'the first record of the second time step is taken as the first element of %s without testing that there is one: '
                                              'for a single-step file the index array is empty and the reader raises IndexError (the file written for one time '
                                              'step cannot be read back)' % norm(wcall)[:70]), oid=oid)
    ctx.floor('step-boundary searches judged by R-ONESTEP', n, 2)


def check_dead_carry(ctx, rule='R-CARRY'):
    """End stamps are begin + step; the end hour is reduced modulo the day length and the whole days it contained are carried into the
    end date.  The carry has to be taken from the value *before* the reduction: x // M of a value last stored as (...) % M is 0 for
    every input, so the end date never rolls over (a step that ends at midnight is stamped (D, 0) instead of (D + 1, 0))."""
    ctx.rule(rule, 'writers: a day carry (x // M) is never computed from a value that was already reduced modulo M')
    n = 0
    for m in ctx.src.all_modules():
        if not (m.relpath.startswith(CAMX) and m.relpath.endswith('/Write.py')):
            continue
        for q, fn in sorted(m.functions.items()):
            if '<locals>' in q:
                continue
            last = {}
            found = False
            for st in iter_stmts(fn.body):
                # reads first: a floor division whose dividend is a stored place
                for b in walk_expr(st):
                    if isinstance(b, ast.BinOp) and isinstance(b.op, ast.FloorDiv) and isinstance(b.right, ast.Constant):
                        key = norm(b.left)
                        found = True
                        n += 1
                        prev = last.get(key)
                        if prev is not None and isinstance(prev, ast.BinOp) and isinstance(prev.op, ast.Mod) and isinstance(prev.right, ast.Constant) \
                                and prev.right.value == b.right.value:
                            ctx.violation(Finding(rule, m.relpath, q, st, 'the carry %s is taken from a value that was last stored as %s: it is 0 for every input, so the date it is added to never '
                                                  'rolls over (a step ending at midnight is written with the end date of the day before)' % (norm(b), norm(prev)[:50])),
                                          oid='%s:%s' % (q, norm(b)))
                        else:
                            ctx.ok(rule, '%s:%s@%d' % (q, norm(b)[:30], getattr(st, '_src_lineno', st.lineno)), 'src/PseudoNetCDF/%s %s' % (m.relpath, q), 'dividend %s not reduced before' % key[:40])
                if isinstance(st, ast.Assign):
                    for t in st.targets:
                        last[norm(t)] = st.value
                elif isinstance(st, ast.AugAssign):
                    last[norm(st.target)] = None
    ctx.floor('carries judged by R-CARRY', n, 2)


def check_year_end(ctx, rule='R-YEAREND'):
    """Julian dates (YYJJJ) are not numbers: the day after 02365 is 03001.  A writer that derives an end date by adding the day carry of
    the end hour to the begin date has to move a date that ran past the last day of its year into the next year, otherwise the last step
    of a year is stamped with a day that does not exist (02366) and the header dates no longer match the content."""
    ctx.rule(rule, 'writers: a Julian date that received a day carry is normalised for the end of the year before it is stored')
    need = ('// 1000', '% 1000', '% 4', '% 100', '% 400', '365', '< 70', '2000 +', '1900 +')
    n = 0

    def normaliser(m, value, tgt):
        """does `value` put tgt through a year-end normalisation?  -> (True, how) / (False, why) / None when tgt is not processed at all"""
        txt = norm(value)
        if all(k_ in txt for k_ in ('% 1000', '365')) and tgt in txt:
            return True, 'inline'
        for c in walk_expr(value):
            if isinstance(c, ast.Call) and c.args and norm(c.args[0]) == tgt and isinstance(c.func, (ast.Name, ast.Attribute)):
                nm = (dotted(c.func) or '').split('.')[-1]
                callee = m.functions.get(nm)
                if callee is None and nm in m.imports:
                    r = ctx.src.resolve_import(m, nm)
                    if r is not None:
                        callee = ctx.src.mod(r[0]).functions.get(r[1])
                if callee is None:
                    continue
                body = ' '.join(norm(st) for st in iter_stmts(callee.body))
                missing = [k_ for k_ in need if k_ not in body]
                if not missing:
                    return True, '%s()' % nm
                if '1000' in body:
                    return False, '%s() does not %s' % (nm, 'compare the day with the length (365 / 366) of its year' if set(missing) & set(['% 4', '% 100', '% 400', '365']) else
                                                         ('expand a two-digit year with the pivot of the readers (00-69 -> 20xx, 70-99 -> 19xx): 00 is taken for 1900, which is no leap year'
                                                          if set(missing) & set(['< 70', '2000 +', '1900 +']) else 'split the date at 1000'))
        return None
    for m in ctx.src.all_modules():
        if not (m.relpath.startswith(CAMX) and m.relpath.endswith('/Write.py')):
            continue
        for q, fn in sorted(m.functions.items()):
            if '<locals>' in q:
                continue
            stmts = list(iter_stmts(fn.body))
            for i, st in enumerate(stmts):
                if not (isinstance(st, ast.AugAssign) and isinstance(st.op, ast.Add) and 'date' in norm(st.target).lower()):
                    continue
                def has_carry(e, depth=0):
                    for b in walk_expr(e):
                        if isinstance(b, ast.BinOp) and isinstance(b.op, ast.FloorDiv):
                            return True
                        if isinstance(b, ast.Name) and depth < 3:
                            defs = [s0.value for s0 in stmts[:i] if isinstance(s0, ast.Assign) and any(isinstance(t, ast.Name) and t.id == b.id for t in s0.targets)]
                            if defs and has_carry(defs[-1], depth + 1):
                                return True
                    return False
                if not has_carry(st.value):
                    continue
                n += 1
                tgt = norm(st.target)
                verdict = None
                for s2 in stmts[i + 1:]:
                    if isinstance(s2, ast.Assign) and any(norm(t) == tgt for t in s2.targets):
                        verdict = normaliser(m, s2.value, tgt)
                        if verdict is not None:
                            verdict = verdict + (s2,)
                        break
                    if tgt in norm(s2) and not (isinstance(s2, ast.AugAssign) and norm(s2.target) != tgt and tgt not in norm(s2.value)):
                        break       # used (stored in a header, written) before any normalisation
                where = 'src/PseudoNetCDF/%s %s' % (m.relpath, q)
                if verdict is not None and verdict[0]:
                    ctx.ok(rule, '%s:%s' % (q, tgt), where, 'carry in `%s` followed by %s (%s)' % (norm(st)[:40], norm(verdict[2])[:50], verdict[1]))
                elif verdict is not None:
                    ctx.violation(Finding(rule, m.relpath, q, verdict[2], 'the date that received the day carry is normalised by a function that does not do it: %s; dates carried past 31 December '
                                          'stay in the old year' % verdict[1]))
                else:
                    ctx.violation(Finding(rule, m.relpath, q, st, 'the day carry is added to the Julian date %s and the result is used as it is: the step that ends at midnight of 31 December is '
                                          'stamped with day 366 (367) of the old year instead of day 1 of the next; the end dates in the headers do not match the content' % tgt))
    ctx.floor('Julian dates receiving a day carry', n, 2)


def check_per_step_stamp(ctx, rule='R-PERSTEP'):
    """met writers: every time stamp written inside the loop over the time steps is that step's stamp.  A value that is derived from
    the time flags but defined outside the loop is the same for every step (the date of the first step on every record)."""
    ctx.rule(rule, 'met writers: a value derived from the time flags that is written inside the time loop is defined inside that loop (per step)')
    n = 0
    for m in ctx.src.all_modules():
        if not (m.relpath.startswith(CAMX) and m.relpath.endswith('/Write.py')):
            continue
        for q, fn in sorted(m.functions.items()):
            if not q.startswith('ncf2') or '.' in q:
                continue
            top = list(fn.body)
            # names bound (outside any loop) from the time-flag variable
            tfl = set()
            for st in top:
                if isinstance(st, ast.Assign) and len(st.targets) == 1 and isinstance(st.targets[0], ast.Name):
                    txt = norm(st.value)
                    if 'TFLAG' in txt or 'tflag' in txt or any(isinstance(x, ast.Name) and x.id in tfl for x in ast.walk(st.value)):
                        tfl.add(st.targets[0].id)
            for lp in top:
                if not isinstance(lp, ast.For):
                    continue
                it = norm(lp.iter)
                if not ('TFLAG' in it or 'tflag' in it or any(isinstance(x, ast.Name) and x.id in tfl for x in ast.walk(lp.iter))):
                    continue
                inside = set(n_.id for st in iter_stmts(lp.body) for t in (st.targets if isinstance(st, ast.Assign) else [])
                             for n_ in ast.walk(t) if isinstance(n_, ast.Name))
                inside |= set(n_.id for n_ in ast.walk(lp.target) if isinstance(n_, ast.Name))
                for st in iter_stmts(lp.body):
                    if isinstance(st, ast.For):
                        inside |= set(n_.id for n_ in ast.walk(st.target) if isinstance(n_, ast.Name))
                emitted = set()
                for st in iter_stmts(lp.body):
                    for c in walk_expr(st) if not isinstance(st, (ast.For, ast.If, ast.While, ast.Try, ast.With)) else []:
                        if isinstance(c, ast.Call) and isinstance(c.func, ast.Attribute) and c.func.attr in ('tofile', 'tobytes') and isinstance(c.func.value, ast.Name):
                            emitted.add((c.func.value.id, st))
                        if isinstance(c, ast.Call) and norm(c.func).endswith('.write'):
                            for x in ast.walk(c):
                                if isinstance(x, ast.Name) and isinstance(x.ctx, ast.Load):
                                    emitted.add((x.id, st))
                where = 'src/PseudoNetCDF/%s %s' % (m.relpath, q)
                seen = set()
                for nm, st in sorted(emitted, key=lambda e: (e[1].lineno, e[0])):
                    if nm in seen:
                        continue
                    seen.add(nm)
                    if nm in tfl and nm not in inside:
                        n += 1
                        ctx.violation(Finding(rule, m.relpath, q, st, '%s is computed from the time flags before the loop over the time steps and written inside it: every step is stamped with the '
                                              'same value (the date of the first step on the records of the following days)' % nm))
                    elif nm in inside and nm in set(n_.id for n_ in ast.walk(lp.target) if isinstance(n_, ast.Name)) | set(
                            t.id for s2 in iter_stmts(lp.body) if isinstance(s2, ast.Assign) for t in s2.targets if isinstance(t, ast.Name)):
                        n += 1
                        ctx.ok(rule, '%s:%s' % (q, nm), where, 'defined per step')
    ctx.floor('values written inside the time loops of the met writers', n, 8)


def check_header_counts(ctx, rule='R-HDRCOUNT'):
    """the counts in the grid header (nx, ny, nz, nspec) are the lengths of the dimensions the data loop runs over: a local that feeds
    such a field has one definition, len(<file>.dimensions[...]) - a second, conditional one makes header and data disagree."""
    ctx.rule(rule, 'gridded writers: a local that fills a header count (nx, ny, nz, nspec) has a single definition, the length of a dimension')
    n = 0
    for rp, q in ((CAMX + 'uamiv/Write.py', 'ncf2uamiv'), (CAMX + 'lateral_boundary/Write.py', 'ncf2lateral_boundary')):
        m = ctx.src.mod(rp)
        fn = m.func(q)
        where = 'src/PseudoNetCDF/%s %s' % (rp, q)
        feeds = {}
        for st in iter_stmts(fn.body):
            if isinstance(st, ast.Assign) and isinstance(st.targets[0], ast.Subscript) and const_str(st.targets[0].slice) in ('nx', 'ny', 'nz', 'nspec') and isinstance(st.value, ast.Name):
                feeds.setdefault(st.value.id, const_str(st.targets[0].slice))
        for nm, fld in sorted(feeds.items()):
            defs = [st for st in iter_stmts(fn.body) if isinstance(st, (ast.Assign, ast.AugAssign)) and any(isinstance(t, ast.Name) and t.id == nm for t in
                                                                                                             (st.targets if isinstance(st, ast.Assign) else [st.target]))]
            n += 1
            good = [d for d in defs if isinstance(d, ast.Assign) and re.search(r"len\(\w+\.dimensions\['[\w-]+'\]\)", norm(d.value))]
            extra = [d for d in defs if d not in good] + good[1:]
            if extra:
                ctx.violation(Finding(rule, rp, q, extra[0], 'the header count %s is filled from %s, which is also set by `%s`: the header then announces another number than the data records that '
                                      'follow (the reader stops with a partial time step or reads the wrong layers)' % (fld, nm, norm(extra[0])[:40])))
            elif good:
                ctx.ok(rule, '%s:%s' % (q, fld), where, '%s = %s' % (nm, norm(good[0].value)))
            else:
                ctx.undec(rule, '%s:%s' % (q, fld), where, 'no definition of %s found' % nm)
    ctx.floor('header counts fed from locals', n, 3)


def check_landuse_names(ctx, rule='R-LUZIP'):
    """land-use reader: the list of variable names is zipped with the record names of the layout that matched the file size; on
    every path the two have the same length, otherwise zip drops the last record (and the names before it move one record up)"""
    from .. import paths as _paths
    ctx.rule(rule, 'land-use reader: the variable names zipped with the record names have the same length on every path (zip truncates silently)')
    rm = ctx.src.mod(CAMX + 'landuse/Memmap.py')
    fn = None
    for q, f_ in rm.functions.items():
        if q.endswith('__addvars'):
            fn, qn = f_, q
    where = 'src/PseudoNetCDF/%slanduse/Memmap.py landuse.__addvars' % CAMX
    if fn is None:
        ctx.undec(rule, 'names', where, '__addvars not found')
        return

    def names_len(v):
        # dtype(dict(names=[...], formats=[...]))
        for c in ast.walk(v):
            if isinstance(c, ast.Call) and dotted(c.func) == 'dict' and kw(c, 'names') is not None and isinstance(kw(c, 'names'), ast.List):
                return len(kw(c, 'names').elts)
        return None
    n = 0
    bad = None
    for pth in _paths.enumerate_paths(fn.body, limit=5000):
        if pth.exit[0] == 'raise':
            continue
        nrec = nkeys = None
        keyst = None
        for st in pth.stmts:
            if isinstance(st, ast.Assign) and isinstance(st.targets[0], ast.Name):
                if st.targets[0].id == 'file_dtype':
                    nrec = names_len(st.value)
                if st.targets[0].id == 'varkeys':
                    nkeys = len(st.value.elts) if isinstance(st.value, ast.List) else 'same'
                    keyst = st
        if nrec is None or nkeys is None:
            continue
        # decisions on the number of records are evaluated with the number this path has
        from .. import consteval as _ce
        feasible = True
        for e_, pol in pth.conds:
            if 'file_dtype.names' in norm(e_):
                got = _ce.ev(e_, {}, lambda n_, nrec=nrec: nrec if norm(n_) == 'len(file_dtype.names)' else None)
                if got is not _ce.UNK and bool(got) != pol:
                    feasible = False
        if not feasible:
            continue
        n += 1
        if nkeys != 'same' and nkeys < nrec:
            bad = bad or (keyst, nkeys, nrec)
    if bad:
        ctx.violation(Finding(rule, rm.relpath, qn, bad[0], 'on the path where the file holds %d records the %d names %s are zipped with them: the last record is dropped and the names before '
                              'it label the wrong records (an old-style file with LAI and TOPO comes back as FLAND and a TOPO that holds the LAI values)' % (bad[2], bad[1], norm(bad[0].value))))
    elif n:
        ctx.ok(rule, 'names', where, '%d paths: as many names as records' % n)
    else:
        ctx.undec(rule, 'names', where, 'no path with a literal layout and a name list')


def check_varorder(ctx):
    src = ctx.src
    wm = src.mod(CAMX + 'cloud_rain/Write.py')
    rm = src.mod(CAMX + 'cloud_rain/Memmap.py')
    wfn = wm.func('ncf2cloud_rain')
    where = 'src/PseudoNetCDF/camxfiles/cloud_rain Write.py vs Memmap.py'
    wl = None
    for st in iter_stmts(wfn.body):
        if isinstance(st, ast.Assign) and isinstance(st.targets[0], ast.Name) and st.targets[0].id == 'varkeys' and isinstance(st.value, ast.ListComp):
            it = st.value.generators[0].iter
            if isinstance(it, ast.List):
                wl = [const_str(e) for e in it.elts]
                wst = st
    if wl is None:
        dyn = [st for st in iter_stmts(wfn.body) if isinstance(st, ast.Assign) and isinstance(st.targets[0], ast.Name) and st.targets[0].id == 'varkeys']
        if dyn and isinstance(dyn[0].value, ast.ListComp) and 'variables' in norm(dyn[0].value.generators[0].iter):
            ctx.violation(Finding('R-VARORDER', wm.relpath, 'ncf2cloud_rain', dyn[0], 'the per-layer records are written in the order of the file\'s own variable table (%s), not in the fixed order '
                                  'the reader maps record positions to: a file assembled in another order gets COD in the RAIN slot' % norm(dyn[0].value.generators[0].iter)))
            return
        raise AnalysisError('construct not understood: varkeys of ncf2cloud_rain')
    # reader: record index -> code -> variable name, per version branch of __var_get
    known = set(wl)
    orders = []
    vg = rm.func('cloud_rain.__var_get')
    for st in iter_stmts(vg.body):
        if isinstance(st, ast.If) and 'VERSION' in norm(st.test):
            for body in (st.body, st.orelse):
                idx2code, code2name = {}, {}
                for s2 in body:
                    if isinstance(s2, ast.Assign) and isinstance(s2.targets[0], ast.Subscript) and isinstance(s2.value, ast.Name) \
                            and isinstance(s2.targets[0].slice, ast.Tuple) and len(s2.targets[0].slice.elts) >= 3 \
                            and isinstance(s2.targets[0].slice.elts[2], ast.Constant):
                        idx2code[s2.targets[0].slice.elts[2].value] = s2.value.id
                    if isinstance(s2, ast.Expr) and isinstance(s2.value, ast.Call) and (dotted(s2.value.func) or '').endswith('set_var') \
                            and len(s2.value.args) == 2 and const_str(s2.value.args[0]) and isinstance(s2.value.args[1], ast.Compare):
                        code2name[norm(s2.value.args[1].comparators[0])] = const_str(s2.value.args[0])
                if idx2code:
                    orders.append([code2name.get(idx2code[i], '?') for i in sorted(idx2code)])
    if not orders or any('?' in o or not set(o) <= known for o in orders):
        raise AnalysisError('construct not understood: variable order of the cloud_rain reader (%s)' % orders)
    # the layout probe: file sizes that fit more than one layout are read as the layout the writer produces (tried first)
    ini = rm.func('cloud_rain.__init__')
    probes = [l_ for l_ in ast.walk(ini) if isinstance(l_, ast.For) and isinstance(l_.iter, (ast.List, ast.Tuple)) and l_.iter.elts
              and all(isinstance(e, ast.Constant) and isinstance(e.value, int) for e in l_.iter.elts) and any(isinstance(x, ast.Break) for x in ast.walk(l_))]
    if probes:
        first = probes[0].iter.elts[0].value
        nwr = max(len([k for k in wl if k in o]) for o in orders)        # what the writer emits for a file that has every variable
        if first == nwr:
            ctx.ok('R-VARORDER', 'layout probe', where, 'the %d-variable layout the writer emits is tried first (%s)' % (first, norm(probes[0].iter)))
        else:
            ctx.violation(Finding('R-VARORDER', rm.relpath, 'cloud_rain.__init__', probes[0], 'the size probe tries the %d-variable layout before the %d-variable layout the writer emits: a written file whose '
                                  'size also fits the other layout (small grids, e.g. 5 steps of 1 layer 2x5) is read back with the legacy variable list, other step count and garbage data'
                                  % (first, nwr)), oid='layout probe')
    else:
        ctx.undec('R-VARORDER', 'layout probe', where, 'size probe of the reader not found')
    for o in orders:
        filt = [k for k in wl if k in o]
        if filt == o:
            ctx.ok('R-VARORDER', ','.join(o), where, 'writer order restricted to this layout equals the reader order')
        else:
            ctx.violation(Finding('R-VARORDER', wm.relpath, 'ncf2cloud_rain', wst,
                                  'for the layout %s the writer emits %s: records are written in an order the reader maps to other variables' % (o, filt)),
                          oid=','.join(o))


def check_api(ctx, tier):
    """registered writers + the Memmap readers of the formats named by the property"""
    src = ctx.src
    n = 0
    fmts = ['uamiv', 'lateral_boundary', 'landuse', 'wind', 'temperature', 'height_pressure', 'one3d', 'cloud_rain', 'humidity', 'vertical_diffusivity']
    for fmt in fmts:
        for part in ('Write.py', 'Memmap.py'):
            rp = CAMX + fmt + '/' + part
            try:
                m = src.mod(rp)
            except AnalysisError:
                raise
            for q, fn in sorted(m.functions.items()):
                if '<locals>' in q or q.startswith('Test') or '.test' in q or q.endswith('runTest') or q.endswith('setUp'):
                    continue
                if part == 'Write.py' and not q.startswith('ncf2'):
                    continue
                n += 1
                miss = api.missing_numpy_names(m, fn)
                rem = api.removed_method_calls(m, fn)
                for node, d in miss:
                    ctx.violation(Finding('R-API', rp, q, api.stmt_of(node), '%s does not exist in the installed numpy: this %s raises for every input' % (d, 'writer' if part == 'Write.py' else 'reader')))
                for node, mth in rem:
                    ctx.violation(Finding('R-API', rp, q, api.stmt_of(node), 'ndarray.%s was removed from numpy: this %s raises for every input' % (mth, 'writer' if part == 'Write.py' else 'reader')))
                if not miss and not rem:
                    ctx.ok('R-API', '%s:%s' % (fmt, q), 'src/PseudoNetCDF/%s %s' % (rp, q), 'numpy names resolve; no removed ndarray method')
                if part == 'Write.py':
                    from .. import lints
                    al = lints.alias_inplace(fn)
                    for st, a, orig, later in al:
                        ctx.violation(Finding('R-INPLACEALIAS', rp, q, st, '%s shares storage with %s (no copy) and is updated in place; %s is still used afterwards (%s), so the '
                                              'begin/source values written to the file change too' % (a, orig, orig, norm(later)[:50])))
                    if not al:
                        ctx.ok('R-INPLACEALIAS', '%s:%s' % (fmt, q), 'src/PseudoNetCDF/%s %s' % (rp, q), 'no in-place update through an alias of a live array')
                    # provenance scan (shared with C05): the writer leaves the caller's file untouched
                    from .c05 import _qmut_scan
                    try:
                        p_, events_, nsink_, bad_ = _qmut_scan(ctx, m, q, fn, None, [a.arg for a in fn.args.args[:1]], [], False)
                    except Exception as e_:
                        bad_, nsink_ = None, 0
                    if bad_ is None:
                        ctx.undec('R-SRCUNTOUCHED', '%s:%s' % (fmt, q), 'src/PseudoNetCDF/%s %s' % (rp, q), 'provenance walk did not complete')
                    elif bad_:
                        for ev in bad_:
                            ctx.violation(Finding('R-SRCUNTOUCHED', rp, q, ev.stmt, 'the writer updates in place a %s of the data of its input file (%s%s): the first write is right, but the caller\'s '
                                                  'object is changed and a second write of it differs' % ({'VIEW': 'view', 'SAME': 'variable'}.get(ev.base[0], ev.base[0]), ev.kind,
                                                                                                        (' ' + ev.extra) if ev.extra else '')),
                                          oid='%s:%s' % (q, norm(ev.stmt)[:60]))
                    else:
                        ctx.ok('R-SRCUNTOUCHED', '%s:%s' % (fmt, q), 'src/PseudoNetCDF/%s %s' % (rp, q), '%d write sinks, none on storage of the input file' % nsink_)
                    uf = lints.unflushed_return(fn)
                    if uf is not None:
                        ctx.violation(Finding('R-FLUSH', rp, q, uf, 'the writer returns its open file object without flushing it after the last write: while the caller holds the handle the last buffered bytes '
                                              '(e.g. the closing record marker) are missing on disk, and a reader that counts steps from the file length loses the last step'))
                    else:
                        ctx.ok('R-FLUSH', '%s:%s' % (fmt, q), 'src/PseudoNetCDF/%s %s' % (rp, q), 'flushed after the last write (or no handle returned)')
                    rv = lints.reinterpret_input(fn, [a.arg for a in fn.args.args[:1]])
                    for call, recv in rv:
                        ctx.violation(Finding('R-CONVERT', rp, q, api.stmt_of(call), '%s still has the dtype of the caller\'s data and is %s instead of converted to the 4-byte record type (astype(\'>f\')): '
                                              'native or double-precision input is written byte-swapped or with doubled record length' % (
                                                  recv, 'reinterpreted with ' + norm(call)[-20:] if call.func.attr == 'view' else 'only byte-swapped (%s)' % norm(call)[-40:])))
                    if not rv:
                        ctx.ok('R-CONVERT', '%s:%s' % (fmt, q), 'src/PseudoNetCDF/%s %s' % (rp, q), 'input data reach the file through astype, never through a dtype view')
    ctx.floor('writer/reader functions under R-API', n, 30)


def _dim_env(fn, obj):
    """names bound to len(<obj>.dimensions['D']) -> Poly atom dim:D"""
    env = {}
    for st in iter_stmts(fn.body):
        if isinstance(st, ast.Assign) and isinstance(st.targets[0], ast.Name):
            m = re.match(r"^len\(%s\.dimensions\['([-\w]+)'\]\)$" % obj, norm(st.value))
            if m:
                env[st.targets[0].id] = Poly.atom('dim:' + m.group(1))
    return env


def check_landuse(ctx):
    src = ctx.src
    wm = src.mod(CAMX + 'landuse/Write.py')
    rm = src.mod(CAMX + 'landuse/Memmap.py')
    wfn = wm.func('ncf2landuse')
    rfn = rm.func('landuse.__init__')
    where = 'src/PseudoNetCDF/camxfiles/landuse Write.py vs Memmap.py'
    # path-wise (paths.py): the two record types as they stand on a path taken for the new style and on one taken for the old style,
    # with the lists they are built from substituted - whether the types are built inside the branches or after them
    from .. import paths as _paths

    def layouts_for(fn, flag, pol, base_bindings, polyenv, obj=None):
        names = ('fland_dtype', 'other_dtype')

        def is_def(st):
            if not isinstance(st, ast.Assign):
                return False
            t = st.targets[0]
            nm = t.id if isinstance(t, ast.Name) else (t.attr if isinstance(t, ast.Attribute) else None)
            return nm is not None and nm.lstrip('_') in names and not isinstance(st.value, (ast.Name, ast.Attribute))      # not a mere alias of the type
        seeds = [st for st in iter_stmts(fn.body) if is_def(st)]
        if not seeds:
            return {}
        # names bound once mean the same on every path and are left to the dtype evaluator; names bound in several places are
        # substituted path by path
        nstores = {}
        for n_ in ast.walk(fn):
            if isinstance(n_, ast.Name) and isinstance(n_.ctx, ast.Store):
                nstores[n_.id] = nstores.get(n_.id, 0) + 1
        keep = tuple(k for k in list(base_bindings) + list(polyenv or {}) if k not in names and nstores.get(k, 0) <= 1)
        for pth in _paths.enumerate_paths(fn.body, limit=60000, relevant=_paths.relevance(fn.body, seeds, control=False)):
            if pth.exit[0] == 'raise':
                continue
            res = _paths.expand(pth, keep=keep)
            decisions = [p_ for e_, x, p_ in res.conds if norm(x) == flag]
            if not res.feasible or not decisions or any(d_ is not pol for d_ in decisions):
                continue
            out = {}
            b = dict(base_bindings)
            env = DT.DtypeEnv(b, polyenv=polyenv)
            for st, new in res.stmts:
                if is_def(st):
                    t = st.targets[0]
                    nm = (t.id if isinstance(t, ast.Name) else t.attr).lstrip('_')
                    out[nm] = env.eval(new.value)
            if len(out) == 2:
                return out
        return {}
    wb = dict((k, v) for k, v in local_bindings(wfn).items())
    wenv, renv = _dim_env(wfn, 'ncffile'), _dim_env(rfn, 'self')
    nfound = 0
    # the style flag: the writer asks the file object for an attribute (default: new style); the reader has to record the style under
    # exactly that name - an attribute spelled with two leading underscores inside the class is stored under a mangled name
    ctx.rule('R-STYLEFLAG', 'land-use: the reader records the file style under the attribute name the writer asks for')
    wflag = None
    for st in iter_stmts(wfn.body):
        if isinstance(st, ast.Assign) and isinstance(st.targets[0], ast.Name) and isinstance(st.value, ast.Call) and dotted(st.value.func) == 'getattr' and len(st.value.args) >= 2 \
                and const_str(st.value.args[1]) and 'style' in const_str(st.value.args[1]):
            wflag = (st.targets[0].id, const_str(st.value.args[1]), st)
    rflags = {}
    for st in iter_stmts(rfn.body):
        if isinstance(st, ast.Assign) and isinstance(st.targets[0], ast.Attribute) and isinstance(st.targets[0].value, ast.Name) and st.targets[0].value.id == 'self' \
                and isinstance(st.value, ast.Constant) and isinstance(st.value.value, bool):
            rflags.setdefault(st.targets[0].attr, set()).add(st.value.value)
    rflag = [a for a, vals in rflags.items() if vals == set([True, False])]
    rname = 'self.' + (rflag[0] if rflag else '_newstyle')
    wname = wflag[0] if wflag else 'newstyle'
    if wflag is None or not rflag:
        ctx.undec('R-STYLEFLAG', 'style flag', where, 'writer lookup / reader flag not found')
    elif rflag[0] == wflag[1] and not rflag[0].startswith('__'):
        ctx.ok('R-STYLEFLAG', 'style flag', where, "reader sets self.%s, writer reads getattr(ncffile, '%s', ...)" % (rflag[0], wflag[1]))
    else:
        ctx.violation(Finding('R-STYLEFLAG', rm.relpath, 'landuse.__init__', [st for st in iter_stmts(rfn.body) if isinstance(st, ast.Assign) and isinstance(st.targets[0], ast.Attribute)
                                                                                and st.targets[0].attr == rflag[0]][0],
                              "the reader records the style as self.%s%s but the writer asks for getattr(ncffile, '%s', <new style>): an old-style file is always re-written in the new style (keyed "
                              'records, other variable name)' % (rflag[0], ' (stored under a mangled name)' if rflag[0].startswith('__') else '', wflag[1])))
    for tag, pol in (('new', True), ('old', False)):
        wl = layouts_for(wfn, wname, pol, wb, wenv)
        rl = layouts_for(rfn, rname, pol, {}, renv)
        for k in ('fland_dtype', 'other_dtype'):
            if k not in wl or k not in rl:
                raise AnalysisError('construct not understood: landuse %s %s' % (tag, k))
            nfound += 1
            cmp_layout(ctx, 'R-HDRTABLE', 'landuse:%s:%s' % (tag, k), wl[k], rl[k], wm.relpath, 'ncf2landuse', wfn.body[0], where)


def run(ctx):
    for r, d in (('R-HDRTABLE', 'writer and reader header layouts flatten to the same (kind, size, count) sequence with the same field names'),
                 ('R-ATTRFIELD', 'header field <-> attribute/dimension relation of the writer is inverted by the reader'),
                 ('R-TFLAGPAIR', 'time flags built from adjacent (date, time) fields of one slot'),
                 ('R-BEPAIR', 'begin/end header fields and roll-over statements pair slots consistently'),
                 ('R-EDGECELLS', 'edge -> cell-count table agrees between boundary writer and reader'),
                 ('R-VARORDER', 'cloud/rain variable order agrees between writer and reader'),
                 ('R-CENTURY', 'two-digit years get their century back per element (files may cross 1999/2000)'),
                 ('R-FLUSH', 'a writer that returns its open file flushes it after the last write'),
                 ('R-SRCUNTOUCHED', 'writers never write storage of the file they are given (alias/view provenance)'),
                 ('R-INPLACEALIAS', 'writers never update in place an array that aliases one still to be written'),
                 ('R-CONVERT', 'writers convert input data with astype, never reinterpret it with a dtype view'),
                 ('R-API', 'writers and readers use only numpy APIs that exist')):
        ctx.rule(r, d)
    nb = 0
    for fmt, cls in (('uamiv', 'uamiv'), ('lateral_boundary', 'lateral_boundary')):
        wm, wfn, rm = check_format(ctx, fmt, cls)
        nb += check_bepair(ctx, fmt, wm, wfn)
    ctx.floor('begin/end slot stores', nb, 12)
    # ---- R-CENTURY: the two-digit years written by the writers get their century back per element
    from .. import lints as _l
    ncent = 0
    for rp_ in ('ArrayTransforms.py', 'camxfiles/ArrayTransforms.py'):
        m_ = ctx.src.mod(rp_)
        if not m_.has_func('ConvertCAMxTime'):
            continue
        f_ = m_.func('ConvertCAMxTime')
        ncent += 1
        hits = _l.collapsed_elementwise_choice(f_)
        for st, x, red in hits:
            ctx.violation(Finding('R-CENTURY', rp_, 'ConvertCAMxTime', st, 'the century added to the two-digit-year dates in %s is chosen once for the whole array from %s: '
                                  'a file whose steps cross 1999/2000 (or 2069/1970) reads back with every date in one century (99365 -> 2099365)' % (x, norm(st.test)[:40])))
        if not hits:
            if any(isinstance(c, ast.Call) and (dotted(c.func) or '').split('.')[-1] == 'where' for c in ast.walk(f_)) or \
                    any(isinstance(n, ast.Subscript) and isinstance(n.slice, ast.Compare) for n in ast.walk(f_)):
                ctx.ok('R-CENTURY', rp_, 'src/PseudoNetCDF/%s ConvertCAMxTime' % rp_, 'century chosen per element')
            else:
                ctx.undec('R-CENTURY', rp_, 'src/PseudoNetCDF/%s ConvertCAMxTime' % rp_, 'century restoration not in a recognised elementwise form')
    ctx.floor('ConvertCAMxTime definitions', ncent, 1)
    # the pivot and the two centuries themselves: 00-69 -> 20xx, 70-99 -> 19xx (the writers store date % 100000; the property covers 1970-2069)
    for rp_ in ('ArrayTransforms.py', 'camxfiles/ArrayTransforms.py'):
        m_ = ctx.src.mod(rp_)
        if not m_.has_func('ConvertCAMxTime'):
            continue
        f_ = m_.func('ConvertCAMxTime')
        wh = [c for c in ast.walk(f_) if isinstance(c, ast.Call) and (dotted(c.func) or '').split('.')[-1] == 'where' and len(c.args) == 3 and isinstance(c.args[0], ast.Compare)]
        consts_ok = None
        for c in wh:
            cmp_ = c.args[0]
            if len(cmp_.ops) == 1 and isinstance(cmp_.comparators[0], ast.Constant) and all(isinstance(a, ast.Constant) for a in c.args[1:]):
                piv, a_, b_ = cmp_.comparators[0].value, c.args[1].value, c.args[2].value
                # decide the century of sample two-digit-year dates with the comparison as written
                def cent(d):
                    op = cmp_.ops[0]
                    t = {ast.Lt: d < piv, ast.LtE: d <= piv, ast.Gt: d > piv, ast.GtE: d >= piv}.get(type(op))
                    return None if t is None else d + (a_ if t else b_)
                want = {1: 2000001, 365: 2000365, 69001: 2069001, 69365: 2069365, 70001: 1970001, 99365: 1999365}
                got = dict((d, cent(d)) for d in want)
                wrong = [(d, got[d], want[d]) for d in sorted(want) if got[d] != want[d]]
                if wrong:
                    ctx.violation(Finding('R-CENTURY', rp_, 'ConvertCAMxTime', api.stmt_of(c), 'the stored date %05d is decoded as %s instead of %d: the two-digit years 00-69 belong to 20xx and 70-99 to 19xx '
                                          '(dates 1970-2069)' % wrong[0]), oid=rp_ + ':pivot')
                    consts_ok = False
                elif consts_ok is None:
                    consts_ok = True
        if consts_ok:
            ctx.ok('R-CENTURY', rp_ + ':pivot', 'src/PseudoNetCDF/%s ConvertCAMxTime' % rp_, 'pivot/centuries decode 00001..69365 as 20xx and 70001..99365 as 19xx')
        elif consts_ok is None:
            ctx.undec('R-CENTURY', rp_ + ':pivot', 'src/PseudoNetCDF/%s ConvertCAMxTime' % rp_, 'pivot constants not in the where(date < P, A, B) form')
    # ---- R-ENDIAN: the uamiv memmap reader takes the byte order from its `endian` argument for *every* record type
    ctx.rule('R-ENDIAN', 'uamiv Memmap: every record type built from literal format codes is given the byte order of the endian argument (.newbyteorder(ep))')
    um = ctx.src.mod(CAMX + 'uamiv/Memmap.py')
    nend = 0
    for qn in ('uamiv._make_header_fmt', 'uamiv.__readheader'):
        f_ = um.func(qn)
        for c in ast.walk(f_):
            if not (isinstance(c, ast.Call) and dotted(c.func) in ('dtype', 'np.dtype')):
                continue
            lits = [n.value for n in ast.walk(c) if isinstance(n, ast.Constant) and isinstance(n.value, str)]
            fmts = kw(c.args[0], 'formats') if c.args and isinstance(c.args[0], ast.Call) else (c.args[0] if c.args else None)
            if fmts is None:
                continue
            codes = [n.value for n in ast.walk(fmts) if isinstance(n, ast.Constant) and isinstance(n.value, str)]
            if not codes:
                continue      # composed of other record types only
            nend += 1
            par = getattr(c, '_parent', None)
            gp = getattr(par, '_parent', None)
            swapped = isinstance(par, ast.Attribute) and par.attr == 'newbyteorder' and isinstance(gp, ast.Call) and gp.args and norm(gp.args[0]) in ('ep', 'self.__endianprefix')
            fixed = [x for x in codes if x[:1] in '<>' or (x.startswith('(') and ')' in x and x[x.index(')') + 1:x.index(')') + 2] in '<>')]
            if swapped and not fixed:
                ctx.ok('R-ENDIAN', '%s@%d' % (qn, c.lineno), 'src/PseudoNetCDF/%suamiv/Memmap.py %s' % (CAMX, qn), '%d codes, .newbyteorder(ep)' % len(codes))
            else:
                ctx.violation(Finding('R-ENDIAN', um.relpath, qn, api.stmt_of(c), 'this record type %s: with endian=\'little\' its fields are read byte-swapped while the rest of the file is read correctly '
                                      '(time flags come back as garbage)' % ('hard-codes the byte order %s' % sorted(set(fixed)) if fixed else 'is not given the byte order of the endian argument')))
    ctx.floor('literal record types of the uamiv memmap reader', nend, 6)
    # ---- R-KEYPARSE: 'EDGE_SPECIES' keys of the boundary reader: everything after the first underscore is the species (names may contain underscores)
    from .. import consteval
    ctx.rule('R-KEYPARSE', "lateral_boundary reader: the variable key 'EDGE_SPECIES' is split at the first underscore only")
    lbm = ctx.src.mod(CAMX + 'lateral_boundary/Memmap.py')
    vf = lbm.func('lateral_boundary.__variables')
    wvf = 'src/PseudoNetCDF/%slateral_boundary/Memmap.py lateral_boundary.__variables' % CAMX
    head = []
    for st in vf.body:
        if isinstance(st, ast.Assign):
            head.append(st)
        else:
            break
    wrong = unk = None
    for key, e_, s_ in (('WEST_O3', 'WEST', 'O3'), ('EAST_O3_A', 'EAST', 'O3_A'), ('NORTH_NO_2_X', 'NORTH', 'NO_2_X'), ('SOUTH_PAR', 'SOUTH', 'PAR')):
        env = consteval.run_block(head, {vf.args.args[1].arg: key}, want_env=True)
        if env is consteval.UNK or env.get('edgename', consteval.UNK) is consteval.UNK or env.get('spcname', consteval.UNK) is consteval.UNK:
            unk = key
            continue
        if (env['edgename'], env['spcname']) != (e_, s_):
            wrong = (key, env['edgename'], env['spcname'])
            break
    if wrong:
        ctx.violation(Finding('R-KEYPARSE', lbm.relpath, 'lateral_boundary.__variables', head[0], 'the key %r is parsed as edge %r, species %r: a species name containing an underscore is cut short, so the '
                              'variable returns another species\' data (or raises)' % wrong))
    elif unk:
        ctx.undec('R-KEYPARSE', 'key parse', wvf, 'parsing statements outside the evaluated fragment for %r' % unk)
    else:
        ctx.ok('R-KEYPARSE', 'key parse', wvf, '4 sample keys (species with 0-2 underscores) parsed exactly')
    check_edgecells(ctx)
    check_varorder(ctx)
    ctx.rule('R-LUORDER', 'land-use writer: the land-use category record is written before the optional records (the reader tells the style from the first record)')
    check_landuse_order(ctx)
    ctx.rule('R-BYTEORDER', 'every emitted value has a byte order fixed by the writer (big-endian conversion or big-endian header array), never that of an input attribute')
    ctx.floor('emission sites examined for byte order', check_byteorder(ctx), 40)
    check_one_step(ctx)
    check_dead_carry(ctx)
    check_year_end(ctx)
    check_per_step_stamp(ctx)
    check_header_counts(ctx)
    ctx.floor('single elements of flat maps re-interpreted', check_scalar_view(ctx), 1)
    ctx.floor('text attributes sizing a record', check_sized_text(ctx), 1)
    check_landuse(ctx)
    check_landuse_names(ctx)
    check_api(ctx, ctx.tier)
    ctx.assumptions += ['byte order is ignored when layouts are compared (readers default to big endian, writers spell it)',
                        'hasattr() on the installed numpy decides API existence']
