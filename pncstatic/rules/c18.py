"""C18 - GEOS-Chem binary punch: layout, role, scaling and lookup agreement between reader, writer and second reader.

R-BPCHTABLE  the block layouts of _bpch (module constants), the writer's local dtypes in ncf2bpch and _newbpch flatten equally;
             the data record '>i4, <shape>>f4, >i4' equals the writer's ['>i', shape>f, '>i'].
R-FIELDROLE  the header fields the reader addresses by position (f7..f14) lie at the byte offsets of the writer's
             category, tracerid, unit, tau0, tau1, reserved, dim[0:3], dim[3:6]; reader attribute <- field and writer
             field <- attribute are inverse.
R-SCALEINV   the reader multiplies by scale exactly on the not-noscale branch, the writer divides by var.scale exactly on
             its not-noscale branch (without touching the input), and the scale row is looked up by tracer id + category offset.
R-SCALEKEY   the second reader prefers the (offset + id) row of the tracer table over the bare id.
R-ROWALIAS   rows added to the tracer table while walking the headers are fresh dictionaries.
R-DTYPEPADS  (shared with C09) pads of the writer.
R-API        both readers and the writer use only numpy APIs that exist.
"""
import ast
import re

from ..engine import parent_chain, AnalysisError, dotted, iter_stmts, norm, walk_expr, const_str, kw
from ..prov import Prov, is_input
from ..report import Finding
from ..sizealg import Poly
from .. import dtypes as DT
from .. import api
from . import c08, c09

LEVEL_TEXT = (
    "Static sibling-agreement checks over the three bpch implementations (ast, dtype evaluator with byte offsets, "
    "provenance): identical block layouts, positional header fields of the reader sit at the writer's named fields, the "
    "attribute<->field maps are inverse, scaling is applied and removed on mirrored branches with the same key and without "
    "modifying the input, table rows are not aliased, the second reader prefers the offset row. Byte identity of a rewrite and "
    "multi-block strides are run-time arithmetic and are not decided.")

B = 'geoschemfiles/_bpch.py'
NB = 'geoschemfiles/_newbpch.py'
ROLE = {'f7': 'category', 'f8': 'tracerid', 'f9': 'unit', 'f10': 'tau0', 'f11': 'tau1', 'f12': 'reserved'}


def offsets(fields):
    out, pos = {}, 0
    for f in fields:
        nb = f.nbytes().constval()
        out[f.name] = (pos, int(nb))
        pos += int(nb)
    return out


def api_stmt(fn, word):
    """first statement of fn whose text mentions `word` (for the report position)"""
    for st in iter_stmts(fn.body):
        if not isinstance(st, (ast.If, ast.For, ast.While, ast.Try, ast.With)) and word in norm(st):
            return st
    return fn.body[0]


def check_table_strip(ctx, rule='R-TABLESTRIP'):
    """the tracer and diagnostic tables are fixed-width text: a line is cut at constant columns.  Stripping the whole text of blanks
    removes the left padding of its first line, so a table that starts with a data line (no leading comment) is cut one field off."""
    ctx.rule(rule, 'bpch readers: the text of a fixed-width table is not stripped of leading blanks before its lines are cut at constant columns')
    mod = ctx.src.mod(B)
    n = 0
    for q, fn in sorted(mod.functions.items()):
        if '<locals>' in q:
            continue
        for x in ast.walk(fn):
            if not (isinstance(x, ast.Call) and isinstance(x.func, ast.Attribute) and x.func.attr in ('strip', 'lstrip')):
                continue
            recv = x.func.value
            if not (isinstance(recv, ast.Call) and isinstance(recv.func, ast.Attribute) and recv.func.attr == 'read'):
                continue
            # is the text cut into lines that are sliced at constant columns?
            cols = [y for y in ast.walk(fn) if isinstance(y, ast.Subscript) and isinstance(y.slice, ast.Slice) and isinstance(y.value, ast.Name)
                    and any(isinstance(b, ast.Constant) and isinstance(b.value, int) and b.value > 1 for b in (y.slice.lower, y.slice.upper) if b is not None)]
            if not cols:
                continue
            n += 1
            chars = const_str(x.args[0]) if x.args else None
            where = 'src/PseudoNetCDF/%s %s' % (B, q)
            if not x.args or (chars is not None and (' ' in chars or '\t' in chars)):
                ctx.violation(Finding(rule, B, q, api.stmt_of(x), '%s removes the left padding of the first line of the table: when the table starts with a data line (no leading comment) its '
                                      'fixed-width columns are cut one field off and int() raises, although the same table with a comment line in front reads' % norm(x)[:50]), oid='%s:%s' % (q, norm(recv)[:30]))
            else:
                ctx.ok(rule, '%s:%s' % (q, norm(recv)[:30]), where, '%s keeps blanks' % norm(x)[:50])
    ctx.count('stripped table texts', n)


def check_repeat_ends_step(ctx, rule='R-REPEATEND'):
    """header walk of bpch1: a block whose (category, tracer) repeats the first block of the file opens the next time step; its type
    and key must not be added to the layout of one step - also when that block happens to be the last one of the file (one tracer,
    two time blocks)."""
    from .. import paths as _paths
    ctx.rule(rule, 'bpch1 header walk: on every path on which the block repeats the first (category, tracer) nothing is appended to the per-step layout')
    mod = ctx.src.mod(B)
    fn = mod.func('bpch1.__init__')
    where = 'src/PseudoNetCDF/%s bpch1.__init__' % B
    loops = [st for st in iter_stmts(fn.body) if isinstance(st, ast.While) and 'first_header' in norm(st.test)]
    if not loops:
        ctx.undec(rule, 'header walk', where, 'loop over the block headers not found')
        return
    lp = loops[0]

    def is_repeat(e):
        """+1: e says the block repeats the first one, -1: e says it does not, 0: something else"""
        if isinstance(e, ast.Compare) and len(e.ops) == 1 and isinstance(e.ops[0], (ast.Eq, ast.NotEq)):
            a, b = norm(e.left), norm(e.comparators[0])
            if 'first_header' in a + b and 'header[8]' in a + b and ('first_header[8]' in a or 'first_header[8]' in b):
                return 1 if isinstance(e.ops[0], ast.Eq) else -1
        return 0
    npaths, bad = 0, None
    for pth in _paths.enumerate_paths(lp.body, limit=60000):
        ex = _paths.expand(pth)
        if not ex.feasible:
            continue
        rep_pol = None
        contradictory = False
        firstnone = None
        for e0, x, pol in ex.conds:
            r = is_repeat(x)
            if r:
                val = pol if r == 1 else (not pol)
                if rep_pol is not None and rep_pol != val:
                    contradictory = True
                rep_pol = val
            if norm(x) == 'first_header is None':
                firstnone = pol
        if contradictory or rep_pol is not True or firstnone is True:
            continue
        npaths += 1
        apps = [c for st in pth.stmts for c in ast.walk(st) if isinstance(c, ast.Call) and isinstance(c.func, ast.Attribute) and c.func.attr == 'append'
                and isinstance(c.func.value, ast.Name) and c.func.value.id in ('keys', 'data_types')]
        if apps and bad is None:
            bad = (apps[0], pth)
    if bad:
        c, pth = bad
        ctx.violation(Finding(rule, B, 'bpch1.__init__', api.stmt_of(c), 'on a path on which the block repeats the first (category, tracer) - %s - its type or key is appended to the layout of one time step: '
                              'a file with one tracer and exactly two time blocks then has the same field twice and cannot be opened (ValueError), while the block-walking reader reads it'
                              % ', '.join('%s is %s' % (norm(e)[:30], 'true' if p_ else 'false') for e, p_ in pth.conds[-2:])))
    elif npaths:
        ctx.ok(rule, 'header walk', where, '%d paths with a repeating block, none appends' % npaths)
    else:
        ctx.undec(rule, 'header walk', where, 'no path decides whether the block repeats the first one')


def run(ctx):
    check_table_strip(ctx)
    check_repeat_ends_step(ctx)
    for r, d in (('R-BPCHTABLE', 'reader, writer and second reader agree on the block layouts'),
                 ('R-FIELDROLE', 'positional reader fields f7..f14 = writer fields category..dim; attribute maps inverse'),
                 ('R-SCALEINV', 'scale applied (reader) and removed (writer) on mirrored branches, same key, input untouched'),
                 ('R-SCALEKEY', 'second reader prefers the offset + id row'),
                 ('R-ROWALIAS', 'tracer-table rows added during the header walk are fresh dicts'),
                 ('R-DTYPEPADS', 'writer pads equal the bracketed bytes'),
                 ('R-API', 'readers and writer use only numpy APIs that exist')):
        ctx.rule(r, d)
    src = ctx.src
    bm, nm = src.mod(B), src.mod(NB)
    wfn = bm.func('ncf2bpch')
    wb = c08.local_bindings(wfn)
    menv = DT.DtypeEnv(bm.assigns)
    wenv = DT.DtypeEnv(wb)
    nenv = DT.DtypeEnv(nm.assigns)
    where = 'src/PseudoNetCDF/geoschemfiles _bpch.py / ncf2bpch / _newbpch.py'
    gh_r, dh_r = menv.eval(bm.assigns['_general_header_type']), menv.eval(bm.assigns['_datablock_header_type'])
    gh_w, dh_w = wenv.eval(wb['_general_header_type']), wenv.eval(wb['_datablock_header_type'])
    dh_n = nenv.eval(nm.assigns['_datablock_header_type'])
    for tag, a, b_, node in (('general header: reader vs writer', gh_r, gh_w, wb['_general_header_type']),
                             ('datablock header: reader vs writer', dh_r, dh_w, wb['_datablock_header_type']),
                             ('datablock header: reader vs second reader', dh_r, dh_n, nm.assigns['_datablock_header_type'])):
        fa, fb = DT.flatten(a), DT.flatten(b_)
        if fa == fb:
            ctx.ok('R-BPCHTABLE', tag, where, '%s bytes' % DT.nbytes(a))
        else:
            ctx.violation(Finding('R-BPCHTABLE', B if 'second' not in tag else NB, 'ncf2bpch' if 'writer' in tag else 'module', node,
                                  '%s: layouts differ: %s vs %s' % (tag, DT.describe(a)[:120], DT.describe(b_)[:120])), oid=tag)
    # data record
    init = bm.func('bpch1.__init__')
    dts = [n for n in walk_expr(init) if isinstance(n, ast.Call) and dotted(n.func) == 'dtype' and n.args and isinstance(n.args[0], ast.BinOp)
           and const_str(n.args[0].left) and '%s' in const_str(n.args[0].left)]
    if not dts:
        raise AnalysisError('anchor vanished: data record dtype in bpch1.__init__')
    rfmts = set(const_str(n.args[0].left).replace(' ', '') for n in dts)
    # the writer's per-variable block type, by structure: dtype(dict(names=[.., 'data', ..], formats=[header type, '>i', <data>, '>i'])) wherever it
    # is built (loop body, helper, comprehension); a named <data> format is resolved through its definition
    wcalls = [c for c in ast.walk(wfn) if isinstance(c, ast.Call) and (dotted(c.func) or '').split('.')[-1] == 'dict' and kw(c, 'names') is not None and kw(c, 'formats') is not None
              and isinstance(kw(c, 'names'), (ast.List, ast.Tuple)) and 'data' in [const_str(e) for e in kw(c, 'names').elts]]
    wtxt = dtxt = ''
    wrec = []
    if wcalls:
        wrec = [wcalls[0]]
        fm = kw(wcalls[0], 'formats')
        wtxt = norm(wcalls[0])
        if isinstance(fm, (ast.List, ast.Tuple)) and len(fm.elts) == 4:
            d_ = fm.elts[2]
            if isinstance(d_, ast.Name):
                defs = [st for st in ast.walk(wfn) if isinstance(st, ast.Assign) and any(isinstance(t, ast.Name) and t.id == d_.id for t in st.targets)]
                dtxt = norm(defs[-1].value) if defs else ''
            else:
                dtxt = norm(d_)
            wtxt = "formats=[%s, %s, data_type, %s]" % (norm(fm.elts[0]), norm(fm.elts[1]), norm(fm.elts[3]))
    if rfmts == set(['>i4,%s>f4,>i4']) and "formats=[_datablock_header_type, '>i', data_type, '>i']" in wtxt and dtxt.startswith("'%s>f' %"):
        ctx.ok('R-BPCHTABLE', 'data record', where, "reader '>i4, <shape>>f4, >i4' ; writer header + ['>i', <shape>>f, '>i']")
    else:
        ctx.violation(Finding('R-BPCHTABLE', B, 'ncf2bpch', api.stmt_of(wrec[0]) if wrec else wfn, 'data record layouts differ: reader %s, writer %s / %s' % (sorted(rfmts), wtxt[-80:], dtxt)), oid='data record')
    # ---- R-FIELDROLE
    ro, wo = offsets(dh_r), offsets(dh_w)
    for fk, wname in sorted(ROLE.items(), key=lambda kv: int(kv[0][1:])):
        if ro.get(fk) == wo.get(wname):
            ctx.ok('R-FIELDROLE', '%s=%s' % (fk, wname), where, 'byte offset %d, %d bytes' % ro[fk])
        else:
            ctx.violation(Finding('R-FIELDROLE', B, 'ncf2bpch', wb['_datablock_header_type'],
                                  "the reader reads %s at byte %s but the writer's field %s is at %s" % (fk, ro.get(fk), wname, wo.get(wname))), oid=fk)
    d13, d14, dw = ro.get('f13'), ro.get('f14'), wo.get('dim')
    if d13 and d14 and dw and d13[0] == dw[0] and d14[0] == dw[0] + 12 and d13[1] + d14[1] == dw[1]:
        ctx.ok('R-FIELDROLE', 'f13,f14=dim', where, 'dimension triple and start triple inside the 6-int dim field')
    else:
        ctx.violation(Finding('R-FIELDROLE', B, 'ncf2bpch', wb['_datablock_header_type'], 'f13/f14 %s %s do not tile the writer dim field %s' % (d13, d14, dw)), oid='dim')
    # reader, path-wise with temporaries substituted (paths.py): what the variable built on the data-block path is made from
    from .. import paths as _paths
    miss = bm.func('_tracer_lookup.__missing__')
    wmiss = 'src/PseudoNetCDF/%s _tracer_lookup.__missing__' % B
    block_paths = []        # paths that build the variable of a data block: (path, expansion, constructor call, keywords)
    tau_paths = {}
    for pth in _paths.function_paths(miss, limit=20000):
        if pth.exit[0] != 'return':
            continue
        res = _paths.expand(pth)
        if not res.feasible:
            continue
        rst, rnew = [(st, new) for st, new in res.stmts if isinstance(st, ast.Return)][-1]
        from .. import consteval as _cev18
        for key in ('tau0', 'tau1'):
            # the path is the one taken for this key when every condition the key decides has the polarity the path took
            decided, taken = 0, True
            for e_, x, pol in res.conds:
                v_ = _cev18.ev(x, {'key': key})
                if v_ is _cev18.UNK:
                    continue
                decided += 1
                if bool(v_) != pol:
                    taken = False
            if not (decided and taken):
                continue
            # header fields read on it, with the key known (a field chosen through a table indexed by the key is that entry)
            fields = []
            for st, new in res.stmts:
                for n_ in walk_expr(new):
                    if isinstance(n_, ast.Subscript) and isinstance(n_.value, ast.Subscript) and const_str(n_.value.slice) == 'header':
                        fv = _cev18.ev(n_.slice, {'key': key})
                        fields.append(fv if fv is not _cev18.UNK else norm(n_.slice))
            tau_paths.setdefault(key, []).append((rst, ' ; '.join("['header']['%s']" % f_ for f_ in fields)))
        call = rnew.value
        if isinstance(call, ast.Call) and (dotted(call.func) or '').endswith('PseudoNetCDFVariable') and kw(call, 'values') is not None \
                and any(isinstance(k, ast.keyword) and k.arg is None for k in call.keywords):
            kwname = [k.value for k in call.keywords if k.arg is None][0]
            kws = {}
            if isinstance(kwname, ast.Name):
                defs = [new for st, new in res.stmts if isinstance(st, ast.Assign) and any(isinstance(t, ast.Name) and t.id == kwname.id for t in st.targets)]
                d = defs[-1].value if defs else None
            else:
                d = kwname
            if isinstance(d, ast.Call) and dotted(d.func) == 'dict':
                kws = dict((k.arg, k.value) for k in d.keywords if k.arg)
            elif isinstance(d, ast.Dict):
                kws = dict((const_str(k), v) for k, v in zip(d.keys, d.values))
            if 'scale' in kws or 'tracerid' in kws:
                block_paths.append((pth, res, call, kws))
    if not block_paths:
        raise AnalysisError('construct not understood: data-block path of _tracer_lookup.__missing__')
    HDR = "['header'][0]"
    want = {'category': 'f7', 'tracerid': 'f8', 'base_units': 'f9', 'reserved': 'f12'}
    for nme, fk in sorted(want.items()):
        got = set()
        for pth, res, call, kws in block_paths:
            v = kws.get(nme)
            m = re.findall(r"\['header'\]\[0\]\['(f\d+)'\]", norm(v)) if v is not None else []
            got.add(tuple(sorted(set(m))))
        if got == set([(fk,)]):
            ctx.ok('R-FIELDROLE', 'reader %s<-%s' % (nme, fk), wmiss, 'ok')
        elif got and all(g for g in got):
            ctx.violation(Finding('R-FIELDROLE', B, '_tracer_lookup.__missing__', block_paths[0][2] if False else api_stmt(miss, nme),
                                  'the reader takes %s from header field %s; the writer stores it in %s (%s)' % (nme, sorted(got)[0], fk, ROLE.get(fk))), oid=nme)
        else:
            ctx.undec('R-FIELDROLE', 'reader %s' % nme, where, 'keyword not found on the data-block path')
    for key, fk in (('tau0', 'f10'), ('tau1', 'f11')):
        tp = tau_paths.get(key, [])
        if tp and all("['header']['%s']" % fk in t_ for st_, t_ in tp):
            ctx.ok('R-FIELDROLE', 'reader %s<-%s' % (key, fk), wmiss, 'ok')
        else:
            ctx.violation(Finding('R-FIELDROLE', B, '_tracer_lookup.__missing__', tp[0][0] if tp else miss.body[0], 'variable %s is not read from header field %s' % (key, fk)), oid=key)
    # writer field <- attribute (store table with aliases resolved) ; reader keyword <- header field (above)
    wtable = _paths.stores_by_path(wfn, keep=('var', 'tau0', 'tau1', 'ncffile'))
    mt = norm(miss)

    def stored(field):
        return sorted(set(v for k, vs in wtable.items() if k.endswith("['header']['%s']" % field) for v, st_ in vs))
    pairs = [('tracerid', 'var.tracerid', 'tracerid'), ('category', 'var.category.ljust(40)', 'category'), ('unit', 'var.base_units', 'base_units'), ('tau0', 'tau0', None), ('tau1', 'tau1', None)]
    for field, wval, rkw in pairs:
        okw = stored(field) == [wval]
        okr = rkw is None or all(rkw in kws for pth, res, call, kws in block_paths)
        wpat = "header['%s'] = %s" % (field, wval)
        if okw and okr:
            ctx.ok('R-FIELDROLE', wpat[:28], where, 'writer %s ; reader keyword %s' % (wpat, rkw))
        else:
            ctx.violation(Finding('R-FIELDROLE', B, 'ncf2bpch', wfn.body[0], 'attribute/field maps are not inverse: writer stores %s in field %s (expected %s) ; reader keyword %r present: %s' % (stored(field), field, wval, rkw, okr)), oid=wpat[:28])
    # ---- R-SCALEINV: path-wise - the values of the block variable are the raw field when noscale, raw * scale otherwise
    okr, rnode = True, None
    nraw = nsc = 0
    scale_ok = True
    for pth, res, call, kws in block_paths:
        v = kw(call, 'values')
        ns = res.polarity('self.noscale')
        mults = [x for x in ast.walk(v) if isinstance(x, ast.BinOp) and isinstance(x.op, (ast.Mult, ast.Div))]
        if ns is True:
            nraw += 1
            if mults:
                okr, rnode = False, call
        elif ns is False:
            nsc += 1
            if not (isinstance(v, ast.BinOp) and isinstance(v.op, ast.Mult) and "['SCALE']" in norm(v.right) + norm(v.left) and len(mults) == 1):
                okr, rnode = False, call
            sc = v.right if isinstance(v, ast.BinOp) and "['SCALE']" in norm(v.right) else (v.left if isinstance(v, ast.BinOp) else v)
            st_ = norm(sc)
            if not (st_.startswith('self._tracer_data[') and HDR + "['f8'] +" in st_ and "self._diag_data.get(" in st_ and ".get('offset', 0)" in st_):
                scale_ok = False
        else:
            okr, rnode = False, call
    if okr and nraw and nsc:
        ctx.ok('R-SCALEINV', 'reader', wmiss, 'noscale: raw ; else: raw * scale (%d + %d paths)' % (nraw, nsc))
    else:
        ctx.violation(Finding('R-SCALEINV', B, '_tracer_lookup.__missing__', api_stmt(miss, 'noscale'), 'the reader does not multiply by scale exactly on the not-noscale branch'))
    # writer: what is stored into the data field
    wok, wnode = True, None
    nwr = nws = 0
    for lp in [st for st in iter_stmts(wfn.body) if isinstance(st, ast.For)]:
        for pth in _paths.enumerate_paths(lp.body, limit=20000):
            res = _paths.expand(pth, keep=('var', 'vals', 'ncffile'))
            if not res.feasible:
                continue
            for st, new in res.stmts:
                if isinstance(st, ast.AugAssign) and "['data']" in norm(new.target):
                    wok, wnode = False, st
                if not (isinstance(new, ast.Assign) and any("['data']" in norm(t) for t in new.targets)):
                    continue
                ns = res.polarity('ncffile.noscale')
                divs = [x for x in ast.walk(new.value) if isinstance(x, ast.BinOp) and isinstance(x.op, (ast.Mult, ast.Div))]
                if ns is True:
                    nwr += 1
                    if divs:
                        wok, wnode = False, st
                elif ns is False:
                    nws += 1
                    if not (isinstance(new.value, ast.BinOp) and isinstance(new.value.op, ast.Div) and norm(new.value.right) == 'var.scale' and len(divs) == 1):
                        wok, wnode = False, st
                else:
                    wok, wnode = False, st
    if any(isinstance(s2, ast.AugAssign) and isinstance(s2.op, (ast.Div, ast.Mult)) for s2 in iter_stmts(wfn.body)):
        wok = False
        wnode = wnode or [s2 for s2 in iter_stmts(wfn.body) if isinstance(s2, ast.AugAssign) and isinstance(s2.op, (ast.Div, ast.Mult))][0]
    if wok and nwr and nws:
        ctx.ok('R-SCALEINV', 'writer', 'src/PseudoNetCDF/%s ncf2bpch' % B, 'noscale: raw ; else: vals / var.scale (new array)')
    else:
        ctx.violation(Finding('R-SCALEINV', B, 'ncf2bpch', wnode if wnode is not None else wfn.body[0], 'the writer does not divide by var.scale exactly on the not-noscale branch with a new array '
                              '(an in-place division changes the variables of the file being written)'))
    if scale_ok and nsc:
        ctx.ok('R-SCALEINV', 'scale key', wmiss, 'tracer id + category offset')
    else:
        ctx.violation(Finding('R-SCALEINV', B, '_tracer_lookup.__missing__', api_stmt(miss, 'SCALE'), 'the scale row is not looked up by tracer id + category offset'))
    # the writer never writes its input (provenance; bpch variables are 4-D, var[ti] is a view)
    p = Prov(bm, wfn, receiver=None, file_params=['ncffile'], int_index_views=True)
    bad = [ev for ev in p.run() if ev.kind in ('aug-name', 'aug-sub', 'store-sub', 'inplace-call', 'out-kw') and ev.base[0] in ('VIEW', 'SAME') and is_input(ev.base[1])]
    if bad:
        for ev in bad:
            ctx.violation(Finding('R-SCALEINV', B, 'ncf2bpch', ev.stmt, 'the writer modifies the data of the file it is writing (%s on a view of %s): the source no longer '
                                  'matches what was written and a second write gives different bytes' % (ev.kind, ev.base[1])))
    else:
        ctx.ok('R-SCALEINV', 'writer leaves input untouched', 'src/PseudoNetCDF/%s ncf2bpch' % B, '%d sinks examined' % len(p.events))
    # ---- R-SCALEKEY (second reader)
    gi = nm.func('gcvar.__init__')
    pst = [st for st in iter_stmts(gi.body) if isinstance(st, ast.Assign) and norm(st.targets[0]) == 'props']
    if not pst:
        raise AnalysisError('anchor vanished: props lookup in gcvar.__init__')
    v = pst[0].value
    w2 = 'src/PseudoNetCDF/%s gcvar.__init__' % NB
    good = False
    if isinstance(v, ast.Subscript) and norm(v.slice) == '0' and isinstance(v.value, ast.BinOp) and isinstance(v.value.op, ast.Add):
        first, second = v.value.left, v.value.right
        good = 'self.cattracerid' in norm(first) and 'self.cattracerid' not in norm(second) and 'self.tracerid' in norm(second)
    bitor = any(isinstance(n, ast.BinOp) and isinstance(n.op, ast.BitOr) for n in walk_expr(v))
    if good:
        ctx.ok('R-SCALEKEY', 'gcvar props', w2, 'rows matching offset + id first, then the bare id')
    elif bitor or ('self.tracerid' in norm(v) and 'self.cattracerid' in norm(v)):
        ctx.violation(Finding('R-SCALEKEY', NB, 'gcvar.__init__', pst[0], 'the tracer row is taken in table order from the union of (offset + id) and bare-id matches: an earlier '
                              'bare-id line wins over the offset line and the block gets the wrong scale/unit/name (disagrees with the first reader)'))
    else:
        ctx.undec('R-SCALEKEY', 'gcvar props', w2, 'lookup idiom not recognised')
    if 'self.cattracerid = self.catoffset + self.tracerid' in norm(gi):
        ctx.ok('R-SCALEKEY', 'cattracerid', w2, 'offset + id')
    else:
        ctx.violation(Finding('R-SCALEKEY', NB, 'gcvar.__init__', gi.body[0], 'cattracerid is not category offset + tracer id'))
    gt = norm(nm.func('gcvar.__getitem__'))
    if "if self.noscale: self._data = tmpdata['data'] else: self._data = tmpdata['data'] * self.scale" in gt:
        ctx.ok('R-SCALEINV', 'second reader', 'src/PseudoNetCDF/%s gcvar.__getitem__' % NB, 'noscale: raw ; else: raw * scale')
    else:
        ctx.violation(Finding('R-SCALEINV', NB, 'gcvar.__getitem__', nm.func('gcvar.__getitem__').body[0], 'the second reader does not scale exactly on the not-noscale branch'))
    # ---- R-ROWALIAS
    n = 0
    for st in iter_stmts(init.body):
        if isinstance(st, ast.Assign) and isinstance(st.targets[0], ast.Subscript) and norm(st.targets[0].value) == 'tracer_data':
            n += 1
            val = st.value
            fresh = isinstance(val, (ast.Dict, ast.DictComp)) or (isinstance(val, ast.Call) and dotted(val.func) in ('dict', 'OrderedDict', 'copy.copy', 'copy.deepcopy')) \
                or (isinstance(val, ast.Call) and isinstance(val.func, ast.Attribute) and val.func.attr == 'copy')
            if isinstance(val, ast.Name):
                # follow the local definition
                dd = [s2 for s2 in iter_stmts(init.body) if isinstance(s2, ast.Assign) and norm(s2.targets[0]) == val.id and s2.lineno < st.lineno]
                if dd:
                    v2 = dd[-1].value
                    fresh = isinstance(v2, (ast.Dict, ast.DictComp)) or (isinstance(v2, ast.Call) and dotted(v2.func) in ('dict', 'OrderedDict', 'copy.copy', 'copy.deepcopy')) \
                        or (isinstance(v2, ast.Call) and isinstance(v2.func, ast.Attribute) and v2.func.attr == 'copy')
            if fresh:
                ctx.ok('R-ROWALIAS', 'tracer_data store@%d' % n, 'src/PseudoNetCDF/%s bpch1.__init__' % B, 'fresh dict')
            else:
                ctx.violation(Finding('R-ROWALIAS', B, 'bpch1.__init__', st, 'a tracer-table row is stored by reference (%s): updating it for one block rewrites the scale/unit of the '
                                      'tracer that shares the row' % norm(val)[:40]))
    ctx.floor('tracer_data stores', n, 3)
    # ---- R-KWFORWARD: the front end forwards every option both it and the chosen reader understand, each under its own name
    ctx.rule('R-KWFORWARD', 'the combined reader forwards to each back end exactly the options both accept, each bound to the same-named argument')
    MB = 'geoschemfiles/_bpchmaster.py'
    mm_ = src.mod(MB)
    fe = mm_.func('bpch.__init__')
    fe_params = [a.arg for a in fe.args.args[2:]] + [a.arg for a in fe.args.kwonlyargs]

    def dict_items(e, known):
        """keys -> value text of a dict-building expression; None when not understood"""
        if isinstance(e, ast.Dict) and all(isinstance(k, ast.Constant) for k in e.keys):
            return dict((k.value, norm(v)) for k, v in zip(e.keys, e.values))
        if isinstance(e, ast.Call) and dotted(e.func) in ('OrderedDict', 'dict', 'collections.OrderedDict'):
            out = {}
            if e.args:
                a = e.args[0]
                if isinstance(a, (ast.GeneratorExp, ast.ListComp)) and len(a.generators) == 1 and isinstance(a.generators[0].iter, (ast.Tuple, ast.List)) \
                        and all(isinstance(x, ast.Constant) for x in a.generators[0].iter.elts) and not a.generators[0].ifs \
                        and isinstance(a.elt, ast.Tuple) and len(a.elt.elts) == 2 and isinstance(a.generators[0].target, ast.Name):
                    kv = a.generators[0].target.id
                    ke, ve = a.elt.elts
                    if not (isinstance(ke, ast.Name) and ke.id == kv):
                        return None
                    for x in a.generators[0].iter.elts:
                        if isinstance(ve, ast.Subscript) and isinstance(ve.value, ast.Name) and ve.value.id in known and isinstance(ve.slice, ast.Name) and ve.slice.id == kv:
                            if x.value not in known[ve.value.id]:
                                return None
                            out[x.value] = known[ve.value.id][x.value]
                        else:
                            return None
                elif isinstance(a, ast.Name) and a.id in known:
                    out.update(known[a.id])
                else:
                    return None
            for k_ in e.keywords:
                if k_.arg is None:
                    return None
                out[k_.arg] = norm(k_.value)
            return out
        return None
    known = {}
    for st in iter_stmts(fe.body):
        if isinstance(st, ast.Assign) and len(st.targets) == 1 and isinstance(st.targets[0], ast.Name) and st.targets[0].id in ('bpch1kwds', 'bpch2kwds'):
            known[st.targets[0].id] = dict_items(st.value, known)
    for dn, (mod_, q_) in (('bpch1kwds', (bm, 'bpch1.__init__')), ('bpch2kwds', (nm, 'bpch2.__init__'))):
        wfe = 'src/PseudoNetCDF/%s bpch.__init__' % MB
        if dn not in known:
            ctx.undec('R-KWFORWARD', dn, wfe, 'keyword table not found')
            continue
        if known[dn] is None:
            ctx.undec('R-KWFORWARD', dn, wfe, 'keyword table built in a form that is not understood')
            known[dn] = {}
            continue
        tgt = mod_.func(q_)
        tparams = [a.arg for a in tgt.args.args[2:]] + [a.arg for a in tgt.args.kwonlyargs]
        want = [p_ for p_ in tparams if p_ in fe_params]
        st_ = [s2 for s2 in iter_stmts(fe.body) if isinstance(s2, ast.Assign) and norm(s2.targets[0]) == dn][0]
        missing = [p_ for p_ in want if p_ not in known[dn]]
        extra = [k_ for k_ in known[dn] if k_ not in tparams]
        crossed = [k_ for k_, v_ in known[dn].items() if k_ in fe_params and v_ != k_]
        if missing:
            ctx.violation(Finding('R-KWFORWARD', MB, 'bpch.__init__', st_, 'option%s %s accepted by both bpch() and %s %s not forwarded: the back end silently runs with its default '
                                  '(e.g. values scaled although noscale=True was asked for)' % ('s' if len(missing) > 1 else '', missing, q_, 'are' if len(missing) > 1 else 'is')), oid=dn + ':missing')
        elif extra:
            ctx.violation(Finding('R-KWFORWARD', MB, 'bpch.__init__', st_, '%s forwards %s, which %s does not accept: the fallback always raises TypeError' % (dn, extra, q_)), oid=dn + ':extra')
        elif crossed:
            ctx.violation(Finding('R-KWFORWARD', MB, 'bpch.__init__', st_, '%s binds %s to a differently named argument (%s)' % (dn, crossed, [known[dn][c] for c in crossed])), oid=dn + ':crossed')
        else:
            ctx.ok('R-KWFORWARD', dn, wfe, 'forwards %s = options shared with %s' % (sorted(known[dn]), q_))
    # ---- R-PERBLOCK: every header field of a block is computed from that block's variable (no leftover binding from an earlier loop)
    ctx.rule('R-PERBLOCK', 'writer: header fields of a block depend only on that block\'s variable, never on a value computed before the block loop from a leftover loop variable')
    blockloop = None
    for st in iter_stmts(wfn.body):
        if isinstance(st, ast.For) and isinstance(st.target, ast.Name) and st.target.id == 'varkey' and any(
                isinstance(s2, ast.Assign) and isinstance(s2.targets[0], ast.Subscript) and norm(s2.targets[0].value) == 'header' for s2 in iter_stmts(st.body)):
            blockloop = st
    if blockloop is None:
        ctx.undec('R-PERBLOCK', 'block loop', 'src/PseudoNetCDF/%s ncf2bpch' % B, 'per-block loop not found')
    else:
        pervar = set(['varkey'])
        for s2 in iter_stmts(blockloop.body):
            if isinstance(s2, ast.Assign):
                for t in s2.targets:
                    if isinstance(t, ast.Name):
                        pervar.add(t.id)
        inloop = set(id(x) for x in ast.walk(blockloop))
        outer_defs = {}
        for s2 in iter_stmts(wfn.body):
            if id(s2) in inloop:
                continue
            if isinstance(s2, ast.Assign):
                for t in s2.targets:
                    if isinstance(t, ast.Name):
                        outer_defs.setdefault(t.id, []).append(s2)
        nh = 0
        for s2 in iter_stmts(blockloop.body):
            if isinstance(s2, ast.Assign) and isinstance(s2.targets[0], ast.Subscript) and norm(s2.targets[0].value) in ('header', 'tdv', 'data'):
                nh += 1
                stale = None
                for n_ in ast.walk(s2.value):
                    if isinstance(n_, ast.Name) and n_.id not in pervar and n_.id in outer_defs:
                        for d_ in outer_defs[n_.id]:
                            # a definition outside the loop that reads a per-variable name is a leftover of an earlier loop (or a NameError)
                            used = set(x.id for x in ast.walk(d_.value) if isinstance(x, ast.Name)) - set(
                                g_.target.id for c_ in ast.walk(d_.value) if isinstance(c_, (ast.ListComp, ast.GeneratorExp)) for g_ in c_.generators if isinstance(g_.target, ast.Name))
                            if used & (pervar - set(['varkey'])) or ('varkey' in used):
                                stale = (n_.id, d_, sorted(used & pervar))
                if stale:
                    ctx.violation(Finding('R-PERBLOCK', B, 'ncf2bpch', stale[1], '%s is computed once before the block loop from %s, which at that point still holds the last variable of an '
                                          'earlier loop; it is then written into the header of every block (%s)' % (stale[0], stale[2], norm(s2.targets[0]))))
                else:
                    ctx.ok('R-PERBLOCK', norm(s2.targets[0]), 'src/PseudoNetCDF/%s ncf2bpch' % B, 'depends on this block only')
        ctx.floor('header/data stores of the block loop', nh, 8)
    # ---- R-TAUPAIR: cached header attributes of the second reader come from the like-named header field
    ctx.rule('R-TAUPAIR', 'second reader: an attribute named after a header field is read from that field')
    hdrnames = set(['tau0', 'tau1', 'category', 'tracerid', 'unit', 'reserved', 'dim', 'skip', 'modelname', 'modelres', 'halfpolar', 'center180'])
    npair = 0
    for q_, f_ in nm.functions.items():
        for s2 in iter_stmts(f_.body):
            if not isinstance(s2, ast.Assign):
                continue
            pairs = []
            for t in s2.targets:
                if isinstance(t, ast.Tuple) and isinstance(s2.value, ast.Tuple) and len(t.elts) == len(s2.value.elts):
                    pairs += list(zip(t.elts, s2.value.elts))
                else:
                    pairs.append((t, s2.value))
            for t, v in pairs:
                keys_ = [const_str(x.slice) for x in ast.walk(v) if isinstance(x, ast.Subscript) and const_str(x.slice) in hdrnames] if isinstance(v, ast.Subscript) else []
                if isinstance(t, ast.Attribute) and t.attr.lstrip('_') in hdrnames and len(keys_) == 1:
                    npair += 1
                    if keys_[0] == t.attr.lstrip('_'):
                        ctx.ok('R-TAUPAIR', '%s:%s' % (q_, norm(t)), 'src/PseudoNetCDF/%s %s' % (NB, q_), "<- ['%s']" % keys_[0])
                    else:
                        ctx.violation(Finding('R-TAUPAIR', NB, q_, s2, "%s is read from header field '%s': the block's %s is lost (grid/time description of the second reader differs from "
                                              'the first reader\'s)' % (norm(t), keys_[0], t.attr.lstrip('_'))))
    ctx.floor('attribute <- header field pairs in the second reader', npair, 2)
    # ---- R-PAIRCOLS: two per-block vectors become (block, 2) pairs by transposition, never by a row-major reshape
    ctx.rule('R-PAIRCOLS', 'first reader: [tau0, tau1] vectors are paired per block with .T / column_stack (reshape(-1, 2) interleaves them)')
    tl = bm.func('_tracer_lookup.__missing__')
    npc = 0
    for c in ast.walk(tl):
        if isinstance(c, ast.Call) and (dotted(c.func) or '').split('.')[-1] == 'array' and c.args and isinstance(c.args[0], ast.List) and len(c.args[0].elts) == 2 \
                and all("'tau" in norm(x) for x in c.args[0].elts):
            npc += 1
            par = getattr(c, '_parent', None)
            gp = getattr(par, '_parent', None)
            if isinstance(par, ast.Attribute) and par.attr == 'T':
                ctx.ok('R-PAIRCOLS', norm(c)[:40], 'src/PseudoNetCDF/%s _tracer_lookup.__missing__' % B, 'paired by .T')
            elif isinstance(par, ast.Attribute) and par.attr in ('reshape', 'ravel', 'resize') and isinstance(gp, ast.Call):
                ctx.violation(Finding('R-PAIRCOLS', B, '_tracer_lookup.__missing__', api.stmt_of(c), 'the (2, n) table of begin and end times is turned into pairs with %s: for more than one time block the rows are '
                                      '[tau0[0], tau0[1]], [tau0[2], tau1[0]], ... instead of [tau0[i], tau1[i]]' % norm(gp)[-20:]))
            else:
                ctx.undec('R-PAIRCOLS', norm(c)[:40], 'src/PseudoNetCDF/%s _tracer_lookup.__missing__' % B, 'pairing idiom not recognised')
    ctx.floor('tau pair tables', npc, 1)
    # ---- R-BLOCKID: the end of a time block is recognised by the full block identifier (category and tracer number)
    ctx.rule('R-BLOCKID', 'first reader: a repeated (category, tracer number) pair - not the number alone - marks the start of the next time block')
    b1 = bm.func('bpch1.__init__')
    wb1 = 'src/PseudoNetCDF/%s bpch1.__init__' % B
    rep = [st for st in iter_stmts(b1.body) if isinstance(st, ast.If) and 'first_header' in norm(st.test) and 'first_header is None' not in norm(st.test)]
    rep += [st.orelse[0] for st in iter_stmts(b1.body) if isinstance(st, ast.If) and norm(st.test) == 'first_header is None' and st.orelse and isinstance(st.orelse[0], ast.If)]
    if not rep:
        ctx.undec('R-BLOCKID', 'repeat test', wb1, 'comparison with first_header not found')
    else:
        t = norm(rep[0].test)
        idx = set(re.findall(r'first_header\[(\d+)\]', t))
        if idx >= set(['7', '8']):
            ctx.ok('R-BLOCKID', 'repeat test', wb1, t[:90])
        else:
            ctx.violation(Finding('R-BLOCKID', B, 'bpch1.__init__', rep[0], 'the next time block is detected by comparing field(s) %s of the first header only: a later category that reuses the first tracer number '
                                  'ends the walk early (the reader raises, or silently falls back to the other reader)' % sorted(idx)))
    # ---- R-IDKEEP: the tracer-table row never overwrites the identifier read from the block header
    ctx.rule('R-IDKEEP', 'second reader: attributes copied from the tracer table skip tracerid (the block header id is kept)')
    gi = nm.func('gcvar.__init__')
    wgi = 'src/PseudoNetCDF/%s gcvar.__init__' % NB
    lp = [st for st in iter_stmts(gi.body) if isinstance(st, ast.For) and 'dtype.names' in norm(st.iter) and any(isinstance(c, ast.Call) and dotted(c.func) == 'setattr' for c in ast.walk(st))]
    if not lp:
        ctx.undec('R-IDKEEP', 'row copy', wgi, 'attribute copy loop not found')
    else:
        # path-wise: every path of the loop body that reaches the setattr has decided that the field is not tracerid (a `continue`
        # guard, an enclosing `if pk != 'tracerid':`, a filtered iterable ... are the same thing)
        from .. import paths as _p18
        tv = norm(lp[0].target)
        nset = nbad = 0
        for pth in _p18.enumerate_paths(lp[0].body, limit=5000):
            if not any(isinstance(c, ast.Call) and dotted(c.func) == 'setattr' for s2 in pth.stmts for c in walk_expr(s2)):
                continue
            nset += 1
            if pth.polarity("%s == 'tracerid'" % tv) is not False:
                nbad += 1
        filtered = "'tracerid'" in norm(lp[0].iter)
        if nset and (nbad == 0 or filtered):
            ctx.ok('R-IDKEEP', 'row copy', wgi, "no path reaches setattr with %s == 'tracerid'" % tv)
        else:
            ctx.violation(Finding('R-IDKEEP', NB, 'gcvar.__init__', lp[0], 'every field of the tracer-table row is copied onto the variable, including tracerid: for a category with an offset the variable then carries '
                                  'offset + id instead of the id of its block header, the writer stores that, and re-reading applies the offset twice'))
    # ---- R-REGALL: the structure checks of the memory-mapped reader hold for every time step, not for the first and the last only
    ctx.rule('R-REGALL', 'first reader: the per-block regularity assertions compare every time step with the first one (.all() over the whole header column)')
    nra = 0
    for st in iter_stmts(b1.body):
        if not isinstance(st, ast.Assert):
            continue
        if not any(isinstance(p_, ast.For) and norm(p_.iter).endswith('.dtype.names') for p_ in parent_chain(st)):
            continue            # only the per-block checks over all time steps (header columns of the block table)
        cmps = [c for c in ast.walk(st.test) if isinstance(c, ast.Compare) and len(c.ops) == 1 and isinstance(c.ops[0], ast.Eq)]
        for c in cmps:
            sides = [c.left, c.comparators[0]]
            firsts = [x for x in sides if isinstance(x, ast.Subscript) and isinstance(x.value, ast.Name) and norm(x.slice) == '0']
            if not firsts:
                continue
            arr = firsts[0].value.id
            other = [x for x in sides if x is not firsts[0]][0]
            if not any(isinstance(n_, ast.Name) and n_.id == arr for n_ in ast.walk(other)):
                continue
            nra += 1
            whole = isinstance(other, ast.Name) and other.id == arr
            wrapped = any(isinstance(p_, ast.Call) and isinstance(p_.func, ast.Attribute) and p_.func.attr == 'all' for p_ in parent_chain(c)) or \
                any(isinstance(p_, ast.Call) and (dotted(p_.func) or '').split('.')[-1] == 'all' for p_ in parent_chain(c))
            if whole and wrapped:
                ctx.ok('R-REGALL', '%s@%d' % (arr, st.lineno), wb1, norm(st.test)[:60])
            else:
                ctx.violation(Finding('R-REGALL', B, 'bpch1.__init__', st, 'the check compares %s[0] with %s only: a file whose middle time step holds other blocks (same sizes) passes, the memory-mapped reader '
                                      'serves those blocks under the wrong tracer names, and the block-walking reader is never tried' % (arr, norm(other))), oid='%s' % arr)
    ctx.floor('regularity assertions judged by R-REGALL', nra, 2)
    # ---- R-PIECEORDER: the block-walking reader presents the time blocks of a variable in file order
    ctx.rule('R-PIECEORDER', 'second reader: the time blocks of a variable are concatenated in the order they were found in the file (no sorting)')
    nbm = ctx.src.mod(NB)
    gi = nbm.func('gcvar.__getitem__')
    wgi = 'src/PseudoNetCDF/%s gcvar.__getitem__' % NB
    loops_ = [l_ for l_ in ast.walk(gi) if isinstance(l_, ast.For) and isinstance(l_.target, ast.Tuple)]
    if not loops_:
        ctx.undec('R-PIECEORDER', 'pieces', wgi, 'loop over the time blocks not found')
    else:
        lp = loops_[0]
        it = lp.iter
        if isinstance(it, ast.Name):
            d_ = [st for st in iter_stmts(gi.body) if isinstance(st, ast.Assign) and norm(st.targets[0]) == it.id and st.lineno < lp.lineno]
            it = d_[-1].value if d_ else it
        reord = [c for c in ast.walk(it) if isinstance(c, ast.Call) and (dotted(c.func) in ('sorted', 'reversed', 'set', 'frozenset') or
                                                                          (isinstance(c.func, ast.Attribute) and c.func.attr in ('sort', 'reverse')))]
        if reord:
            ctx.violation(Finding('R-PIECEORDER', NB, 'gcvar.__getitem__', api.stmt_of(lp.iter) if not isinstance(lp.iter, ast.Name) else lp, 'the time blocks are iterated through %s: for a file whose blocks are not in '
                                  'chronological order the block-walking reader presents other data per time index than the memory-mapped reader (and the rewrite is not byte-identical)' % norm(reord[0])[:50]))
        else:
            ctx.ok('R-PIECEORDER', 'pieces', wgi, 'iterates %s' % norm(it)[:60])
    # ---- R-WINDOW3: the window-origin test looks at all three start indices read from the header
    ctx.rule('R-WINDOW3', 'first reader: a block is a window when any of its three start indices (i, j, l) is not the origin')
    starts = []
    for st in iter_stmts(miss.body):
        if isinstance(st, ast.Assign) and "['f14']" in norm(st.value):
            tg = st.targets[0]
            starts = [e.id for e in tg.elts if isinstance(e, ast.Name)] if isinstance(tg, ast.Tuple) else starts
    tests = [st for st in ast.walk(miss) if isinstance(st, ast.If) and starts and any(isinstance(n_, ast.Name) and n_.id in starts for n_ in ast.walk(st.test))]
    if len(starts) != 3 or not tests:
        ctx.undec('R-WINDOW3', 'window test', wmiss, 'start indices / window test not found (%s)' % starts)
    else:
        used = set(n_.id for n_ in ast.walk(tests[0].test) if isinstance(n_, ast.Name)) & set(starts)
        if used == set(starts):
            ctx.ok('R-WINDOW3', 'window test', wmiss, norm(tests[0].test)[:60])
        else:
            ctx.violation(Finding('R-WINDOW3', B, '_tracer_lookup.__missing__', tests[0], 'the window test reads %s of the three start indices %s: a block saved on a vertical (or other) window only is taken for a full-grid '
                                  'block and loses its STARTK / STARTJ / STARTI attribute' % (sorted(used), starts)))
    # ---- R-COLTILE: the numeric columns of a tracerinfo.dat line are cut without gaps (MOLWT, C, TRACER, SCALE are adjacent fixed-width fields)
    ctx.rule('R-COLTILE', 'first reader: the numeric fields of a tracerinfo line are adjacent slices (the end of one is the start of the next)')
    numsl = []
    for c in ast.walk(b1):
        if isinstance(c, ast.Call) and isinstance(c.func, ast.Name) and c.func.id in ('int', 'float') and len(c.args) == 1:
            a0 = c.args[0]
            while isinstance(a0, ast.Call) and isinstance(a0.func, ast.Attribute) and a0.func.attr == 'strip':
                a0 = a0.func.value
            if isinstance(a0, ast.Subscript) and isinstance(a0.slice, ast.Slice) and isinstance(a0.value, ast.Name) and isinstance(a0.slice.lower, ast.Constant) \
                    and isinstance(a0.slice.upper, ast.Constant) and a0.slice.lower.value >= 39:
                numsl.append((a0.slice.lower.value, a0.slice.upper.value, a0.value.id, c))
    numsl = sorted(set((a, b_, n_) for a, b_, n_, c in numsl)), numsl
    spans = [(a, b_) for a, b_, n_ in numsl[0]]
    gaps = [(spans[i], spans[i + 1]) for i in range(len(spans) - 1) if spans[i][1] != spans[i + 1][0] and spans[i] != spans[i + 1]]
    if len(spans) < 4:
        ctx.undec('R-COLTILE', 'tracerinfo', wb1, 'numeric column slices not found (%s)' % spans)
    elif gaps:
        badc = [c for a, b_, n_, c in numsl[1] if (a, b_) == gaps[0][1]][0]
        ctx.violation(Finding('R-COLTILE', B, 'bpch1.__init__', api.stmt_of(badc), 'the numeric fields are cut as %s: columns %d..%d belong to no field (a field that uses its full width loses its first character: '
                              "'1.0000E+09' is read as 0.0)" % (spans, gaps[0][0][1], gaps[0][1][0])))
    else:
        ctx.ok('R-COLTILE', 'tracerinfo', wb1, 'numeric fields %s are adjacent' % spans)
    # ---- R-REWINDCOPY: the side tables are copied from handles the reader has already read to the end: rewind before read()
    ctx.rule('R-REWINDCOPY', 'writer: a table handle taken from the input file object is rewound (seek(0)) before it is read for the copy next to the output')
    wfn = bm.func('ncf2bpch')
    wwf = 'src/PseudoNetCDF/%s ncf2bpch' % B
    nrd = 0
    for c in ast.walk(wfn):
        if not (isinstance(c, ast.Call) and isinstance(c.func, ast.Attribute) and c.func.attr == 'read' and not c.args):
            continue
        h = c.func.value
        base = h
        while isinstance(base, ast.Attribute):
            base = base.value
        fromfile = isinstance(base, ast.Name) and base.id in [a.arg for a in wfn.args.args]
        if isinstance(h, ast.Name):
            defs = [st for st in iter_stmts(wfn.body) if isinstance(st, ast.Assign) and isinstance(st.targets[0], ast.Name) and st.targets[0].id == h.id]
            fromfile = any(isinstance(n_, ast.Name) and n_.id in [a.arg for a in wfn.args.args] for st in defs for n_ in ast.walk(st.value))
        if not fromfile:
            continue
        nrd += 1
        ht = norm(h)
        order = list(iter_stmts(wfn.body))
        pos = order.index(api.stmt_of(c)) if api.stmt_of(c) in order else len(order)
        seeks = [st for st in order[:pos] if any(isinstance(x, ast.Call) and isinstance(x.func, ast.Attribute) and x.func.attr == 'seek' and norm(x.func.value) == ht
                                                  and x.args and isinstance(x.args[0], ast.Constant) and x.args[0].value == 0 for x in ast.walk(st))]
        if seeks:
            ctx.ok('R-REWINDCOPY', ht[:40], wwf, 'seek(0) before read()')
        else:
            ctx.violation(Finding('R-REWINDCOPY', B, 'ncf2bpch', api.stmt_of(c), '%s.read() without a rewind: the reader left the handle at the end of the table, so the copy written next to the output is empty and '
                                  'the output cannot be read back there' % ht), oid=ht[:40])
    ctx.floor('table handles read by ncf2bpch', nrd, 1)
    # ---- R-DIAGFILTER: which lines of diaginfo.dat are data (finite case analysis of the filter)
    from .. import consteval as _ce18
    ctx.rule('R-DIAGFILTER', 'first reader: lines of diaginfo.dat that do not start with # are data lines (offsets are right-aligned, so they start with blanks)')
    comps = [c for c in ast.walk(b1) if isinstance(c, ast.comprehension) and 'diaginfo.read()' in norm(c.iter)]
    if not comps or not comps[0].ifs:
        ctx.undec('R-DIAGFILTER', 'filter', wb1, 'diaginfo comprehension / filter not found')
    else:
        var = comps[0].target.id
        wrong = unk = None
        for line, want in (('# comment', False), ('#', False), ('       0 IJ-AVG-$                                 Tracer concentration', True), ('    1000 ANTHSRCE', True), ('10000000 BIGOFFSET', True)):
            v_ = _ce18.ev(comps[0].ifs[0], {var: line})
            if v_ is _ce18.UNK:
                unk = line
            elif bool(v_) != want:
                wrong = (line, bool(v_))
                break
        if wrong:
            ctx.violation(Finding('R-DIAGFILTER', B, 'bpch1.__init__', api.stmt_of(comps[0].ifs[0]), 'the diaginfo line %r is %s: category offsets are lost (every offset becomes 0), so tracers of categories with an offset '
                                  'get the scale and unit of another tracerinfo line' % (wrong[0][:24], 'kept' if wrong[1] else 'dropped')))
        elif unk:
            ctx.undec('R-DIAGFILTER', 'filter', wb1, 'filter outside the evaluated fragment')
        else:
            ctx.ok('R-DIAGFILTER', 'filter', wb1, norm(comps[0].ifs[0]))
    # ---- R-STARTAXIS: the window origin of an axis comes from the start index of that axis
    ctx.rule('R-STARTAXIS', 'second reader: add_lat reads STARTJ, add_lon reads STARTI (the window origin of the axis the coordinate belongs to)')
    for fname, want in (('add_lat', 'STARTJ'), ('add_lon', 'STARTI')):
        f_ = nm.functions.get(fname)
        wf_ = 'src/PseudoNetCDF/%s %s' % (NB, fname)
        if f_ is None:
            ctx.undec('R-STARTAXIS', fname, wf_, 'function not found')
            continue
        got = sorted(set(const_str(c.args[1]) for c in walk_expr(f_) if isinstance(c, ast.Call) and dotted(c.func) == 'getattr' and len(c.args) >= 2 and (const_str(c.args[1]) or '').startswith('START')) |
                     set(x.attr for x in ast.walk(f_) if isinstance(x, ast.Attribute) and x.attr.startswith('START')))
        if got == [want]:
            ctx.ok('R-STARTAXIS', fname, wf_, want)
        elif not got:
            ctx.undec('R-STARTAXIS', fname, wf_, 'no START* attribute read')
        else:
            bad_ = [c for c in walk_expr(f_) if isinstance(c, ast.Call) and dotted(c.func) == 'getattr' and len(c.args) >= 2 and const_str(c.args[1]) in got and const_str(c.args[1]) != want]
            ctx.violation(Finding('R-STARTAXIS', NB, fname, api.stmt_of(bad_[0]) if bad_ else f_.body[-1], '%s takes the window origin from %s instead of %s: for a nested grid whose I and J origins differ the '
                                  'coordinate values come from the wrong rows / columns of the global grid' % (fname, [g for g in got if g != want], want)))
    # ---- R-TAUKEY: the table of time blocks of a tracer is keyed by the (tau0, tau1) pair
    ctx.rule('R-TAUKEY', 'second reader: the time blocks of a tracer are keyed by (tau0, tau1) (two blocks may share a start and differ in their end)')
    b2 = nm.func('bpch2.__init__')
    wb2 = 'src/PseudoNetCDF/%s bpch2.__init__' % NB
    keyst = [st for st in iter_stmts(b2.body) if isinstance(st, ast.Assign) and isinstance(st.targets[0], ast.Subscript) and isinstance(st.targets[0].value, ast.Call)
             and isinstance(st.targets[0].value.func, ast.Attribute) and st.targets[0].value.func.attr == 'setdefault']
    if not keyst:
        ctx.undec('R-TAUKEY', 'outpos', wb2, 'store into the per-tracer table not found')
    for st in keyst:
        k_ = st.targets[0].slice
        names_ = [norm(e) for e in k_.elts] if isinstance(k_, ast.Tuple) else [norm(k_)]
        if any('tau0' in n_ for n_ in names_) and any('tau1' in n_ for n_ in names_):
            ctx.ok('R-TAUKEY', 'outpos', wb2, 'key %s' % norm(k_))
        else:
            ctx.violation(Finding('R-TAUKEY', NB, 'bpch2.__init__', st, 'the time blocks are keyed by %s only: a later block of the same tracer with the same start (a daily mean and the whole-period mean) replaces '
                                  'the earlier one, so the reader shows fewer time steps than the file holds' % norm(k_)))
    # ---- R-RESERVEDKEEP: the free-text RESERVED field is carried as it was read (the writer pads it on the right only)
    ctx.rule('R-RESERVEDKEEP', 'first reader: the RESERVED text of a block header is kept with its leading blanks (the writer re-pads on the right only)')
    ml = bm.func('_tracer_lookup.__missing__')
    wml = 'src/PseudoNetCDF/%s _tracer_lookup.__missing__' % B
    rsv = [st for st in iter_stmts(ml.body) if isinstance(st, ast.Assign) and isinstance(st.targets[0], ast.Name) and st.targets[0].id == 'reserved']
    if not rsv:
        ctx.undec('R-RESERVEDKEEP', 'reserved', wml, 'no assignment to `reserved`')
    for st in rsv:
        cut = [c for c in walk_expr(st.value) if isinstance(c, ast.Call) and isinstance(c.func, ast.Attribute) and c.func.attr in ('strip', 'lstrip', 'split', 'replace')]
        if cut:
            ctx.violation(Finding('R-RESERVEDKEEP', B, '_tracer_lookup.__missing__', st, 'the RESERVED text is edited on reading (.%s()): the writer pads it back with ljust(40), so a right-justified text is '
                                  'written left-justified and a read-write cycle does not reproduce the header bytes' % cut[0].func.attr))
        else:
            ctx.ok('R-RESERVEDKEEP', 'reserved', wml, norm(st)[:50])
    # ---- R-DIMPERBLOCK: the record type of a block is built from the dimensions in that block's own header
    ctx.rule('R-DIMPERBLOCK', 'first reader: every data record type is built from a `dim` that was taken from the current header in the same branch')
    b1 = bm.func('bpch1.__init__')
    ndp = 0
    for n_ in [x for x in ast.walk(b1) if isinstance(x, ast.Call) and dotted(x.func) == 'dtype' and x.args and 'dim' in [y.id for y in ast.walk(x.args[0]) if isinstance(y, ast.Name)]]:
        st = api.stmt_of(n_)
        blk = getattr(st, '_parent', None)
        body = None
        for f_ in ('body', 'orelse'):
            lst = getattr(blk, f_, None)
            if isinstance(lst, list) and st in lst:
                body = lst
        ndp += 1
        fresh = body is not None and any(isinstance(s2, ast.Assign) and any(isinstance(t, ast.Name) and t.id == 'dim' for t in s2.targets) and 'header' in norm(s2.value)
                                         for s2 in body[:body.index(st)])
        if fresh:
            ctx.ok('R-DIMPERBLOCK', 'dtype@%d' % ndp, wb1, 'dim assigned from the header in the same branch')
        else:
            ctx.violation(Finding('R-DIMPERBLOCK', B, 'bpch1.__init__', st, 'the record type uses `dim` without taking it from the current header first: it still holds the dimensions of the previous block, so a '
                                  'last tracer with another layer count is mapped with the wrong shape (or the size assertion fails on a valid file)'))
    ctx.floor('record types built from dim', ndp, 1)
    # ---- R-GROUPFIRST: inside a group a name means the variable of that group; the plain key is the fallback (shared coordinates)
    ctx.rule('R-GROUPFIRST', 'group view: a key is looked up as <group>_<key> first and under its plain name only when that fails')
    gv = [f_ for q_, f_ in bm.functions.items() if q_.endswith('getvar') and '_diag_group' in q_]
    wgv = 'src/PseudoNetCDF/%s _diag_group.__init__.getvar' % B
    if not gv:
        ctx.undec('R-GROUPFIRST', 'getvar', wgv, 'function not found')
    for f_ in gv[:1]:
        tries = [x for x in ast.walk(f_) if isinstance(x, ast.Try)]
        first = None
        if tries:
            rets = [x for x in ast.walk(ast.Module(body=tries[0].body, type_ignores=[])) if isinstance(x, ast.Return)]
            first = norm(rets[0].value) if rets else None
        else:
            rets = [x for x in ast.walk(f_) if isinstance(x, ast.Return)]
            first = norm(rets[0].value) if rets else None
        if first is None:
            ctx.undec('R-GROUPFIRST', 'getvar', wgv, 'lookup order not recognised')
        elif 'template' in first or '%' in first:
            ctx.ok('R-GROUPFIRST', 'getvar', wgv, 'first: %s' % first[:50])
        else:
            ctx.violation(Finding('R-GROUPFIRST', B, f_.name if hasattr(f_, 'name') else 'getvar', f_.body[0], 'the plain key is tried on the parent first (%s): with nogroup=[one category] the plain name belongs '
                                  'to that category, so another group that shares tracer names silently presents the wrong data, scale and tracer id' % first[:40]))
    # ---- shared pads + API
    c09.check_bpch_pads(ctx)
    nf = 0
    for mod, quals in ((bm, ('bpch1.__init__', '_tracer_lookup.__missing__', 'ncf2bpch', '_tracer_lookup.__init__')),
                       (nm, ('gcvar.__init__', 'gcvar.__getitem__', 'bpch2.__init__', 'bpch2._gettracerinfo', 'bpch2._getdiaginfo'))):
        for q in quals:
            if not mod.has_func(q):
                raise AnalysisError('anchor vanished: %s in %s' % (q, mod.relpath))
            fn = mod.func(q)
            nf += 1
            missn, rem = api.missing_numpy_names(mod, fn), api.removed_method_calls(mod, fn)
            for node, d in missn:
                ctx.violation(Finding('R-API', mod.relpath, q, api.stmt_of(node), '%s does not exist in the installed numpy: this path raises for every file' % d))
            for node, mth in rem:
                ctx.violation(Finding('R-API', mod.relpath, q, api.stmt_of(node), 'ndarray.%s was removed from numpy' % mth))
            if not missn and not rem:
                ctx.ok('R-API', q, 'src/PseudoNetCDF/%s %s' % (mod.relpath, q), 'numpy names resolve')
    # dtype strings built with str(tuple(...)) of numpy integers are not dtype strings on numpy >= 2 (scalar repr)
    for n_ in dts:
        arg = n_.args[0].right
        t = norm(arg)
        if 'tolist()' in t or 'int(' in t:
            ctx.ok('R-API', 'dtype string@%d' % n_.lineno, 'src/PseudoNetCDF/%s bpch1.__init__' % B, 'shape formatted from plain Python integers')
        else:
            ctx.violation(Finding('R-API', B, 'bpch1.__init__', api.stmt_of(n_), "the data dtype string is built from str(tuple(<numpy integers>)): with numpy >= 2 the scalars "
                                  "print as 'np.int32(3)' and the reader raises for every file"))
