"""C05 - isolation: queries never write inputs, results never alias inputs,
the native close is guarded.

R-QMUT   (E3/E4) in every non-mutator function no sink (in-place operator,
         subscript/attribute store, in-place method, out=, mutator-by-contract
         call) is reached with a value that must-alias receiver/argument storage.
R-ALIAS  a value stored as a variable (or the dimension table) of a result
         file is never VIEW/SAME of an input.
R-CLOSE  (typestate) the native netCDF close is only reached under an
         isopen() guard; __del__ reaches it only through such a method.
"""
import ast

from ..engine import AnalysisError, dotted, iter_stmts, norm, walk_expr, parent_chain, kw
from ..prov import Prov, is_input, is_maybe_input
from ..report import Finding

LEVEL_TEXT = (
    "Static alias/view dataflow (ast, path walker, provenance lattice FRESH/VIEW/SAME/UNKNOWN) over every "
    "method of PseudoNetCDFFile, netcdf, the variable classes, Pseudo2NetCDF and the functions of "
    "core/_functions.py: decides, for all inputs at once, that no query or transformation reaches a write "
    "sink with a value that must-alias receiver/argument storage, that no result variable is a view of an "
    "input, and (typestate) that the native close is guarded by isopen(). Aliasing created by user-supplied "
    "eval text and UNKNOWN-provenance sinks are listed as undecided, never alarmed.")

# frozen: mutators by contract (confirmed by reading; reason = the method's documented purpose is to modify self)
MUTATORS = set([
    'set_dest', 'set_varopt', 'setncatts', '__new__', '__init__', '__setattr__', '__delattr__', 'setCoords',
    'createDimension', 'copyDimension', 'copyVariable', 'createVariable', 'close', 'setncattr', 'delncattr',
    'sync', 'flush', '__del__', 'assignValue', '__array_finalize__', '_update_from', 'setunlimited',
    '__setitem__', '__setslice__', '__iadd__', '__isub__', '__imul__', '__itruediv__', '__idiv__',
    'updatemeta', 'updatetflag', 'getVarlist', '_add2Varlist', 'setncatts', '__missing__', 'addkey',
    'swapaxes',  # PseudoNetCDFVariable.swapaxes stores .dimensions on the *new* view it returns
    '_updatetime',  # ioapi_base: stamps CDATE/CTIME/WDATE/WTIME by contract
    'setdefvars', 'addtime', 'adddims', 'setgrid',  # griddesc constructor helpers: build self by contract
])
# functional forms whose contract is to modify the file they are given (DESIGN 4/C05)
FUNC_MUTATORS = {'mask_vals': 'masks f in place and returns f', 'mesh_dim': 'replaces variables of f in place',
                 'add_attr': 'sets/deletes an attribute of f', 'seqpncbo': 'consumes its list argument'}
FUNC_FILE_PARAMS = {
    'pncrename': ['ifile'], 'manglenames': ['f'], 'removesingleton': ['f'], 'getvarpnc': ['f'],
    'interpvars': ['f'], 'extract_from_file': ['f'], 'extract_lonlat': ['f'], 'slice_dim': ['f'],
    'reduce_dim': ['f'], 'pncfunc': ['ifile1'], 'pncbo': ['ifile1', 'ifile2'], 'pncbfunc': ['ifile1', 'ifile2'],
    'pncexpr': ['ifile'], 'convolve_dim': ['f'], 'merge': [], 'stack_files': [], 'splitdim': ['inf'],
}
QMUT_KINDS = ('store-sub', 'aug-name', 'aug-sub', 'del-sub', 'inplace-call', 'mutator-call', 'out-kw',
              'store-attr', 'del-attr', 'result-store', 'result-dims', 'result-vars')


FUNC_FILELIST_PARAMS = {'merge': ['fs'], 'stack_files': ['fs']}


def _qmut_scan(ctx, mod, q, fn, receiver, file_params, obj_params, mutator):
    p = Prov(mod, fn, receiver=receiver, file_params=file_params, obj_params=obj_params,
             filelist_params=FUNC_FILELIST_PARAMS.get(q, ()))
    events = p.run()
    ctx.count('functions analysed (R-QMUT/R-ALIAS)')
    ctx.count('call sites evaluated', p.calls)
    ctx.count('calls of unknown effect (treated as UNKNOWN)', p.unknown_calls)
    nsink = 0
    bad = []
    for ev in events:
        if ev.kind not in QMUT_KINDS:
            continue
        nsink += 1
        b = ev.base
        if b[0] == 'VIEW' and ev.kind in ('aug-name', 'aug-sub', 'store-sub') and is_maybe_input(b[1]) and not ev.guarded_inplace:
            # the array is a view of the input on at least one path through the function (the file variable is re-bound only on
            # another path, e.g. a loop that may run zero times): the element write hits the input on that path
            bad.append(ev)
            continue
        if b[0] == 'UNK' or not is_input(b[1]):
            continue
        if b[0] == 'ATTR':
            # attribute values: only a subscript store/augmented store into a public array attribute is certain
            if ev.kind not in ('store-sub', 'aug-sub'):
                continue
        if ev.guarded_inplace:
            continue
        if ev.kind in ('store-attr', 'del-attr') and (ev.extra or '_').startswith('_'):
            continue   # private bookkeeping attribute (e.g. cached handle), not file content
        if ev.kind == 'result-store' and b[1] != 'self' and not b[1].startswith('param:'):
            continue
        bad.append(ev)
    return p, events, nsink, bad


def check_qmut(ctx, relpath, classes=(), functions=None, receiver='self', file_params_of=None,
               obj_params_of=None):
    mod = ctx.src.mod(relpath)
    n = 0
    for q, fn in sorted(mod.functions.items()):
        if '<locals>' in q:
            continue
        parts = q.split('.')
        if len(parts) == 2:
            if parts[0] not in classes:
                continue
            name = parts[1]
            recv = receiver
            # classmethods / staticmethods: first parameter is not an instance
            decos = [dotted(d) for d in fn.decorator_list]
            if 'classmethod' in decos or 'staticmethod' in decos:
                recv = None
            elif fn.args.args:
                recv = fn.args.args[0].arg
        elif len(parts) == 1:
            if functions is None or q not in functions:
                continue
            name = q
            recv = None
        else:
            continue
        n += 1
        mutator = (name in MUTATORS) if len(parts) == 2 else (name in FUNC_MUTATORS)
        fparams = (file_params_of or {}).get(name, [])
        oparams = (obj_params_of or {}).get(name, [])
        p, events, nsink, bad = _qmut_scan(ctx, mod, q, fn, recv, fparams, oparams, mutator)
        where = 'src/PseudoNetCDF/%s %s' % (relpath, q)
        if mutator:
            ctx.ok('R-QMUT', q, where, 'mutator by contract: %d write sinks not judged' % nsink)
        else:
            if bad:
                for ev in bad:
                    ctx.violation(Finding(
                        'R-QMUT', relpath, q, ev.stmt,
                        '%s writes %s storage of %s (%s%s): a query/transformation must leave its inputs unchanged'
                        % (q, {'VIEW': 'a view of the', 'SAME': 'an object of the', 'VARS': 'the variable table of the',
                               'DIMS': 'the dimension table of the', 'FILE': 'the', 'ATTR': 'an attribute array of the'}[ev.base[0]],
                           ev.base[1], ev.kind, (' ' + ev.extra) if ev.extra else '')),
                        oid='%s:%s' % (q, norm(ev.stmt)[:70]))
            else:
                ctx.ok('R-QMUT', q, where, '%d write sinks examined, none must-aliases an input' % nsink)
        # undecided: sinks whose base is UNKNOWN are only counted
        ctx.count('write sinks with UNKNOWN provenance (undecided, not alarmed)',
                  sum(1 for ev in events if ev.kind in QMUT_KINDS and ev.base[0] == 'UNK'))
        # ---- closing a file that may be the caller's own object (opened-or-passed-through idiom)
        if not mutator:
            for ev in events:
                if ev.kind == 'mutator-call' and ev.extra == 'close' and ev.base[0] == 'FILE' and is_maybe_input(ev.base[1]):
                    ctx.violation(Finding('R-QMUT', relpath, q, ev.stmt, '%s closes a file that is the caller\'s own open object whenever an object rather than a path was passed in' % q), oid='%s:close-maybe' % q)
        # ---- a transformation that normally returns a new file never returns its receiver on some path (R-ALIAS: the result *is* the input)
        if not mutator:
            rets = [ev for ev in events if ev.kind == 'return' and ev.value is not None and ev.value[0] == 'FILE']
            news = [ev for ev in rets if ev.value[1] == 'new']
            selfs = [ev for ev in rets if ev.value[1] in ('self',) or (ev.value[1] or '').startswith('param:') and not (ev.value[1] or '').endswith('?')]
            for ev in selfs:
                if news and not ev.guarded_inplace and not any(isinstance(p_, ast.If) and 'inplace' in norm(p_.test) for p_ in parent_chain(ev.stmt)):
                    ctx.violation(Finding('R-ALIAS', relpath, q, ev.stmt, 'this path returns the %s itself while the other paths return a new file: what the caller does to the "result" (writes, close) '
                                          'then happens to the input' % ('receiver' if ev.value[1] == 'self' else 'argument ' + ev.value[1][6:])), oid='%s:return-self@%s' % (q, norm(ev.stmt)[:30]))
        # ---- R-ALIAS on the same walk ----
        for ev in events:
            if ev.kind in ('result-store', 'result-values') and ev.value is not None:
                tgt = ev.base
                val = ev.value
                if val[0] in ('VIEW', 'SAME') and is_maybe_input(val[1]) and tgt[0] in ('VARS', 'FILE') \
                        and tgt[1] == 'new':
                    ctx.violation(Finding(
                        'R-ALIAS', relpath, q, ev.stmt,
                        'on the path where the value is still taken from the argument (%s) without a copy, a %s of its '
                        'storage is stored as a variable of the result file: writing into the result changes the input'
                        % (val[1][:-1], {'VIEW': 'view', 'SAME': 'variable object'}[val[0]])),
                        oid='%s:%s' % (q, norm(ev.stmt)[:70]))
                    continue
                if val[0] in ('VIEW', 'SAME') and is_input(val[1]):
                    if tgt[0] in ('VARS', 'FILE', 'UNK') and tgt[1] != val[1]:
                        if tgt[0] == 'UNK' and ev.kind == 'result-values':
                            # PseudoNetCDFVariable(None/unknown parent, ..., values=E): stand-alone view
                            continue
                        ctx.violation(Finding(
                            'R-ALIAS', relpath, q, ev.stmt,
                            'a %s of %s is stored as a variable of the result file (%s): writing into the '
                            'result changes the input' % ({'VIEW': 'view of the storage', 'SAME': 'variable object'}[val[0]],
                                                          val[1], ev.kind)),
                            oid='%s:%s' % (q, norm(ev.stmt)[:70]))
                        continue
                if ev.kind in ('result-store', 'result-values') and tgt[0] in ('VARS', 'FILE') and tgt[1] == 'new':
                    if val[0] == 'UNK':
                        ctx.undec('R-ALIAS', '%s:%s' % (q, norm(ev.stmt)[:70]), where,
                                  'stored value has UNKNOWN provenance (e.g. eval/exec text, reshape)')
                    else:
                        ctx.ok('R-ALIAS', '%s:%s' % (q, norm(ev.stmt)[:70]), where, 'stored value is %s' % val[0])
            if ev.kind == 'store-sub' and ev.base[0] == 'DIMS' and ev.value is not None and ev.value[0] == 'SAME' and is_input(ev.value[1]) \
                    and ev.base[1] != ev.value[1]:
                ctx.violation(Finding(
                    'R-ALIAS', relpath, q, ev.stmt,
                    'a dimension object of %s is stored in the dimension table of %s: on the path where that is a new file the two files share the '
                    'object, and setunlimited on the result changes the input' % (ev.value[1], ev.base[1] or 'the result')),
                    oid='%s:%s' % (q, norm(ev.stmt)[:70]))
            if ev.kind == 'result-dims' and ev.value is not None:
                if ev.base[1] == 'new' and ev.value[0] in ('DIMSCOPY', 'DIMS') and is_input(ev.value[1]):
                    ctx.violation(Finding(
                        'R-ALIAS', relpath, q, ev.stmt,
                        'the result shares the dimension objects of %s (%s): setunlimited on the result changes the input'
                        % (ev.value[1], 'shallow dict copy' if ev.value[0] == 'DIMSCOPY' else 'same dict')))
    return n


def check_close(ctx):
    """R-CLOSE: typestate of the native handle."""
    rp = 'core/_files.py'
    mod = ctx.src.mod(rp)
    c = mod.cls('netcdf')
    native = []   # (method, call node, guarded?)
    for st in c.body:
        if not isinstance(st, ast.FunctionDef):
            continue
        for call in [n for n in walk_expr(st) if isinstance(n, ast.Call)]:
            d = dotted(call.func)
            if d in ('NetCDFFile.close', 'Dataset.close') or \
                    (isinstance(call.func, ast.Attribute) and call.func.attr == 'close'
                     and isinstance(call.func.value, ast.Call) and dotted(call.func.value.func) == 'super'):
                native.append((st, call))
    if not native:
        raise AnalysisError('anchor vanished: native close call in class netcdf')
    guarded_methods = set()
    for meth, call in native:
        ok = _dominated_by_isopen(meth, call)
        q = 'netcdf.' + meth.name
        if ok:
            guarded_methods.add(meth.name)
            ctx.ok('R-CLOSE', q, 'src/PseudoNetCDF/%s %s' % (rp, q), 'native close dominated by an isopen() test')
        else:
            stmt = call
            for p in parent_chain(call):
                if isinstance(p, ast.stmt):
                    stmt = p
                    break
            ctx.violation(Finding('R-CLOSE', rp, q, stmt,
                                  'the native close is reached without an isopen() guard: a second close (or the '
                                  'finaliser) closes a recycled id that may belong to another open file'))
    # __del__ may reach native close only through guarded methods
    for st in c.body:
        if isinstance(st, ast.FunctionDef) and st.name == '__del__':
            for call in [n for n in walk_expr(st) if isinstance(n, ast.Call)]:
                d = dotted(call.func)
                if d and d.startswith('self.'):
                    m = d.split('.', 1)[1]
                    if m in [x[0].name for x in native] and m not in guarded_methods:
                        pass  # already reported at the method
                    elif m in guarded_methods or m == 'isopen':
                        ctx.ok('R-CLOSE', 'netcdf.__del__->%s' % m, 'src/PseudoNetCDF/%s netcdf.__del__' % rp,
                               'finaliser closes through the guarded method')
    ctx.count('native close call sites', len(native))


def check_close_local(ctx, rule='R-CLOSELOCAL'):
    """closing is local: close / the finaliser / the context-manager exit of a file object closes only what the object opened itself.
    An attribute that was bound from a constructor argument as it is (the file the object wraps or derives from) belongs to the caller:
    closing it invalidates the caller's still-open file."""
    ctx.rule(rule, 'close / __del__ / __exit__ of a class never close an object that was handed to the constructor (only what the class opened)')
    n = 0
    for mod in ctx.src.all_modules():
        for cname, c in mod.classes.items():
            if '.' in cname:
                continue
            meths = dict((st.name, st) for st in c.body if isinstance(st, ast.FunctionDef))
            closers = [meths[k] for k in ('close', '__del__', '__exit__') if k in meths]
            if not closers:
                continue
            # attributes of self that hold a constructor argument as it is
            foreign = {}
            for mname in ('__init__', '__new__'):
                fn = meths.get(mname)
                if fn is None:
                    continue
                params = set(a.arg for a in fn.args.args[1:] + fn.args.kwonlyargs)
                star = set(x.arg for x in (fn.args.vararg, fn.args.kwarg) if x is not None)
                local = {}
                for st in iter_stmts(fn.body):
                    if not isinstance(st, ast.Assign) or len(st.targets) != 1:
                        continue
                    v = st.value
                    is_arg = (isinstance(v, ast.Name) and (v.id in params or local.get(v.id))) or \
                        (isinstance(v, ast.Subscript) and isinstance(v.value, ast.Name) and v.value.id in star) or \
                        (isinstance(v, ast.Call) and isinstance(v.func, ast.Attribute) and v.func.attr in ('get', 'pop') and isinstance(v.func.value, ast.Name)
                         and v.func.value.id in star)
                    t = st.targets[0]
                    if isinstance(t, ast.Name):
                        local[t.id] = bool(is_arg)
                    elif isinstance(t, ast.Attribute) and isinstance(t.value, ast.Name) and t.value.id == fn.args.args[0].arg:
                        if is_arg:
                            foreign[t.attr] = st
                        else:
                            foreign.pop(t.attr, None)
            for fn in closers:
                n += 1
                q = '%s.%s' % (cname, fn.name)
                recv = fn.args.args[0].arg if fn.args.args else 'self'
                bad = None
                for call in walk_expr(fn):
                    if isinstance(call, ast.Call) and isinstance(call.func, ast.Attribute) and call.func.attr in ('close', '__exit__', '__del__'):
                        b = call.func.value
                        if isinstance(b, ast.Attribute) and isinstance(b.value, ast.Name) and b.value.id == recv and b.attr in foreign:
                            bad = (call, b.attr)
                where = 'src/PseudoNetCDF/%s %s' % (mod.relpath, q)
                if bad:
                    ctx.violation(Finding(rule, mod.relpath, q, bad[0], '%s closes %s.%s, the object that was handed to the constructor (%s): closing the derived object invalidates '
                                          "the caller's still-open file" % (fn.name, recv, bad[1], norm(foreign[bad[1]])[:50])))
                else:
                    ctx.ok(rule, q, where, 'closes nothing that was handed to the constructor (%d such attributes)' % len(foreign))
    ctx.floor('close / finaliser methods examined', n, 4)


def check_values_views(ctx, rule='R-ALIAS'):
    """functional forms of core/_functions.py: a variable of the result is created from `values=<expr>`; the variable class only takes a
    view of what it is given, so <expr> must not be a chain of view operations (subscript, reshape, swapaxes, T, view, ravel) on a
    variable of the input file"""
    m = ctx.src.mod('core/_functions.py')
    VIEWISH = ('reshape', 'swapaxes', 'view', 'ravel', 'squeeze', 'transpose')
    n = 0
    for q in ('splitdim',):
        fn = m.functions.get(q)
        if fn is None:
            continue
        fparam = fn.args.args[0].arg if fn.args.args else 'inf'
        invars = set()
        for st in ast.walk(fn):
            if isinstance(st, ast.For) and ('%s.variables' % fparam) in norm(st.iter) and isinstance(st.target, ast.Tuple) and len(st.target.elts) == 2 and isinstance(st.target.elts[1], ast.Name):
                invars.add(st.target.elts[1].id)
        for c in walk_expr(fn):
            if isinstance(c, ast.Call) and isinstance(c.func, ast.Attribute) and c.func.attr == 'createVariable' and kw(c, 'values') is not None:
                n += 1
                e = kw(c, 'values')
                fresh = False
                while True:
                    if isinstance(e, ast.Subscript):
                        e = e.value
                    elif isinstance(e, ast.Attribute) and e.attr == 'T':
                        e = e.value
                    elif isinstance(e, ast.Call) and isinstance(e.func, ast.Attribute) and e.func.attr in VIEWISH:
                        e = e.func.value
                    else:
                        break
                if isinstance(e, ast.Name) and e.id in invars:
                    ctx.violation(Finding(rule, 'core/_functions.py', q, api_stmt(c), 'the result variable is created with values=%s, a chain of view operations on a variable of the input: the variable class '
                                          'takes a view of its values, so data and mask of the result are those of the input and a later write to one changes the other' % norm(kw(c, 'values'))[:50]))
                else:
                    ctx.ok(rule, '%s:values' % q, 'src/PseudoNetCDF/core/_functions.py %s' % q, 'values= is not a view chain on an input variable')
    return n


def api_stmt(n):
    from .. import api
    return api.stmt_of(n)


def _dominated_by_isopen(meth, call):
    """path-wise (paths.py): on every path of the method that reaches the native close, the last decision taken before it on
    self.isopen() (directly or through a local that holds its result) was 'open'; the spelling - enclosing if, early return for
    the closed case, a flag - is immaterial"""
    from .. import paths as _paths
    key = (getattr(call, 'lineno', None), getattr(call, 'col_offset', None))
    reached = 0
    for pth in _paths.function_paths(meth):
        res = _paths.expand(pth)
        if not res.feasible:
            continue
        for k_, (st, new) in enumerate(res.stmts):
            if not any(isinstance(n, ast.Call) and (getattr(n, 'lineno', None), getattr(n, 'col_offset', None)) == key and norm(n.func) == norm(call.func) for n in ast.walk(st)):
                continue
            reached += 1
            isopen = None
            for e_, x, p_ in res.conds[:res.ncond_at[k_]]:
                if norm(x) in ('self.isopen()', 'self._isopen'):
                    isopen = p_
            if isopen is not True:
                return False
    return reached > 0


def _flatten(body):
    return list(iter_stmts(body))


def run(ctx):
    ctx.rule('R-QMUT', 'no non-mutator function writes storage that must-alias its receiver/arguments')
    ctx.rule('R-ALIAS', 'no variable/dimension table of a result file is a view of (or the same object as) an input')
    ctx.rule('R-CLOSE', 'native netCDF close only under an isopen() guard (typestate)')
    n = 0
    n += check_qmut(ctx, 'core/_files.py', classes=('PseudoNetCDFFile', 'netcdf'),
                    file_params_of={'stack': []}, obj_params_of={'copyVariable': ['var'], 'copyDimension': ['dim']})
    n += check_qmut(ctx, 'core/_variables.py',
                    classes=('PseudoNetCDFVariable', 'PseudoNetCDFMaskedVariable'))
    n += check_qmut(ctx, 'pncgen.py', classes=('Pseudo2NetCDF',),
                    file_params_of=dict((m, ['pfile']) for m in (
                        'convert', 'addDimensions', 'addDimension', 'addGlobalProperties', 'addVariable',
                        'addVariableData', 'addVariables')),
                    obj_params_of={'addVariableProperties': ['pvar']})
    n += check_qmut(ctx, 'core/_functions.py', functions=set(FUNC_FILE_PARAMS) | set(FUNC_MUTATORS),
                    file_params_of=FUNC_FILE_PARAMS)
    n += check_qmut(ctx, 'cmaqfiles/_ioapi.py', classes=('ioapi_base', 'ioapi'), obj_params_of={'copyVariable': ['var']})
    n += check_qmut(ctx, 'cmaqfiles/_griddesc.py', classes=('griddesc',))
    n += check_qmut(ctx, 'core/_wrapnc.py', classes=('WrapPNC',))
    ctx.floor('functions under R-QMUT', n, 150)
    check_close(ctx)
    check_close_local(ctx)
    check_values_views(ctx)
    ctx.assumptions += [
        'numpy view/copy fact table in pncstatic/prov.py (basic indexing, .T, .view, swapaxes, asarray are views; '
        'arithmetic, copy, astype, advanced indexing, concatenate are fresh)',
        'netCDF4.Dataset.close() is not idempotent and the C library recycles ids; Dataset.isopen() reports the state',
        'values that flow through eval/exec, getattr with computed names, reshape/ravel are UNKNOWN and never alarmed',
    ]


QUERY_NAMES = set(['getTimes', 'll2ij', 'ij2ll', 'xy2ll', 'll2xy', 'getMap', 'getproj', 'val2idx', 'time2idx', 'time2t', 'date2num',
                   '__repr__', '__str__', 'dump', 'ncattrs', 'getncatts', 'getncattr', 'getCoords', 'plot', 'audit_meta', 'isMine',
                   'get_dest', 'get_varopt', 'iswritable', 'getVarlist_readonly', 'timerange', 'keys', 'items', 'values', 'getArray'])


def run_thorough(ctx, seed=0):
    """whole package: every override of a query in any class that derives from PseudoNetCDFFile, and pncdump"""
    src = ctx.src
    n = 0
    for mod in src.all_modules():
        for cname, c in mod.classes.items():
            if '.' in cname:
                continue
            try:
                mro = src.mro(mod.relpath, cname)
            except Exception:
                continue
            if ('core/_files.py', 'PseudoNetCDFFile') not in mro or (mod.relpath, cname) in (('core/_files.py', 'PseudoNetCDFFile'), ('core/_files.py', 'netcdf')):
                continue
            for st in c.body:
                if isinstance(st, ast.FunctionDef) and st.name in QUERY_NAMES:
                    q = '%s.%s' % (cname, st.name)
                    decos = [dotted(d) for d in st.decorator_list]
                    recv = None if ('classmethod' in decos or 'staticmethod' in decos) else (st.args.args[0].arg if st.args.args else None)
                    p, events, nsink, bad = _qmut_scan(ctx, mod, q, st, recv, [], [], False)
                    n += 1
                    where = 'src/PseudoNetCDF/%s %s' % (mod.relpath, q)
                    if bad:
                        for ev in bad:
                            ctx.violation(Finding('R-QMUT', mod.relpath, q, ev.stmt, 'query override %s writes %s storage of %s (%s)' % (
                                q, ev.base[0], ev.base[1], ev.kind)), oid='%s:%s' % (q, norm(ev.stmt)[:60]))
                    else:
                        ctx.ok('R-QMUT', '%s:%s' % (mod.relpath, q), where, 'query override: %d write sinks, none on receiver storage' % nsink)
    m = src.mod('pncdump.py')
    for q, fn in sorted(m.functions.items()):
        if '<locals>' in q or '.' in q:
            continue
        params = [a.arg for a in fn.args.args]
        fp = [x for x in params if x in ('f', 'ifile', 'pfile')]
        p, events, nsink, bad = _qmut_scan(ctx, m, q, fn, None, fp, [], False)
        n += 1
        if bad:
            for ev in bad:
                ctx.violation(Finding('R-QMUT', 'pncdump.py', q, ev.stmt, 'dump writes %s storage of %s (%s)' % (ev.base[0], ev.base[1], ev.kind)))
        else:
            ctx.ok('R-QMUT', 'pncdump.py:%s' % q, 'src/PseudoNetCDF/pncdump.py %s' % q, '%d write sinks, none on the dumped file' % nsink)
    ctx.count('query overrides analysed package-wide (thorough)', n)
    ctx.floor('package-wide query overrides', n, 20)
