"""C10 - IOAPI metadata stays coherent under every operation.

R-SYNC       every public file-returning operation, resolved for receiver class ioapi_base along the MRO,
             returns its result in typestate SYNCED (updatemeta() after the last structural change).
R-COPYCON    the contract that lets ioapi_base.copy end with updatetflag() only.
R-FOURCOUNT  updatemeta's closure reconciles each of the four encodings of the variable count
             (VAR-LIST, NVARS, VAR dimension, TFLAG second axis) under a test of that same encoding.
R-COUNTATTR  updatemeta sets NLAYS/NCOLS/NROWS from the dimension lengths and marks TSTEP unlimited.
R-VARLISTWIDTH every decode of the fixed-width VAR-LIST attribute cuts 16-character fields.
"""
import ast
import re

from ..engine import AnalysisError, dotted, iter_stmts, norm, walk_expr, const_str, kw
from ..flow import Walker
from ..prov import Prov
from ..report import Finding
from ..sizealg import Poly

LEVEL_TEXT = (
    "Static override resolution (C3 MRO over the parsed classes) plus a DIRTY/SYNCED typestate walk of every "
    "IOAPI override: decides that each public operation returning a file from an ioapi_base receiver passes through "
    "updatemeta() after its last structural change on every path (parameter-dependent branches evaluated at their "
    "defaults or at the literal arguments of internal calls), that updatemeta reconciles all four encodings of the "
    "variable count, and reports operations that still resolve to the IOAPI-unaware base definition. Whether "
    "updatemeta computes the right numbers for every input (e.g. SDATE after a time reduction) is not decided.")

IO = 'cmaqfiles/_ioapi.py'
CORE = 'core/_files.py'
COUNT_ATTRS = set(['NVARS', 'NLAYS', 'NROWS', 'NCOLS', 'VAR-LIST'])
DIRTY_METHODS = set(['copyVariable', 'createVariable', 'copyDimension', 'createDimension', '_add2Varlist'])
# operations inherited from the base class for which no incoherent IOAPI-convention result could be shown
# (probed against the real code, DESIGN 4/C10): frozen, one line of reason each
BASE_OK = {
    'renameDimension': 'renaming a standard dimension leaves the IOAPI convention (out of domain); renaming any other dimension touches no count',
    'renameDimensions': 'same as renameDimension',
    'reorderDimensions': 'raises (assertion) on files with the standard dimension order; out of domain otherwise',
    'removeSingleton': 'removing a standard dimension leaves the convention; other singletons touch no count',
    'interpDimension': '1-D branch delegates to self.applyAlongDimensions (verified override); N-D branch needs coordinate variables no IOAPI file has',
    'getMap': 'not a file', 'plot': 'not a file',
}


class Sync(object):
    """typestate walk of one ioapi_base method"""

    def __init__(self, src, clsname, fn, bindings, summaries, depth=0):
        self.src = src
        self.clsname = clsname
        self.fn = fn
        self.summaries = summaries
        self.depth = depth
        a = fn.args
        pos = a.posonlyargs + a.args
        self.params = [x.arg for x in pos] + [x.arg for x in a.kwonlyargs]
        self.consts = {}
        for arg, d in zip(pos[len(pos) - len(a.defaults):], a.defaults):
            if isinstance(d, ast.Constant):
                self.consts[arg.arg] = d.value
        for arg, d in zip(a.kwonlyargs, a.kw_defaults):
            if isinstance(d, ast.Constant):
                self.consts[arg.arg] = d.value
        self.consts.update(bindings or {})
        self.returns = []
        self.unresolved = []

    def evalc(self, t):
        """boolean value of a test over parameters with known constants, else None"""
        if isinstance(t, ast.Name) and t.id in self.consts and t.id in self.params:
            return bool(self.consts[t.id])
        if isinstance(t, ast.Constant):
            return bool(t.value)
        if isinstance(t, ast.UnaryOp) and isinstance(t.op, ast.Not):
            v = self.evalc(t.operand)
            return None if v is None else (not v)
        if isinstance(t, ast.BoolOp):
            vals = [self.evalc(x) for x in t.values]
            if isinstance(t.op, ast.And):
                if any(v is False for v in vals):
                    return False
                return True if all(v is True for v in vals) else None
            if any(v is True for v in vals):
                return True
            return False if all(v is False for v in vals) else None
        return None

    def cond(self, test, st):
        v = self.evalc(test)
        if v is True:
            return st, None
        if v is False:
            return None, st
        return st, st

    def call_state(self, c, st):
        """state of the file returned by call c, or None if it does not return a tracked file"""
        d = dotted(c.func) or ''
        parts = d.split('.')
        if len(parts) == 2 and parts[0] == 'PseudoNetCDFFile':
            if parts[1] in ('createVariable', 'copyVariable', 'copyDimension', 'createDimension'):
                return None
            return 'DIRTY'      # explicit base-class call: no IOAPI knowledge
        if len(parts) == 2 and parts[0] in ('self', 'cls'):
            op = parts[1]
            r = self.src.class_attr(IO, self.clsname, op)
            if r is None:
                return None
            rp, cn, node = r
            if not isinstance(node, ast.FunctionDef):
                return None
            if rp == CORE and cn == 'PseudoNetCDFFile':
                if op in ('from_ncvs', 'from_ncf', '_copywith', '_newlike', 'copy', 'sliceDimensions', 'applyAlongDimensions',
                          'subsetVariables', 'eval', 'mask', 'stack'):
                    return 'DIRTY'
                return None
            if rp == IO:
                lit = {}
                for k in c.keywords:
                    if k.arg and isinstance(k.value, ast.Constant):
                        lit[k.arg] = k.value.value
                key = (cn, op, tuple(sorted(lit.items())))
                if key not in self.summaries:
                    if self.depth > 4:
                        return 'DIRTY'
                    self.summaries[key] = 'DIRTY'   # recursion guard
                    s = Sync(self.src, self.clsname, node, lit, self.summaries, self.depth + 1)
                    s.run()
                    rets = [x[1] for x in s.returns]
                    self.summaries[key] = 'SYNCED' if rets and all(x == 'SYNCED' for x in rets) else 'DIRTY'
                return self.summaries[key]
        if len(parts) == 2 and parts[1] in ('copy',) and st.get(parts[0]) in ('DIRTY', 'SYNCED'):
            return 'DIRTY'
        return None

    def transfer(self, s, st):
        if isinstance(s, ast.Assign) and isinstance(s.value, ast.Call):
            v = self.call_state(s.value, st)
            st = self.effects(s.value, st)
            if v is not None:
                st = dict(st)
                for t in s.targets:
                    if isinstance(t, ast.Name):
                        st[t.id] = v
                return st
        if isinstance(s, ast.Assign):
            for t in s.targets:
                st = self.store(t, st)
            for c in [n for n in walk_expr(s.value) if isinstance(n, ast.Call)]:
                st = self.effects(c, st)
            return st
        if isinstance(s, ast.AugAssign):
            return self.store(s.target, st)
        if isinstance(s, ast.Delete):
            for t in s.targets:
                if isinstance(t, ast.Subscript) and isinstance(t.value, ast.Attribute) and t.value.attr in ('variables', 'dimensions') \
                        and isinstance(t.value.value, ast.Name) and t.value.value.id in st:
                    st = dict(st)
                    st[t.value.value.id] = 'DIRTY'
            return st
        if isinstance(s, ast.Expr):
            for c in [n for n in walk_expr(s.value) if isinstance(n, ast.Call)]:
                st = self.effects(c, st)
            return st
        if isinstance(s, ast.Return):
            if isinstance(s.value, ast.Name) and s.value.id in st:
                self.returns.append((s, st[s.value.id]))
            elif isinstance(s.value, ast.Call):
                v = self.call_state(s.value, st)
                if v is not None:
                    self.returns.append((s, v))
            return st
        return st

    def store(self, t, st):
        if isinstance(t, ast.Subscript) and isinstance(t.value, ast.Attribute) and t.value.attr in ('variables', 'dimensions') \
                and isinstance(t.value.value, ast.Name) and t.value.value.id in st:
            st = dict(st)
            st[t.value.value.id] = 'DIRTY'
        if isinstance(t, ast.Attribute) and isinstance(t.value, ast.Name) and t.value.id in st and t.attr in COUNT_ATTRS:
            st = dict(st)
            st[t.value.id] = 'DIRTY'
        return st

    def effects(self, c, st):
        d = dotted(c.func) or ''
        parts = d.split('.')
        if len(parts) == 2 and parts[0] in st:
            x, m = parts
            if m == 'updatemeta':
                st = dict(st)
                st[x] = 'SYNCED'
            elif m == 'updatetflag' and self.fn.name == 'copy':
                st = dict(st)
                st[x] = 'SYNCED'      # frozen contract, obligations checked by R-COPYCON
            elif m in DIRTY_METHODS:
                st = dict(st)
                st[x] = 'DIRTY'
        if len(parts) == 2 and parts[0] == 'PseudoNetCDFFile' and parts[1] in DIRTY_METHODS and c.args \
                and isinstance(c.args[0], ast.Name) and c.args[0].id in st:
            st = dict(st)
            st[c.args[0].id] = 'DIRTY'
        if d == 'setattr' and c.args and isinstance(c.args[0], ast.Name) and c.args[0].id in st \
                and len(c.args) > 1 and const_str(c.args[1]) in COUNT_ATTRS:
            st = dict(st)
            st[c.args[0].id] = 'DIRTY'
        return st

    def run(self, init=None):
        def vjoin(a, b):
            if a == b:
                return a
            if a is None or b is None:
                return a or b
            return 'DIRTY'
        w = Walker(self.transfer, vjoin, cond=self.cond)
        out = w.run(self.fn.body, init or {})
        self.exit_state = out
        return self


def _is_varlist_read(e):
    return isinstance(e, ast.Call) and (dotted(e.func) or '') == 'getattr' and len(e.args) >= 2 and const_str(e.args[1]) == 'VAR-LIST'


def _len_mod16(test, name):
    """does test compare len(<name>) % 16 with 0?  returns '==' / '!=' / None"""
    for n in ast.walk(test):
        if isinstance(n, ast.Compare) and len(n.ops) == 1 and isinstance(n.left, ast.BinOp) and isinstance(n.left.op, ast.Mod) \
                and isinstance(n.left.right, ast.Constant) and n.left.right.value == 16 \
                and isinstance(n.left.left, ast.Call) and (dotted(n.left.left.func) or '') == 'len' and n.left.left.args \
                and norm(n.left.left.args[0]) == name and isinstance(n.comparators[0], ast.Constant) and n.comparators[0].value == 0:
            return '==' if isinstance(n.ops[0], ast.Eq) else ('!=' if isinstance(n.ops[0], ast.NotEq) else None)
    return None


def check_varlist_width(ctx, rule='R-VARLISTWIDTH'):
    """VAR-LIST is a fixed-width encoding: 16 characters per name, no separator.  A name of exactly 16 characters (legal in the
    convention) touches its neighbour, so a decoder that splits the attribute at white space reads two names as one and every count
    derived from the decoded list (NVARS, the VAR dimension, the second axis of TFLAG) disagrees with the list.  Every decode of the
    attribute in the IOAPI modules must therefore cut it in 16-character fields; splitting at white space is accepted only as the
    fallback for a string whose length is not a multiple of 16 (what getVarlist does)."""
    ctx.rule(rule, 'every decode of VAR-LIST cuts 16-character fields; white-space splitting only for a length that is not a multiple of 16')
    n = 0
    for rp in (IO, 'conventions/ioapi/_ioapi.py'):
        m = ctx.src.mod(rp)
        params = {}
        for q, fn in sorted(m.functions.items()):
            bound = set(st.targets[0].id for st in iter_stmts(fn.body) if isinstance(st, ast.Assign) and len(st.targets) == 1
                        and isinstance(st.targets[0], ast.Name) and _is_varlist_read(st.value))
            for c in walk_expr(fn):
                if isinstance(c, ast.Call) and isinstance(c.func, ast.Name) and c.func.id in m.functions:
                    callee = m.functions[c.func.id]
                    for i, a in enumerate(c.args):
                        if (_is_varlist_read(a) or (isinstance(a, ast.Name) and a.id in bound)) and i < len(callee.args.args):
                            params.setdefault(c.func.id, {})[callee.args.args[i].arg] = c
        for q, fn in sorted(m.functions.items()):
            # names bound to the attribute value, and parameters that receive it from a call in this module
            names = dict(params.get(q, {}))
            for st in iter_stmts(fn.body):
                if isinstance(st, ast.Assign) and len(st.targets) == 1 and isinstance(st.targets[0], ast.Name) and _is_varlist_read(st.value):
                    names[st.targets[0].id] = st
            for c in walk_expr(fn):
                if not (isinstance(c, ast.Call) and isinstance(c.func, ast.Attribute) and c.func.attr == 'split' and not c.args):
                    continue
                recv = c.func.value
                if _is_varlist_read(recv):
                    nm = None
                elif isinstance(recv, ast.Name) and recv.id in names:
                    nm = recv.id
                else:
                    continue
                if getattr(c, '_fn', fn) is not fn:
                    continue
                n += 1
                from .. import api as _api
                st = _api.stmt_of(c)
                where = 'src/PseudoNetCDF/%s %s' % (rp, q)
                oid = '%s:%s' % (q, norm(st)[:40])
                guarded = False
                rtext = norm(recv)
                child, p = c, getattr(c, '_parent', None)
                while p is not None and p is not fn:
                    if isinstance(p, ast.If) and child is not p.test:
                        op = _len_mod16(p.test, rtext)
                        inbody = any(child is b for b in p.body)
                        if (op == '==' and not inbody) or (op == '!=' and inbody):
                            guarded = True
                    if isinstance(p, ast.IfExp) and child is not p.test:
                        op = _len_mod16(p.test, rtext)
                        if (op == '==' and child is p.orelse) or (op == '!=' and child is p.body):
                            guarded = True
                    child, p = p, getattr(p, '_parent', None)
                edited = None
                if guarded and nm is not None:
                    for st2 in iter_stmts(fn.body):
                        if st2.lineno >= st.lineno:
                            continue
                        if isinstance(st2, (ast.Assign, ast.AugAssign)) and any(isinstance(t, ast.Name) and t.id == nm for t in
                                                                               (st2.targets if isinstance(st2, ast.Assign) else [st2.target])) \
                                and any(isinstance(x, ast.Call) and isinstance(x.func, ast.Attribute) and x.func.attr in ('strip', 'rstrip', 'lstrip', 'replace')
                                        for x in walk_expr(st2.value)):
                            edited = st2
                if edited is not None:
                    ctx.violation(Finding(rule, rp, q, edited,
                                          'the length tested for a multiple of 16 is that of an edited copy of VAR-LIST (%s): a list whose last field is padded is then '
                                          'split at white space, and a 16-character name is glued to its neighbour' % norm(edited)[:60]), oid=oid)
                elif guarded:
                    ctx.ok(rule, oid, where, 'white-space split only when the length is not a multiple of 16')
                else:
                    ctx.violation(Finding(rule, rp, q, st,
                                          'VAR-LIST is decoded by splitting at white space: a 16-character variable name touches the next field, the two are '
                                          'read as one name, and NVARS / VAR / TFLAG no longer agree with the list (cut the attribute in 16-character fields)'),
                                  oid=oid)
    ctx.floor('VAR-LIST decode sites judged by R-VARLISTWIDTH', n, 1)


def check_tflag_unlisted(ctx, rule='R-TFLAGUNLISTED'):
    """VAR-LIST names the data variables; TFLAG / ETFLAG are never part of it (NVARS counts the list, the VAR dimension and the second
    axis of TFLAG count the data variables).  The one function that appends names to the attribute either drops the two names itself,
    or every call of it is made under a test that excludes them."""
    ctx.rule(rule, 'names appended to VAR-LIST never include TFLAG / ETFLAG (excluded by the appending function or at every call of it)')
    m = ctx.src.mod(IO)
    n = 0
    appenders = []
    for q, fn in sorted(m.functions.items()):
        stores = [st for st in iter_stmts(fn.body) if isinstance(st, ast.Expr) and isinstance(st.value, ast.Call) and (dotted(st.value.func) or '') == 'setattr'
                  and len(st.value.args) == 3 and const_str(st.value.args[1]) == 'VAR-LIST' and not isinstance(st.value.args[2], ast.Constant)]
        grows = [st for st in iter_stmts(fn.body) if isinstance(st, ast.AugAssign) and isinstance(st.op, ast.Add)
                 and any(isinstance(x, ast.Call) and isinstance(x.func, ast.Attribute) and x.func.attr == 'ljust' for x in walk_expr(st.value))]
        if stores and grows:
            appenders.append((q, fn, grows[0]))
    if not appenders:
        raise AnalysisError('no function appends names to VAR-LIST any more (anchor for %s)' % rule)

    def excludes(node):
        return any(isinstance(x, ast.Constant) and x.value == 'TFLAG' for x in ast.walk(node))
    for q, fn, grow in appenders:
        where = 'src/PseudoNetCDF/%s %s' % (IO, q)
        n += 1
        if any(excludes(st) for st in iter_stmts(fn.body) if not isinstance(st, (ast.If, ast.For, ast.While, ast.With, ast.Try))) or \
                any(excludes(st.test) for st in iter_stmts(fn.body) if isinstance(st, (ast.If, ast.While))):
            ctx.ok(rule, q, where, 'the appending function drops TFLAG / ETFLAG from the new names')
            continue
        short = q.split('.')[-1]
        for cq, cfn in sorted(m.functions.items()):
            for c in walk_expr(cfn):
                if not (isinstance(c, ast.Call) and isinstance(c.func, ast.Attribute) and c.func.attr == short) or getattr(c, '_fn', cfn) is not cfn:
                    continue
                n += 1
                guarded = any(excludes(a) for a in c.args)
                child, p_ = c, getattr(c, '_parent', None)
                while p_ is not None and p_ is not cfn:
                    if isinstance(p_, (ast.If, ast.IfExp)) and child is not p_.test and excludes(p_.test):
                        guarded = True
                    child, p_ = p_, getattr(p_, '_parent', None)
                # names bound from a filtered construction
                for a in c.args:
                    if isinstance(a, ast.Name):
                        for st in iter_stmts(cfn.body):
                            if isinstance(st, ast.Assign) and any(isinstance(t, ast.Name) and t.id == a.id for t in st.targets) and excludes(st.value):
                                guarded = True
                cw = 'src/PseudoNetCDF/%s %s' % (IO, cq)
                if guarded:
                    ctx.ok(rule, '%s:%s' % (cq, norm(c)[:40]), cw, 'called under a test / with a list that excludes TFLAG')
                else:
                    ctx.violation(Finding(rule, IO, cq, c, '%s appends every name it is given, and this call does not exclude TFLAG / ETFLAG: copying or evaluating a time flag lists '
                                          'it in VAR-LIST and counts it in NVARS while the VAR dimension and TFLAG keep the number of data variables' % short))
    ctx.floor('VAR-LIST appending sites', n, 1)


def check_flag_per_time(ctx, rule='R-FLAGPERTIME'):
    """every time flag is encoded from its own time: in a comprehension over the decoded times an element never adds a part taken
    from the first time (a year hoisted out of the loop stamps the steps after 31 December with the old year)"""
    ctx.rule(rule, 'time flags are encoded per time: no element of a comprehension over the times mixes in a part computed from times[0]')
    n = 0
    for rp in (IO, 'conventions/ioapi/_ioapi.py'):
        m = ctx.src.mod(rp)
        for q, fn in sorted(m.functions.items()):
            first = {}
            for st in iter_stmts(fn.body):
                if isinstance(st, ast.Assign) and len(st.targets) == 1 and isinstance(st.targets[0], ast.Name) and re.search(r"\b\w*times?\[0\]", norm(st.value)) \
                        and 'strftime' in norm(st.value):
                    first[st.targets[0].id] = st
            for comp in (x for st in iter_stmts(fn.body) for x in walk_expr(st) if isinstance(x, (ast.ListComp, ast.GeneratorExp))):
                g = comp.generators[0]
                if not (isinstance(g.target, ast.Name) and 'time' in norm(g.iter).lower() and 'strftime' in norm(comp.elt)):
                    continue
                n += 1
                mixed = [x.id for x in ast.walk(comp.elt) if isinstance(x, ast.Name) and x.id in first]
                where = 'src/PseudoNetCDF/%s %s' % (rp, q)
                if mixed:
                    from .. import api as _api2
                    ctx.violation(Finding(rule, rp, q, _api2.stmt_of(comp), 'each element combines a part of its own time with %s, which was computed from the first time (%s): for a series that '
                                          'crosses 31 December the later flags carry the old year' % (mixed[0], norm(first[mixed[0]])[:50])))
                else:
                    ctx.ok(rule, '%s:%s' % (q, norm(comp)[:40]), where, 'element built from the loop variable only')
    ctx.floor('comprehensions that encode time flags', n, 4)


def check_sortmeta_count(ctx, rule='R-COUNTATTR'):
    """ioapi_sort_meta: NVARS counts the names of VAR-LIST (the list decoded from the attribute), not every variable of the file"""
    fn = ctx.src.mod(IO).functions.get('ioapi_sort_meta')
    where = 'src/PseudoNetCDF/%s ioapi_sort_meta' % IO
    if fn is None:
        return
    listed = set()
    for st in iter_stmts(fn.body):
        if isinstance(st, ast.Assign) and len(st.targets) == 1 and isinstance(st.targets[0], ast.Name) and 'VAR-LIST' in norm(st.value):
            listed.add(st.targets[0].id)
    for st in iter_stmts(fn.body):
        if isinstance(st, ast.Assign) and any(isinstance(t, ast.Attribute) and t.attr == 'NVARS' for t in st.targets):
            v = st.value
            if isinstance(v, ast.Call) and dotted(v.func) == 'len' and v.args and isinstance(v.args[0], ast.Name):
                if v.args[0].id in listed:
                    ctx.ok(rule, 'ioapi_sort_meta:NVARS', where, 'NVARS = len(%s), the names decoded from VAR-LIST' % v.args[0].id)
                else:
                    ctx.violation(Finding(rule, IO, 'ioapi_sort_meta', st, 'NVARS is the length of %s, not of the list decoded from VAR-LIST (%s): with a variable that is not listed (a 2-D mask) NVARS and the '
                                          'rebuilt VAR dimension exceed the number of names in VAR-LIST and the second axis of TFLAG' % (v.args[0].id, sorted(listed))))
            else:
                ctx.undec(rule, 'ioapi_sort_meta:NVARS', where, 'NVARS is not len(<name>)')


def check_cf_start(ctx, rule='R-STARTSET'):
    """add_ioapi_from_cf: SDATE / STIME are the date and time of the first record - the element [0] of the arrays that fill the two
    TFLAG columns - not independent extremes of the two columns"""
    rp = 'conventions/ioapi/_ioapi.py'
    fn = ctx.src.mod(rp).functions.get('add_ioapi_from_cf')
    where = 'src/PseudoNetCDF/%s add_ioapi_from_cf' % rp
    if fn is None:
        return
    cols = {}
    for st in iter_stmts(fn.body):
        if isinstance(st, ast.Assign) and isinstance(st.targets[0], ast.Subscript) and isinstance(st.targets[0].slice, ast.Tuple) and len(st.targets[0].slice.elts) == 3 \
                and isinstance(st.targets[0].slice.elts[2], ast.Constant) and 'tflag' in norm(st.targets[0].value).lower():
            names = [x.id for x in ast.walk(st.value) if isinstance(x, ast.Name)]
            if names:
                cols[st.targets[0].slice.elts[2].value] = names[0]
    for attr, col in (('SDATE', 0), ('STIME', 1)):
        for st in iter_stmts(fn.body):
            if isinstance(st, ast.Expr) and isinstance(st.value, ast.Call) and dotted(st.value.func) == 'setattr' and len(st.value.args) == 3 and const_str(st.value.args[1]) == attr:
                v = st.value.args[2]
                want = cols.get(col)
                if want is None:
                    ctx.undec(rule, 'add_ioapi_from_cf:' + attr, where, 'TFLAG column %d source not found' % col)
                elif isinstance(v, ast.Subscript) and norm(v.value) == want and isinstance(v.slice, ast.Constant) and v.slice.value == 0:
                    ctx.ok(rule, 'add_ioapi_from_cf:' + attr, where, '%s = %s[0], the array that fills TFLAG[:, :, %d]' % (attr, want, col))
                else:
                    ctx.violation(Finding(rule, rp, 'add_ioapi_from_cf', st, '%s is %s, not the first element of %s (which fills TFLAG[:, :, %d]): date and time of day are then taken from '
                                          'different records, and %s differs from the first time flag of a series that does not start at its smallest %s' % (
                                              attr, norm(v)[:40], want, col, attr, 'time of day' if col else 'date')))


def check_start_sync(ctx, rule='R-STARTSYNC'):
    """updatetflag, overwrite branch: TFLAG is rebuilt from getTimes(); for a time-independent file (SDATE 0 or -635) the times are
    the 1970001 placeholder, so SDATE/STIME equal the first time flag only if they are stored from the rebuilt variable afterwards"""
    ctx.rule(rule, 'updatetflag: when TFLAG is rebuilt, SDATE and STIME are stored from its first row after the data stores')
    io = ctx.src.mod(IO)
    fn = io.func('ioapi_base.updatetflag')
    where = 'src/PseudoNetCDF/%s ioapi_base.updatetflag' % IO
    branch = None
    for st in fn.body:
        if isinstance(st, ast.If) and any(isinstance(c, ast.Call) and isinstance(c.func, ast.Attribute) and c.func.attr == 'createVariable' and c.args and const_str(c.args[0]) == 'TFLAG'
                                          for s2 in st.body for c in ast.walk(s2)):
            branch = st
    if branch is None:
        raise AnalysisError('construct not understood: branch of updatetflag that re-creates TFLAG')
    tname = None
    for s2 in branch.body:
        if isinstance(s2, ast.Assign) and isinstance(s2.targets[0], ast.Name) and isinstance(s2.value, ast.Call) and isinstance(s2.value.func, ast.Attribute) \
                and s2.value.func.attr == 'createVariable' and s2.value.args and const_str(s2.value.args[0]) == 'TFLAG':
            tname = s2.targets[0].id
    if tname is None:
        ctx.undec(rule, 'updatetflag', where, 'the re-created TFLAG is not held in a local name')
        return
    datastores = [s2.lineno for s2 in branch.body if isinstance(s2, ast.Assign) and isinstance(s2.targets[0], ast.Subscript) and norm(s2.targets[0].value) == tname]
    for attr, col in (('SDATE', 0), ('STIME', 1)):
        stores = [s2 for s2 in branch.body if isinstance(s2, ast.Assign) and any(norm(t) == 'self.' + attr for t in s2.targets)]
        good = [s2 for s2 in stores if any(isinstance(x, ast.Subscript) and norm(x.value) == tname and isinstance(x.slice, ast.Tuple) and len(x.slice.elts) == 3
                                           and isinstance(x.slice.elts[0], ast.Constant) and x.slice.elts[0].value == 0
                                           and isinstance(x.slice.elts[2], ast.Constant) and x.slice.elts[2].value == col for x in ast.walk(s2.value))
                and (not datastores or s2.lineno > max(datastores))]
        if good and stores[-1] is good[-1]:
            ctx.ok(rule, attr, where, norm(good[-1]))
        else:
            ctx.violation(Finding(rule, IO, 'ioapi_base.updatetflag', stores[-1] if stores else branch.body[-1],
                                  'after TFLAG is rebuilt %s is not stored from its first row (%s[0, 0, %d]): for a time-independent file (SDATE 0 / -635) the rebuilt flags are the '
                                  '1970001 placeholder while %s keeps the old value, so the start attributes no longer equal the first time flag' % (attr, tname, col, attr)), oid=attr)


def check_time_reduce(ctx, rule='R-TIMEREDUCE'):
    """applyAlongDimensions on an IOAPI file: the base method reduces every variable that has the dimension - TFLAG included, whose
    YYYYDDD / HHMMSS codes are not numbers (the mean of 0 and 10000 is 5000 = 00:50, the sum of two dates is no date).  When TSTEP is
    among the processed dimensions the wrapper therefore needs a TSTEP handler of its own: the start date and time are stored from
    times computed from the source's decoded times, and the arithmetically reduced TFLAG is discarded or overwritten."""
    from . import c11
    ctx.rule(rule, 'ioapi_base.applyAlongDimensions: when TSTEP is processed, SDATE/STIME are stored from decoded times and the reduced TFLAG is replaced')
    io = ctx.src.mod(IO)
    q = 'ioapi_base.applyAlongDimensions'
    fn = io.func(q)
    where = 'src/PseudoNetCDF/%s %s' % (IO, q)
    facts = c11.Facts(fn, obj='outf')
    def consistent(p_):
        # the same membership test decided both ways on one path: not a path of the program (kwds is not re-bound in between)
        seen = {}
        for e_, x, pol in p_[1].conds:
            if c11.sel_of(x) is not None:
                if seen.setdefault(norm(x), pol) != pol:
                    return False
        return True
    tpaths = [(i, p_) for i, p_ in enumerate(facts.paths) if p_[2].get('TSTEP') is True and consistent(p_)]
    if not tpaths:
        ctx.violation(Finding(rule, IO, q, fn.body[-1], 'the wrapper has no branch for a processed TSTEP dimension: the base method reduces TFLAG arithmetically (mean of 0 and 10000 = 5000, i.e. 00:50) '
                              'and SDATE / STIME keep the values of the source, so the start attributes no longer equal the first time flag'))
        return
    for attr in ('SDATE', 'STIME'):
        stored = dict((f['path'], f) for f in facts.of(attr) if f['before_update'])
        missing = [i for i, p_ in tpaths if i not in stored]
        if missing:
            ctx.violation(Finding(rule, IO, q, fn.body[-1], '%s is not stored (before updatemeta) on every path that processes TSTEP' % attr), oid=attr)
            continue
        src_ok = all('getTimes' in norm(stored[i]['value']) and 'strftime' in norm(stored[i]['value']) for i, p_ in tpaths)
        if src_ok:
            ctx.ok(rule, attr, where, 'formatted from times derived from self.getTimes() on %d paths' % len(tpaths))
        else:
            ctx.undec(rule, attr, where, 'stored on every TSTEP path, source not recognised: %s' % norm(stored[tpaths[0][0]]['value'])[:60])
    # the reduced TFLAG does not survive: deleted before updatemeta (which rebuilds it) or overwritten afterwards
    ok_t = True
    for i, (pth, res, sel, truthy) in tpaths:
        dele = any(isinstance(st, ast.Delete) and any("variables['TFLAG']" in norm(t) for t in st.targets) for st in pth.stmts)
        over = any(isinstance(new, ast.Assign) and isinstance(new.targets[0], ast.Subscript) and "variables['TFLAG']" in norm(new.targets[0]) for st, new in res.stmts)
        if not (dele or over):
            ok_t = False
    if ok_t:
        ctx.ok(rule, 'TFLAG', where, 'the arithmetically reduced TFLAG is deleted / overwritten on every TSTEP path')
    else:
        ctx.violation(Finding(rule, IO, q, fn.body[-1], 'on a path that processes TSTEP the TFLAG variable reduced by the base method is kept: its date and time codes were averaged / summed as numbers'), oid='TFLAG')


def check_dim_reset(ctx, rule='R-DIMRESET'):
    """griddesc.adddims creates LAY and, depending on FTYPE, either ROW and COL or PERIM.  It is called again by setgrid() after the
    file type or the grid changed: a horizontal dimension that the branch taken now does not create must not survive from the earlier
    call, so every dimension some branch creates is deleted first (or re-created on every branch)"""
    ctx.rule(rule, 'griddesc.adddims: every spatial dimension that only some FTYPE branch creates is deleted before the branches')
    rp = 'cmaqfiles/_griddesc.py'
    m = ctx.src.mod(rp)
    fn = m.func('griddesc.adddims')
    where = 'src/PseudoNetCDF/%s griddesc.adddims' % rp

    def created(stmts):
        return set(const_str(c.args[0]) for s2 in stmts for c in ast.walk(s2) if isinstance(c, ast.Call) and isinstance(c.func, ast.Attribute) and c.func.attr == 'createDimension'
                   and c.args and const_str(c.args[0]))
    sw = [st for st in fn.body if isinstance(st, ast.If) and 'FTYPE' in norm(st.test)]
    if not sw:
        ctx.undec(rule, 'adddims', where, 'no FTYPE branch found')
        return
    branches, cur = [], sw[0]
    while True:
        branches.append(created(cur.body))
        if len(cur.orelse) == 1 and isinstance(cur.orelse[0], ast.If):
            cur = cur.orelse[0]
            continue
        if cur.orelse and not isinstance(cur.orelse[-1], ast.Raise):
            branches.append(created(cur.orelse))
        break
    some = set().union(*branches)
    everyb = set.intersection(*branches) if branches else set()
    need = some - everyb
    deleted = set()
    loops = dict()
    for st in iter_stmts(fn.body):
        if st.lineno >= sw[0].lineno:
            break
        if isinstance(st, ast.For) and isinstance(st.target, ast.Name):
            it = st.iter
            names = None
            if isinstance(it, ast.Call) and isinstance(it.func, ast.Attribute) and it.func.attr == 'split' and const_str(it.func.value) is not None and not it.args:
                names = const_str(it.func.value).split()
            elif isinstance(it, (ast.Tuple, ast.List)) and all(const_str(e) is not None for e in it.elts):
                names = [const_str(e) for e in it.elts]
            if names:
                loops[st.target.id] = names
        if isinstance(st, ast.Delete):
            for t in st.targets:
                if isinstance(t, ast.Subscript) and norm(t.value) == 'self.dimensions':
                    if const_str(t.slice) is not None:
                        deleted.add(const_str(t.slice))
                    elif isinstance(t.slice, ast.Name) and t.slice.id in loops:
                        deleted |= set(loops[t.slice.id])
    if need <= deleted:
        ctx.ok(rule, 'adddims', where, 'dimensions %s are created only on some FTYPE branch and all are deleted first (%s)' % (sorted(need), sorted(deleted)))
    else:
        ctx.violation(Finding(rule, rp, 'griddesc.adddims', sw[0],
                              'dimensions %s are created only on some FTYPE branch and are not deleted before the branches: after setgrid() with another file type or grid the '
                              'dimension of the earlier layout survives with its old length while NROWS / NCOLS describe the new grid' % sorted(need - deleted)))


def file_returning_ops(src):
    """public methods of PseudoNetCDFFile that return a (possibly new) file object"""
    m = src.mod(CORE)
    out = []
    for q, fn in sorted(m.functions.items()):
        parts = q.split('.')
        if len(parts) != 2 or parts[0] != 'PseudoNetCDFFile':
            continue
        name = parts[1]
        if name.startswith('_') and not name.startswith('__'):
            continue
        if name in ('__new__', '__init__', '__repr__', '__setattr__', '__delattr__'):
            continue
        decos = [dotted(d) for d in fn.decorator_list]
        if 'classmethod' in decos or 'staticmethod' in decos:
            continue
        p = Prov(m, fn, receiver=fn.args.args[0].arg if fn.args.args else None)
        isfile = False
        for ev in p.run():
            if ev.kind == 'return' and ev.value is not None and ev.value[0] == 'FILE' and ev.value[1] != 'self':
                isfile = True
        if isfile:
            out.append(name)
    # class-level aliases
    c = m.cls('PseudoNetCDFFile')
    aliases = {}
    for st in c.body:
        if isinstance(st, ast.Assign) and isinstance(st.value, ast.Name) and isinstance(st.targets[0], ast.Name):
            if st.value.id in out:
                aliases[st.targets[0].id] = st.value.id
    return out, aliases


def run(ctx):
    src = ctx.src
    for r, d in (('R-SYNC', 'public file-returning operation on an ioapi_base receiver returns SYNCED (updatemeta after the last structural change)'),
                 ('R-COPYCON', 'contract of ioapi_base.copy: base copy without variables, every non-TFLAG variable copied, TFLAG rebuilt'),
                 ('R-FOURCOUNT', 'updatemeta reconciles VAR-LIST, NVARS, VAR dimension and TFLAG width, each under a test of itself'),
                 ('R-COUNTATTR', 'updatemeta sets NLAYS/NCOLS/NROWS from dimension lengths; TSTEP unlimited')):
        ctx.rule(r, d)
    io = src.mod(IO)
    ops, aliases = file_returning_ops(src)
    ctx.count('file-returning operations of PseudoNetCDFFile', len(ops))
    ctx.floor('file-returning operations', len(ops), 25)
    summaries = {}
    operators = [o for o in ops if o.startswith('__')]
    named = [o for o in ops if not o.startswith('__')]
    for op in named + sorted(aliases):
        r = src.class_attr(IO, 'ioapi_base', op)
        if r is None:
            raise AnalysisError('cannot resolve %s on ioapi_base' % op)
        rp, cn, node = r
        target = node.name if isinstance(node, ast.FunctionDef) else op
        where = 'src/PseudoNetCDF/%s %s.%s' % (rp, cn, target)
        if op in aliases:
            # the alias must be re-bound in the IOAPI class, otherwise ioapi_base.slice is the *base* sliceDimensions
            if rp == CORE:
                ctx.violation(Finding('R-SYNC', IO, 'ioapi_base', 'alias %s' % op,
                                      'alias %s is not re-bound in ioapi_base: it resolves to PseudoNetCDFFile.%s, which has no '
                                      'IOAPI knowledge' % (op, target), lineno=io.cls('ioapi_base').lineno), oid='alias:' + op)
            else:
                ctx.ok('R-SYNC', 'alias:' + op, where, 'alias re-bound to the IOAPI override %s' % target)
            continue
        if rp == CORE and cn == 'PseudoNetCDFFile':
            # the base body may delegate to an operation that ioapi_base overrides (dynamic dispatch on self)
            sb = Sync(src, 'ioapi_base', node, None, summaries).run()
            if sb.returns and all(x[1] == 'SYNCED' for x in sb.returns):
                ctx.ok('R-SYNC', op, where, 'base definition, but every return delegates to a verified IOAPI override')
                continue
            if op in BASE_OK:
                ctx.undec('R-SYNC', op, where, 'inherits the base definition; not reported: ' + BASE_OK[op])
            else:
                ctx.violation(Finding('R-SYNC', CORE, 'PseudoNetCDFFile.' + op, 'def %s (resolved for receiver ioapi_base)' % op,
                                      'ioapi_base does not override %s: the base definition changes variables/dimensions and '
                                      'returns without updatemeta(), so VAR-LIST/NVARS/VAR/TFLAG or the N*S counts of the '
                                      'returned IOAPI file are stale' % op, lineno=node.lineno), oid=op)
            continue
        s = Sync(src, 'ioapi_base', node, None, summaries).run()
        if not s.returns:
            raise AnalysisError('construct not understood: %s.%s returns no tracked file' % (cn, target))
        bad = [x for x in s.returns if x[1] != 'SYNCED']
        if bad:
            for st, state in bad:
                ctx.violation(Finding('R-SYNC', rp, '%s.%s' % (cn, target), st,
                                      'the returned file is DIRTY on a path to this return: a structural change (base-class '
                                      'call, variable/dimension store, count attribute) is not followed by updatemeta()'), oid=op)
        else:
            ctx.ok('R-SYNC', op, where, '%d return(s), all SYNCED' % len(s.returns))
    # ---- operators: coherent by construction through pncbo
    fu = src.mod('core/_functions.py')
    pncbo = fu.func('pncbo')
    first = pncbo.body[1] if isinstance(pncbo.body[0], ast.Expr) else pncbo.body[0]
    okstart = isinstance(first, ast.Assign) and isinstance(first.value, ast.Call) and norm(first.value.func) == 'ifile1.copy'
    if okstart:
        for k in ('props', 'dimensions'):
            v = kw(first.value, k)
            okstart = okstart and isinstance(v, ast.Constant) and v.value is True
    loop = [st for st in pncbo.body if isinstance(st, ast.For)]
    okloop = False
    if loop:
        lp = loop[0]
        okloop = norm(lp.iter) in ('ifile1.variables.keys()', 'ifile1.variables') and isinstance(lp.target, ast.Name)
        key = lp.target.id if okloop else None
        # every path through the body stores key
        def stores_key(stmts):
            for st in stmts:
                if isinstance(st, ast.If):
                    if st.orelse and stores_key(st.body) and stores_key(st.orelse):
                        return True
                    continue
                for c in walk_expr(st):
                    if isinstance(c, ast.Call) and isinstance(c.func, ast.Attribute) and c.func.attr in ('copyVariable', 'createVariable'):
                        k = kw(c, 'key') or (c.args[0] if c.func.attr == 'createVariable' and c.args else None)
                        if isinstance(k, ast.Name) and k.id == key:
                            return True
            return False
        okloop = okloop and stores_key(lp.body)
    where = 'src/PseudoNetCDF/core/_functions.py pncbo'
    if okstart and okloop:
        for op in operators:
            ctx.ok('R-SYNC', op, where, 'via pncbo: result = copy(props, dimensions) of the SYNCED left operand; every path stores key k')
    else:
        ctx.violation(Finding('R-SYNC', 'core/_functions.py', 'pncbo', first,
                              'operators on IOAPI files are coherent only if the result starts from a props+dimensions copy of the '
                              'left operand and every variable key is stored on every path'))
    # ---- constructors
    fa = io.func('ioapi_base.from_arrays')
    s = Sync(src, 'ioapi_base', fa, None, summaries).run()
    bad = [x for x in s.returns if x[1] != 'SYNCED']
    if not s.returns:
        raise AnalysisError('construct not understood: ioapi_base.from_arrays')
    if bad:
        ctx.violation(Finding('R-SYNC', IO, 'ioapi_base.from_arrays', bad[0][0], 'from_arrays returns without updatemeta()'))
    else:
        ctx.ok('R-SYNC', 'from_arrays', 'src/PseudoNetCDF/%s ioapi_base.from_arrays' % IO, 'from_ncvs (DIRTY) -> updatemeta -> return')
    gm = src.mod('cmaqfiles/_griddesc.py')
    gi = gm.func('griddesc.__init__')
    s = Sync(src, 'ioapi_base', gi, None, summaries)
    s.run(init={'self': 'DIRTY'})
    if s.exit_state is None or s.exit_state.get('self') != 'SYNCED':
        ctx.violation(Finding('R-SYNC', 'cmaqfiles/_griddesc.py', 'griddesc.__init__', gi.body[-1],
                              'the constructor does not end SYNCED: a structural change follows the last updatemeta()'))
    else:
        ctx.ok('R-SYNC', 'griddesc.__init__', 'src/PseudoNetCDF/cmaqfiles/_griddesc.py griddesc.__init__', 'ends after updatemeta()')
    # ---- R-COPYCON
    cp = io.func('ioapi_base.copy')
    where = 'src/PseudoNetCDF/%s ioapi_base.copy' % IO
    basecall = [c for c in walk_expr(cp) if isinstance(c, ast.Call) and dotted(c.func) == 'PseudoNetCDFFile.copy']
    ok1 = bool(basecall) and isinstance(kw(basecall[0], 'variables'), ast.Constant) and kw(basecall[0], 'variables').value is False
    # path-wise (paths.py): inside the variable loop a variable is copied exactly on the paths taken for names other than TFLAG;
    # every path of the function taken for props and dimensions ends after updatetflag()
    from .. import paths as _paths
    loops = [st for st in iter_stmts(cp.body) if isinstance(st, ast.For) and norm(st.iter) in ('self.variables.items()', 'self.variables', 'self.variables.keys()')]
    ok2 = False
    if loops:
        lp = loops[0]
        kname = lp.target.elts[0].id if isinstance(lp.target, ast.Tuple) else (lp.target.id if isinstance(lp.target, ast.Name) else None)
        tests = ("%s.endswith('TFLAG')" % kname, "%s == 'TFLAG'" % kname)
        ncopy, bad = 0, False
        for pth in _paths.enumerate_paths(lp.body):
            if pth.exit[0] == 'raise':
                continue
            copies = [c for c, st in pth.calls(attr='copyVariable')]
            istf = [pth.polarity(t) for t in tests if pth.polarity(t) is not None]
            if copies:
                ncopy += 1
                if not istf or istf[-1] is not False:
                    bad = True          # TFLAG copied too (stale width)
            elif istf and istf[-1] is False:
                bad = True              # a non-TFLAG variable is skipped
        ok2 = ncopy > 0 and not bad
    ok3, last = False, None
    nboth = 0
    for pth in _paths.function_paths(cp):
        if pth.exit[0] == 'raise' or not (pth.polarity('props') is True and pth.polarity('dimensions') is True):
            continue
        nboth += 1
        if not pth.calls(attr='updatetflag'):
            last = pth.stmts[-1] if pth.stmts else None
            nboth = -10000
    ok3 = nboth > 0
    for ok, oid, msg, node in (
            (ok1, 'base copy without variables', 'the base copy must be called with variables=False so that TFLAG is not copied with stale width', basecall[0] if basecall else cp),
            (ok2, 'non-TFLAG variables copied', 'every variable except TFLAG must be copied (TFLAG skipped so that updatetflag() rebuilds it); otherwise a structure-only copy keeps an all-zero TFLAG while SDATE/STIME hold the real start', loops[0] if loops else cp),
            (ok3, 'TFLAG rebuilt', 'copy must end with updatetflag() under props and dimensions', last if last is not None else cp)):
        if ok:
            ctx.ok('R-COPYCON', oid, where, 'holds')
        else:
            ctx.violation(Finding('R-COPYCON', IO, 'ioapi_base.copy', node, msg), oid=oid)
    # ---- R-FOURCOUNT
    gv = io.func('ioapi_base.getVarlist')
    ut = io.func('ioapi_base.updatetflag')
    um = io.func('ioapi_base.updatemeta')
    where = 'src/PseudoNetCDF/%s' % IO

    def guarded_by(fn, stmt_pred, test_pred):
        for st in iter_stmts(fn.body):
            if stmt_pred(st):
                p = getattr(st, '_parent', None)
                while p is not None and p is not fn:
                    if isinstance(p, ast.If) and test_pred(norm(p.test)):
                        return st, p
                    p = getattr(p, '_parent', None)
                return st, None
        return None, None
    checks = [
        ('VAR-LIST', gv, lambda s: isinstance(s, ast.Expr) and norm(s).startswith("setattr(self, 'VAR-LIST'"),
         lambda t: 'varliststr_new != varliststr_old' in t or 'varliststr_old != varliststr_new' in t),
        ('NVARS', gv, lambda s: isinstance(s, ast.Assign) and norm(s).startswith('self.NVARS = len(varlist)'),
         lambda t: 'len(varlist) != self.NVARS' in t or 'self.NVARS != len(varlist)' in t),
        ('VAR dimension', gv, lambda s: isinstance(s, ast.Expr) and norm(s).startswith("self.createDimension('VAR'"),
         lambda t: "len(self.dimensions['VAR'])" in t and '!=' in t),
    ]
    for name, fn, sp, tp in checks:
        st, g = guarded_by(fn, sp, tp)
        w = '%s ioapi_base.%s' % (where, fn.name)
        if st is None:
            ctx.violation(Finding('R-FOURCOUNT', IO, 'ioapi_base.' + fn.name, 'reconcile %s' % name,
                                  'no statement reconciles the %s encoding of the variable count' % name, lineno=fn.lineno), oid=name)
        elif g is None:
            from ..engine import parent_chain as _pc
            onesided = [p_ for p_ in _pc(st) if isinstance(p_, ast.If) and isinstance(p_.test, ast.Compare) and isinstance(p_.test.ops[0], (ast.Gt, ast.Lt, ast.GtE, ast.LtE))
                        and ("len(self.dimensions['VAR'])" in norm(p_.test) or 'NVARS' in norm(p_.test) or 'varlist' in norm(p_.test))]
            if onesided:
                ctx.violation(Finding('R-FOURCOUNT', IO, 'ioapi_base.' + fn.name, onesided[0], 'the %s encoding is reconciled only when `%s`: a count that changes in the other direction (a pruned VAR-LIST) leaves it stale' % (
                    name, norm(onesided[0].test))), oid=name)
            else:
                ctx.undec('R-FOURCOUNT', name, w, 'reconciling statement found but its guard is not recognised')
        else:
            ctx.ok('R-FOURCOUNT', name, w, '%s under %s' % (norm(st)[:50], norm(g.test)[:60]))
    # TFLAG width: the default of 'overwrite' in updatetflag
    ov = None
    for st in iter_stmts(ut.body):
        if isinstance(st, ast.Assign) and isinstance(st.targets[0], ast.Name) and st.targets[0].id == 'overwrite':
            ov = st
    w = '%s ioapi_base.updatetflag' % where
    if ov is None:
        raise AnalysisError('anchor vanished: default of overwrite in ioapi_base.updatetflag')
    t = norm(ov.value)
    if ("self.variables['TFLAG'].shape[1] != self.NVARS" in t or "self.NVARS != self.variables['TFLAG'].shape[1]" in t) \
            and "'TFLAG' not in self.variables" in t:
        ctx.ok('R-FOURCOUNT', 'TFLAG width', w, t[:100])
    elif t == 'True':
        ctx.ok('R-FOURCOUNT', 'TFLAG width', w, 'always rebuilt')
    else:
        ctx.violation(Finding('R-FOURCOUNT', IO, 'ioapi_base.updatetflag', ov,
                              "TFLAG is rebuilt only when '%s': the test must look at the TFLAG variable's own second axis "
                              "(self.variables['TFLAG'].shape[1] != self.NVARS); getVarlist has already resized the VAR dimension, "
                              "so a stale TFLAG width would never be repaired" % t[:80]), oid='TFLAG width')
    # updatemeta calls both, in order getVarlist -> updatetflag
    calls = [dotted(c.func) for st in um.body for c in walk_expr(st) if isinstance(c, ast.Call) and dotted(c.func)]
    if 'self.getVarlist' in calls and 'self.updatetflag' in calls and calls.index('self.getVarlist') < calls.index('self.updatetflag'):
        ctx.ok('R-FOURCOUNT', 'updatemeta order', '%s ioapi_base.updatemeta' % where, 'getVarlist(update=True) then updatetflag()')
        gvc = [c for st in um.body for c in walk_expr(st) if isinstance(c, ast.Call) and dotted(c.func) == 'self.getVarlist'][0]
        u = kw(gvc, 'update')
        if u is not None and isinstance(u, ast.Constant) and u.value is False:
            ctx.violation(Finding('R-FOURCOUNT', IO, 'ioapi_base.updatemeta', gvc, 'updatemeta calls getVarlist(update=False)'))
    else:
        ctx.violation(Finding('R-FOURCOUNT', IO, 'ioapi_base.updatemeta', um.body[-1],
                              'updatemeta must call getVarlist(update=True) and then updatetflag()'), oid='updatemeta order')
    # ---- level edges: NLAYS + 1 entries after a layer window (rules shared with C11)
    from . import c11
    ctx.rule('R-LAYGUARD', 'guard before the VGLVLS store of sliceDimensions is true for every selectable layer (size algebra)')
    ctx.rule('R-LAYEDGES', 'edges = VGLVLS[lidx] + VGLVLS[lidx[-1] + 1]')
    sfn = io.func('ioapi_base.sliceDimensions')
    ctx.rule('R-GEOHANDLERS', 'the metadata handlers of sliceDimensions run whenever their dimension is selected (shared with C11)')
    sfacts = c11.Facts(sfn)
    c11.geo_guard_rules(ctx, sfacts, c11.REQUIRED)
    ctx.ok('R-GEOHANDLERS', 'guards', 'src/PseudoNetCDF/%s ioapi_base.sliceDimensions' % IO, '%d feasible paths examined for truthiness / alternative (elif) guards' % len(sfacts.paths))
    c11.lay_rules(ctx, sfn, sfacts, 'src/PseudoNetCDF/%s ioapi_base.sliceDimensions' % IO)
    # ---- R-LISTDIMS: a name stays in VAR-LIST only with one of the standard dimension tuples (finite case analysis of the predicate)
    from .. import consteval
    ctx.rule('R-LISTDIMS', 'getVarlist keeps a name listed only when the variable exists with the standard dimensions (gridded or boundary)')
    gv = io.func('ioapi_base.getVarlist')
    chk = None
    for st in iter_stmts(gv.body):
        if isinstance(st, ast.Assign) and norm(st.targets[0]) == 'check' and isinstance(getattr(st, '_parent', None), ast.For):
            chk = st
            break
    if chk is None:
        ctx.undec('R-LISTDIMS', 'check', '%s ioapi_base.getVarlist' % where, 'eligibility predicate not found in the recognised form (check = ... in the loop over names)')
    else:
        std = [('TSTEP', 'LAY', 'ROW', 'COL'), ('TSTEP', 'LAY', 'PERIM')]
        other = [(), ('TSTEP',), ('TSTEP', 'LAY'), ('TSTEP', 'LAY', 'POINTS'), ('TSTEP', 'LAY', 'ROW'), ('TSTEP', 'LAY', 'COL', 'ROW'), ('TSTEP', 'VAR', 'DATE-TIME'),
                 ('ROW', 'COL'), ('LAY', 'ROW', 'COL'), ('TSTEP', 'ROW', 'COL'), ('TSTEP', 'LAY', 'ROW', 'COL', 'EXTRA'), ('TSTEP', 'LAY', 'PERIM', 'EXTRA')]
        res = dict((d, consteval.ev(chk.value, {'dims': d})) for d in std + other)
        if any(v is consteval.UNK for v in res.values()):
            ctx.undec('R-LISTDIMS', 'check', '%s ioapi_base.getVarlist' % where, 'predicate outside the evaluated fragment: %s' % norm(chk.value)[:80])
        else:
            wrong = [d for d in std if not res[d]] + [d for d in other if res[d]]
            if wrong:
                ctx.violation(Finding('R-LISTDIMS', IO, 'ioapi_base.getVarlist', chk, 'the eligibility test %s keeps a variable with dimensions %s %s: a listed variable must '
                                      'exist with the standard dimensions, and only those are counted by NVARS/VAR/TFLAG' % (
                                          norm(chk.value)[:70], wrong[0], 'out of VAR-LIST' if wrong[0] in std else 'in VAR-LIST')))
            else:
                ctx.ok('R-LISTDIMS', 'check', '%s ioapi_base.getVarlist' % where, 'true for %d standard tuples, false for %d others (incl. missing variable)' % (len(std), len(other)))
    # ---- R-STARTSET: a time selection sets SDATE and STIME on every path (also when one step is kept)
    ctx.rule('R-STARTSET', 'sliceDimensions sets SDATE and STIME from the first retained time on every path of the TSTEP handler')
    # path-wise: every feasible path on which TSTEP is selected stores both, from the first retained time
    tpaths = [(i, p_) for i, p_ in enumerate(sfacts.paths) if p_[2].get('TSTEP') is True or 'TSTEP' in p_[3]]
    if not tpaths:
        ctx.undec('R-STARTSET', 'TSTEP handler', '%s ioapi_base.sliceDimensions' % where, 'no TSTEP handler found')
    else:
        for attr in ('SDATE', 'STIME'):
            stored = dict((f['path'], f) for f in sfacts.of(attr))
            missing = [p_ for i, p_ in tpaths if i not in stored]
            if missing:
                anyst = [f['stmt'] for f in sfacts.of(attr)]
                extra = [norm(x)[:50] for e_, x, pol in missing[0][1].conds if c11.sel_of(x) is None and 'newdims' not in norm(x) and 'isscalar' not in norm(x)]
                ctx.violation(Finding('R-STARTSET', IO, 'ioapi_base.sliceDimensions', anyst[0] if anyst else sfn.body[-1],
                                      '%s is not set on every path of the TSTEP handler (%s): a selection for which the guard is false keeps the source file\'s start while '
                                      'TFLAG is sliced' % (attr, ('only under a narrower condition: ' + ' / '.join(extra[-2:])) if anyst else 'never set')), oid='start:' + attr)
                continue
            fs = [stored[i] for i, p_ in tpaths]
            first = all(any(isinstance(x, ast.Subscript) and isinstance(x.slice, ast.Constant) and x.slice.value == 0 and 'getTimes()' in norm(x.value) for x in ast.walk(f['value'])) for f in fs)
            if first:
                ctx.ok('R-STARTSET', 'start:' + attr, '%s ioapi_base.sliceDimensions' % where, norm(fs[0]['stmt'])[:70])
            else:
                ctx.undec('R-STARTSET', 'start:' + attr, '%s ioapi_base.sliceDimensions' % where, 'set on every path but not from the first selected time: %s' % norm(fs[0]['stmt'])[:60])
    # ---- R-NEWEDGES: interpSigma stores the requested edges, not the input file's
    ctx.rule('R-NEWEDGES', 'interpSigma stores the requested level edges (parameter vglvls) as VGLVLS of the result')
    isf = io.func('ioapi_base.interpSigma')
    params = [a.arg for a in isf.args.args]

    def origins(e, depth=0, seen=None):
        seen = seen if seen is not None else set()
        out = set()
        for n in ast.walk(e):
            if isinstance(n, ast.Attribute) and isinstance(n.value, ast.Name) and n.value.id == 'self':
                out.add('self.' + n.attr)
            elif isinstance(n, ast.Name) and isinstance(n.ctx, ast.Load) and n.id not in ('self', 'np'):
                defs = [s2 for s2 in iter_stmts(isf.body) if isinstance(s2, ast.Assign) and any(isinstance(t, ast.Name) and t.id == n.id for t in s2.targets)
                        and '<locals>' not in getattr(s2, '_q', '')]
                if n.id in params:
                    out.add('param:' + n.id)
                for d in defs:
                    if id(d) not in seen:
                        seen.add(id(d))
                        out |= origins(d.value, depth + 1, seen)
        return out
    vst = [s2 for s2 in iter_stmts(isf.body) if isinstance(s2, ast.Assign) and norm(s2.targets[0]) == 'outf.VGLVLS']
    if not vst:
        ctx.violation(Finding('R-NEWEDGES', IO, 'ioapi_base.interpSigma', 'store VGLVLS', 'interpSigma does not store VGLVLS on the result', lineno=isf.lineno))
    for st in vst:
        o = origins(st.value)
        if 'param:vglvls' in o and 'self.VGLVLS' not in o:
            ctx.ok('R-NEWEDGES', norm(st)[:50], '%s ioapi_base.interpSigma' % where, 'value derives from %s' % sorted(o))
        else:
            ctx.violation(Finding('R-NEWEDGES', IO, 'ioapi_base.interpSigma', st, 'the stored level edges derive from %s, not (only) from the requested edges: after interpolating to '
                                  'another number of layers VGLVLS no longer has NLAYS + 1 entries' % sorted(o)))
    # ---- R-VGLEN: a layer operation stores one more edge than it produced layers (size algebra on the stored expression)
    ctx.rule('R-VGLEN', 'applyAlongDimensions stores NLAYS + 1 level edges for a result of any number of layers')
    aad = io.func('ioapi_base.applyAlongDimensions')
    waad = '%s ioapi_base.applyAlongDimensions' % where
    afacts = c11.Facts(aad)
    lay_fs = [f for f in afacts.of('VGLVLS') if f['sel'].get('LAY') is True or 'LAY' in f['truthy']]
    lay_paths = [p_ for p_ in afacts.paths if p_[2].get('LAY') is True or 'LAY' in p_[3]]
    if not lay_paths:
        ctx.violation(Finding('R-VGLEN', IO, 'ioapi_base.applyAlongDimensions', 'LAY handler', 'no branch re-derives VGLVLS when LAY is reduced', lineno=aad.lineno))
    else:
        c11.geo_guard_rules(ctx, afacts, {'LAY': ['VGLVLS']}, q='ioapi_base.applyAlongDimensions')
        # the guard may not depend on the kind of reducer: every reducer changes the layer structure
        kindtests = [x for f in lay_fs for e_, x, pol in f['conds'] for c in ast.walk(x) if isinstance(c, ast.Call) and dotted(c.func) in ('isinstance', 'callable', 'type')
                     and 'LAY' in norm(x)]
        if kindtests:
            ctx.violation(Finding('R-VGLEN', IO, 'ioapi_base.applyAlongDimensions', lay_fs[0]['stmt'], 'VGLVLS is re-derived only for some kinds of layer reducer (%s): for the others NLAYS shrinks with the LAY dimension '
                                  'while VGLVLS keeps all source edges' % norm(kindtests[0])[:50]), oid='kind guard')
        vst = []
        for f in lay_fs:
            if not any(f['stmt'] is v_ for v_ in vst):
                vst.append(f['stmt'])
        unstored = [p_ for i, p_ in enumerate(afacts.paths) if (p_[2].get('LAY') is True or 'LAY' in p_[3]) and not any(f['path'] == i for f in lay_fs)]
        if not vst:
            ctx.violation(Finding('R-VGLEN', IO, 'ioapi_base.applyAlongDimensions', aad.body[-1], 'the LAY handler does not store VGLVLS'), oid='store')
        elif unstored and not kindtests:
            extra = [norm(x)[:50] for e_, x, pol in unstored[0][1].conds if c11.sel_of(x) is None]
            ctx.violation(Finding('R-VGLEN', IO, 'ioapi_base.applyAlongDimensions', vst[0], 'VGLVLS is re-derived only on some paths taken when LAY is reduced (%s): on the others NLAYS shrinks while VGLVLS keeps '
                                  'all source edges' % ' / '.join(extra[-2:])), oid='store')
        for st in vst:
            e = st.value
            while isinstance(e, ast.Call) and isinstance(e.func, ast.Attribute) and e.func.attr in ('view', 'astype', 'copy'):
                e = e.func.value

            def piece_size(x):
                # A[:, c] -> k ;  A[i, c] -> 1  (A: per-layer bounds table of the result)
                if isinstance(x, ast.Subscript) and isinstance(x.slice, ast.Tuple) and len(x.slice.elts) == 2:
                    a0 = x.slice.elts[0]
                    if isinstance(a0, ast.Slice) and a0.lower is None and a0.upper is None and a0.step is None:
                        return Poly.atom('k')
                    if isinstance(a0, (ast.Constant, ast.UnaryOp)):
                        return Poly.const(1)
                return None
            if isinstance(e, ast.Call) and (dotted(e.func) or '').split('.')[-1] == 'append' and len(e.args) == 2:
                a, b = piece_size(e.args[0]), piece_size(e.args[1])
                if a is None or b is None:
                    ctx.undec('R-VGLEN', norm(st)[:50], waad, 'pieces of the stored edge array not understood')
                elif a + b == Poly.atom('k') + 1:
                    ctx.ok('R-VGLEN', norm(st)[:50], waad, 'k lower edges + the last upper edge = k + 1 entries')
                else:
                    ctx.violation(Finding('R-VGLEN', IO, 'ioapi_base.applyAlongDimensions', st, 'for a result of k layers %s entries are stored as VGLVLS instead of k + 1: coherent only for k = 1 '
                                          '(a reducer that keeps 2 of 4 layers yields 4 edges [1, .9, .9, .7])' % (a + b)))
            else:
                ctx.undec('R-VGLEN', norm(st)[:50], waad, 'stored edge expression not in the append(lower edges, upper edge) form')
    # the registered writer: level edges synthesised for a source without VGLVLS number (LAY length) + 1
    from ..sizealg import to_poly as _tp10
    if io.has_func('ncf2ioapi'):
        wfn10 = io.func('ncf2ioapi')
        wio = '%s ncf2ioapi' % where
        layc = [c for c in ast.walk(wfn10) if isinstance(c, ast.Call) and isinstance(c.func, ast.Attribute) and c.func.attr == 'createDimension' and len(c.args) == 2
                and const_str(c.args[0]) == 'LAY']
        syn = [s2 for s2 in iter_stmts(wfn10.body) if isinstance(s2, ast.Assign) and norm(s2.targets[0]).endswith('.VGLVLS') and isinstance(s2.value, ast.Call)
               and (dotted(s2.value.func) or '').split('.')[-1] in ('arange', 'linspace', 'zeros', 'ones') and s2.value.args]
        for st in syn:
            if not layc:
                ctx.undec('R-VGLEN', norm(st)[:50], wio, 'LAY dimension of the output not created in a recognised form')
                continue
            try:
                nlay = _tp10(layc[0].args[1], {})
                fnm = (dotted(st.value.func) or '').split('.')[-1]
                cnt = _tp10(st.value.args[2] if fnm == 'linspace' and len(st.value.args) > 2 else st.value.args[0], {})
            except Exception:
                ctx.undec('R-VGLEN', norm(st)[:50], wio, 'count expression not polynomial')
                continue
            if cnt == nlay + 1:
                ctx.ok('R-VGLEN', norm(st)[:50], wio, '%s entries for a LAY dimension of %s' % (cnt, nlay))
            else:
                ctx.violation(Finding('R-VGLEN', IO, 'ncf2ioapi', st, 'the level edges synthesised for a source without VGLVLS have %s entries but the LAY dimension is created with %s: '
                                      'the written file does not have NLAYS + 1 edges' % (cnt, nlay)))
    # ---- R-TFLAGRESTORE: mask() always puts the source time flags back; TFLAG is created without a fill value
    ctx.rule('R-TFLAGRESTORE', 'ioapi_base.mask copies the source TFLAG into the result unconditionally; createVariable never gives TFLAG a fill value')
    mk = io.func('ioapi_base.mask')
    top = [st for st in mk.body if isinstance(st, ast.Expr) and isinstance(st.value, ast.Call) and (dotted(st.value.func) or '').endswith('copyVariable') and "'TFLAG'" in norm(st.value)]
    anyw = [c for c in ast.walk(mk) if isinstance(c, ast.Call) and (dotted(c.func) or '').endswith('copyVariable') and "'TFLAG'" in norm(c)]
    wmk = '%s ioapi_base.mask' % where
    if top:
        ctx.ok('R-TFLAGRESTORE', 'mask', wmk, 'top-level %s' % norm(top[0])[:60])
    elif anyw:
        g_ = [p_ for p_ in c11.parent_chain(c11.api.stmt_of(anyw[0])) if isinstance(p_, ast.If)]
        ctx.violation(Finding('R-TFLAGRESTORE', IO, 'ioapi_base.mask', g_[0] if g_ else anyw[0], 'the source TFLAG is restored only when `%s`: when the generic mask already produced a (masked or filled) TFLAG it stays, and SDATE/STIME no '
                              'longer equal the first time flag' % (norm(g_[0].test) if g_ else '?')))
    else:
        ctx.violation(Finding('R-TFLAGRESTORE', IO, 'ioapi_base.mask', mk.body[-1], 'mask no longer restores TFLAG from the source'))
    cvf = io.func('ioapi_base.createVariable')
    nofill = [st for st in iter_stmts(cvf.body) if isinstance(st, ast.If) and "'TFLAG'" in norm(st.test) and any(isinstance(s2, ast.Assign) and norm(s2) == 'fill_value = None' for s2 in st.body)]
    if nofill:
        ctx.ok('R-TFLAGRESTORE', 'createVariable', '%s ioapi_base.createVariable' % where, norm(nofill[0].test))
    else:
        ctx.violation(Finding('R-TFLAGRESTORE', IO, 'ioapi_base.createVariable', cvf.body[-1], 'TFLAG can be created with a fill value: mask(coords=True) then masks time flags, and the masked/filled flags are decoded as times'), oid='createVariable')
    check_varlist_width(ctx)
    check_tflag_unlisted(ctx)
    check_flag_per_time(ctx)
    check_sortmeta_count(ctx)
    check_cf_start(ctx)
    check_start_sync(ctx)
    check_dim_reset(ctx)
    check_time_reduce(ctx)
    # ---- R-COUNTATTR
    for attr, dim in (('NLAYS', 'LAY'), ('NCOLS', 'COL'), ('NROWS', 'ROW')):
        want = "self.%s = len(self.dimensions['%s'])" % (attr, dim)
        hit = [st for st in iter_stmts(um.body) if isinstance(st, ast.Assign) and norm(st) == want]
        if hit:
            ctx.ok('R-COUNTATTR', attr, '%s ioapi_base.updatemeta' % where, want)
        else:
            ctx.violation(Finding('R-COUNTATTR', IO, 'ioapi_base.updatemeta', 'set %s' % attr,
                                  'updatemeta does not set %s from the length of dimension %s' % (attr, dim), lineno=um.lineno), oid=attr)
    unl = [c for c in walk_expr(um) if isinstance(c, ast.Call) and isinstance(c.func, ast.Attribute) and c.func.attr == 'setunlimited'
           and c.args and isinstance(c.args[0], ast.Constant) and c.args[0].value is True]
    if unl and "'TSTEP' in self.dimensions" in norm(um):
        ctx.ok('R-COUNTATTR', 'TSTEP unlimited', '%s ioapi_base.updatemeta' % where, 'TSTEP marked unlimited')
    else:
        ctx.violation(Finding('R-COUNTATTR', IO, 'ioapi_base.updatemeta', 'TSTEP unlimited',
                              'updatemeta no longer marks the TSTEP dimension unlimited', lineno=um.lineno))
