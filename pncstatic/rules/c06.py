"""C06 - arithmetic, eval and mask follow masked-array semantics (dispatch structure).

R-OPTABLE    each operator dunder dispatches to pncbo with its own symbol, self as left operand,
             the parameter as right operand and the receiver's coordinate-key set.
R-MASKTABLE  mask(): parameter -> numpy.ma.masked_* function table, each applied to the running
             values under an 'is not None' guard on that same parameter.
R-INVMASK    in pncbo the stored value flows through masked_invalid.
R-MASKKEEP   no mask-dropping conversion (np.asarray, .view(np.ndarray), .filled, .data) between the
             computed value and the store, in pncbo and in eval.
R-MASKCARRY  mask(): every numpy.ma.masked_* step keeps the cells masked so far.  Contract table read from numpy/ma/core.py:
             masked_where and what is built on it (greater, less, equal, inside, outside, ...) and masked_invalid or the
             incoming mask into the result; masked_values rebuilds the mask from filled(x, value), which keeps an earlier
             mask only where the filled cell compares equal to value again - not for integer data and a fractional
             value - so its call must be followed by the re-application of the mask read before it.
R-RESDTYPE   the result variable takes its dtype from the computed value (values=) not from the left operand.
R-COORDPASS  coordinate variables are passed through from the left operand, before any arithmetic/masking.
"""
import ast
import re

from ..engine import AnalysisError, dotted, iter_stmts, norm, walk_expr, kw, const_str, parent_chain
from ..report import Finding

LEVEL_TEXT = (
    "Static table/dispatch checks (ast): exhaustive operator->symbol and predicate->numpy.ma.masked_* tables, "
    "must-pass-through of masked_invalid, absence of mask-dropping conversions on the value path of pncbo and "
    "eval, result dtype taken from the computed value, coordinate pass-through before any arithmetic. Decides the "
    "dispatch structure for every operator/predicate; elementwise values and what an eval expression computes are not decided.")

FILES = 'core/_files.py'
FUNCS = 'core/_functions.py'
OPS = {'__add__': '+', '__sub__': '-', '__mul__': '*', '__truediv__': '/', '__floordiv__': '//', '__pow__': '**',
       '__mod__': '%', '__lt__': '<', '__le__': '<=', '__gt__': '>', '__ge__': '>=', '__eq__': '==', '__ne__': '!=',
       '__and__': '&', '__or__': '|', '__xor__': '^'}
MASKS = {'where': 'masked_where', 'greater': 'masked_greater', 'greater_equal': 'masked_greater_equal',
         'less': 'masked_less', 'less_equal': 'masked_less_equal', 'values': 'masked_values', 'equal': 'masked_equal',
         'invalid': 'masked_invalid'}
MASK_DROPPERS = ('asarray', 'array', 'filled', 'getdata', 'ascontiguousarray', 'resize', 'append', 'insert', 'delete', 'pad', 'broadcast_to')   # calibrated in the thorough tier


def drops_mask(e):
    """does expression e apply a conversion that strips a MaskedArray's mask?"""
    for n in walk_expr(e):
        if isinstance(n, ast.Call):
            d = dotted(n.func) or ''
            last = d.split('.')[-1]
            if last in MASK_DROPPERS and (d.startswith('np.') or d.startswith('numpy.') or '.' not in d) \
                    and not d.startswith('np.ma.') and last != 'filled':
                return n
            if d in ('np.ma.filled', 'np.ma.getdata', 'numpy.ma.filled'):
                return n
            if isinstance(n.func, ast.Attribute) and n.func.attr == 'view' and n.args \
                    and dotted(n.args[0]) in ('np.ndarray', 'numpy.ndarray', 'ndarray'):
                return n
            if isinstance(n.func, ast.Attribute) and n.func.attr == 'view' and kw(n, 'type') is not None \
                    and dotted(kw(n, 'type')) in ('np.ndarray', 'numpy.ndarray', 'ndarray'):
                return n
            if isinstance(n.func, ast.Attribute) and n.func.attr in ('filled', 'compressed'):
                return n
        if isinstance(n, ast.Attribute) and n.attr == 'data' and isinstance(n.ctx, ast.Load):
            return n
    return None


def api_stmt(node):
    from .. import api
    return api.stmt_of(node)


def run(ctx):
    src = ctx.src
    for r, d in (('R-OPTABLE', 'operator dunder -> pncbo(op=symbol, ifile1=self, ifile2=param, coordkeys=self._operator_exclude_vars)'),
                 ('R-MASKTABLE', "mask(): parameter -> np.ma.masked_* under an 'is not None' guard on that parameter"),
                 ('R-INVMASK', 'pncbo: stored value flows through np.ma.masked_invalid'),
                 ('R-MASKKEEP', 'no mask-dropping conversion on the value path (pncbo, eval)'),
                 ('R-RESDTYPE', 'result dtype follows the computed value'),
                 ('R-MASKCARRY', 'mask(): each masked_* step keeps the cells that are already masked (numpy.ma contract table)'),
                 ('R-COORDPASS', 'coordinate variables passed through from the left operand / unmasked')):
        ctx.rule(r, d)
    fm = src.mod(FILES)
    # ---------------- R-OPTABLE (exhaustive: reference set from the property statement)
    for meth, sym in sorted(OPS.items()):
        q = 'PseudoNetCDFFile.' + meth
        where = 'src/PseudoNetCDF/%s %s' % (FILES, q)
        fn = fm.functions.get(q)
        if fn is None:
            ctx.violation(Finding('R-OPTABLE', FILES, 'PseudoNetCDFFile', 'class PseudoNetCDFFile',
                                  'operator %s (%s) has no handler' % (sym, meth), lineno=fm.cls('PseudoNetCDFFile').lineno),
                          oid=meth)
            continue
        params = [a.arg for a in fn.args.args]
        calls = [c for c in walk_expr(fn) if isinstance(c, ast.Call) and (dotted(c.func) or '').split('.')[-1] == 'pncbo']
        if not calls:
            ctx.violation(Finding('R-OPTABLE', FILES, q, fn.body[-1], '%s does not dispatch to pncbo' % meth), oid=meth)
            continue
        good = False
        why = ''
        for c in calls:
            op = kw(c, 'op') or (c.args[0] if c.args else None)
            f1 = kw(c, 'ifile1') or (c.args[1] if len(c.args) > 1 else None)
            f2 = kw(c, 'ifile2') or (c.args[2] if len(c.args) > 2 else None)
            ck = kw(c, 'coordkeys') or (c.args[3] if len(c.args) > 3 else None)
            s = const_str(op)
            if s is None or s.strip() != sym:
                why = 'op=%s but the operator is %s' % (norm(op) if op is not None else None, sym)
                continue
            if not (isinstance(f1, ast.Name) and f1.id == params[0]):
                why = 'left operand is %s, not self' % (norm(f1) if f1 is not None else None)
                continue
            if not (isinstance(f2, ast.Name) and len(params) > 1 and f2.id == params[1]):
                why = 'right operand is %s, not the parameter' % (norm(f2) if f2 is not None else None)
                continue
            if ck is None or dotted(ck) != params[0] + '._operator_exclude_vars':
                why = 'coordkeys is %s, not self._operator_exclude_vars' % (norm(ck) if ck is not None else None)
                continue
            good = True
        if good:
            ctx.ok('R-OPTABLE', meth, where, "pncbo(op='%s', self, other, self._operator_exclude_vars)" % sym)
        else:
            ctx.violation(Finding('R-OPTABLE', FILES, q, calls[0].__dict__.get('_parent', calls[0]) if False else _stmt(calls[0]),
                                  '%s: %s' % (meth, why)), oid=meth)
    # pncbo must resolve to core._functions.pncbo
    fu = src.mod(FUNCS)
    pncbo = fu.func('pncbo')
    # ---------------- R-MASKTABLE
    q = 'PseudoNetCDFFile.mask'
    fn = fm.func(q)
    where = 'src/PseudoNetCDF/%s %s' % (FILES, q)
    params = [a.arg for a in fn.args.args]
    for par, mf in sorted(MASKS.items()):
        if par not in params:
            ctx.violation(Finding('R-MASKTABLE', FILES, q, 'def mask(%s)' % ', '.join(params),
                                  'predicate %s is not a parameter of mask()' % par, lineno=fn.lineno), oid=par)
            continue
        found = None
        for c in walk_expr(fn):
            if isinstance(c, ast.Call) and (dotted(c.func) or '').split('.')[-1] == mf and \
                    (dotted(c.func) or '').startswith(('np.ma.', 'numpy.ma.', 'ma.')):
                # which parameter does it use as threshold / condition?
                names = set(n.id for a in c.args for n in ast.walk(a) if isinstance(n, ast.Name))
                if par == 'invalid' or par in names:
                    found = c
        if found is None:
            # is the parameter used with a different masked_* function?
            other = [dotted(c.func) for c in walk_expr(fn) if isinstance(c, ast.Call)
                     and (dotted(c.func) or '').split('.')[-1].startswith('masked_')
                     and par in set(n.id for a in c.args for n in ast.walk(a) if isinstance(n, ast.Name))]
            ctx.violation(Finding('R-MASKTABLE', FILES, q, 'mask(): predicate %s' % par,
                                  'predicate %s must be applied with np.ma.%s; found %s' % (par, mf, other or 'no application'),
                                  lineno=fn.lineno), oid=par)
            continue
        st = _stmt(found)
        # the call's data argument must be the running values, and the result must rebind them
        ok_run = isinstance(st, ast.Assign) and len(st.targets) == 1 and isinstance(st.targets[0], ast.Name)
        runname = st.targets[0].id if ok_run else None
        dataarg = found.args[0] if par == 'invalid' else (found.args[1] if par == 'where' else found.args[0])
        if par == 'where' and len(found.args) >= 2:
            dataarg = found.args[1]
        if not (ok_run and isinstance(dataarg, ast.Name) and dataarg.id == runname):
            ctx.violation(Finding('R-MASKTABLE', FILES, q, st,
                                  'np.ma.%s is not applied to the running values (%s := f(%s))' % (mf, runname, norm(dataarg))), oid=par)
            continue
        # guard: some enclosing If tests the parameter in the accepted form
        guards = []
        for p in parent_chain(found):
            if isinstance(p, ast.If) and par in set(n.id for n in ast.walk(p.test) if isinstance(n, ast.Name)):
                guards.append(p)
            if p is fn:
                break
        if not guards:
            ctx.violation(Finding('R-MASKTABLE', FILES, q, st, 'np.ma.%s is not guarded by its parameter %s' % (mf, par)), oid=par)
            continue

        def good_guard(t):
            if par == 'invalid':
                return isinstance(t, ast.Name) and t.id == par
            return isinstance(t, ast.Compare) and isinstance(t.left, ast.Name) and t.left.id == par \
                and len(t.ops) == 1 and isinstance(t.ops[0], ast.IsNot) and isinstance(t.comparators[0], ast.Constant) \
                and t.comparators[0].value is None
        gg = [g for g in guards if good_guard(g.test)]
        if not gg:
            g = guards[-1]
            t = g.test
            ctx.violation(Finding('R-MASKTABLE', FILES, q, 'if ' + norm(t) + ': ' + norm(st),
                                  "guard of predicate %s is '%s'; a threshold of 0 (falsy) must still be applied: the guard "
                                  "has to be '%s is not None'" % (par, norm(t), par), lineno=g.lineno), oid=par)
            continue
        t = gg[0].test
        # the threshold is compared as given: converting it to the type of the data (or to an integer) truncates a fractional
        # threshold for integer data, and the cells between the two values change sides
        if par not in ('invalid', 'where') and len(found.args) >= 2:
            th = found.args[1]
            fnenv = dict((s_.targets[0].id, s_.value) for s_ in iter_stmts(fn.body) if isinstance(s_, ast.Assign) and len(s_.targets) == 1
                         and isinstance(s_.targets[0], ast.Name))
            narrowing = None
            for c2 in walk_expr(th):
                if isinstance(c2, ast.Call):
                    ftxt = norm(fnenv.get(c2.func.id, c2.func)) if isinstance(c2.func, ast.Name) else norm(c2.func)
                    alltxt = ftxt + ' ' + ' '.join(norm(k_.value) for k_ in c2.keywords)
                    if 'dtype' in alltxt or ftxt.split('.')[-1] in ('astype', 'int', 'round', 'floor', 'ceil', 'trunc', 'int32', 'int64', 'int16', 'int8', 'float32', 'float16', 'rint'):
                        narrowing = (c2, ftxt)
            if narrowing is not None:
                ctx.violation(Finding('R-MASKTABLE', FILES, q, st, 'the threshold %s is converted before the comparison (%s(...)): for integer data a fractional threshold is truncated, so cells '
                                      'between the given and the converted value are masked (or kept) against the predicate' % (par, narrowing[1][:40])), oid=par)
                continue
            if norm(th) != par and not (isinstance(th, ast.Call) and (dotted(th.func) or '').split('.')[-1] in ('asarray', 'array', 'asanyarray') and len(th.args) == 1
                                         and not th.keywords and norm(th.args[0]) == par):
                ctx.undec('R-MASKTABLE', par, where, 'threshold expression %s is not the parameter itself' % norm(th)[:60])
                continue
        ctx.ok('R-MASKTABLE', par, where, '%s -> np.ma.%s on running values under %s' % (par, mf, norm(t)))
    # ---------------- R-COORDPASS in mask()
    # path-wise over the body of the variable loop: on every path taken for a coordinate variable when coords is false, the data
    # are stored as read and no masked_* function is applied
    from .. import paths as _paths
    vloop = None
    for st in fn.body:
        if isinstance(st, ast.For) and 'self.variables' in norm(st.iter) and isinstance(st.target, ast.Tuple) and len(st.target.elts) == 2:
            vloop = st
    if vloop is None:
        raise AnalysisError('construct not understood: variable loop of mask()')
    vkn, vvn = [e.id for e in vloop.target.elts]
    ncoord, badp = 0, None
    for pth in _paths.enumerate_paths(vloop.body, limit=50000):
        if pth.polarity('%s in coordkeys' % vkn) is not True or pth.polarity('coords') is not False or pth.exit[0] == 'raise':
            continue
        ncoord += 1
        res = _paths.expand(pth)
        masked = [c for st in pth.stmts for c in walk_expr(st) if isinstance(c, ast.Call) and 'masked_' in (dotted(c.func) or '')]
        plain = [new for st, new in res.stmts if isinstance(new, ast.Assign) and isinstance(new.targets[0], ast.Subscript) and
                 norm(new.value) in ('%s[...]' % vvn, '%s[:]' % vvn, 'self.variables[%s][...]' % vkn)]
        if masked or not plain:
            badp = badp or (pth, masked)
    if ncoord == 0:
        ctx.violation(Finding('R-COORDPASS', FILES, q, vloop, 'mask() has no path that passes coordinate variables through unmasked '
                              '(if vk in coordkeys and not coords: ...; continue)'))
    elif badp is None:
        ctx.ok('R-COORDPASS', 'mask() coordinate branch', where, 'coordinate variables assigned unmodified on the %d paths taken for them, no masked_* call' % ncoord)
    else:
        ctx.violation(Finding('R-COORDPASS', FILES, q, api_stmt(badp[1][0]) if badp[1] else vloop, 'coordinate variables are not passed through unmasked before the masked_* chain'))
    # ---------------- R-MASKCARRY in mask(): every step of the chain keeps the cells masked so far
    check_mask_carry(ctx, fn, vloop, q, where)
    # ---------------- pncbo
    q = 'pncbo'
    where = 'src/PseudoNetCDF/%s %s' % (FUNCS, q)
    # path-wise over the body of the variable loop with temporaries substituted (paths.py): how the branches are spelled (if / elif /
    # else chain, guard clauses with continue, the value computed in one or several statements) is immaterial
    from .. import paths as _paths
    loop = None
    for st in pncbo.body:
        if isinstance(st, ast.For) and '.variables' in norm(st.iter):
            loop = st
    if loop is None or not isinstance(loop.target, ast.Name):
        raise AnalysisError('construct not understood: pncbo loop')
    kname = loop.target.id
    params = [a.arg for a in pncbo.args.args]
    f1, f2 = params[1], params[2]
    coord_paths, arith_paths, other_paths = [], [], []
    for pth in _paths.enumerate_paths(loop.body):
        res = _paths.expand(pth)
        if not res.feasible or pth.exit[0] == 'raise':
            continue
        has_eval = any(isinstance(c, ast.Call) and dotted(c.func) == 'eval' for st in pth.stmts for c in walk_expr(st))
        if pth.polarity('%s in coordkeys' % kname) is True:
            coord_paths.append((pth, res))
        elif has_eval:
            arith_paths.append((pth, res))
        else:
            other_paths.append((pth, res))
    if not coord_paths:
        ctx.violation(Finding('R-COORDPASS', FUNCS, q, loop, 'coordinate variables are not copied unchanged from the left operand (no path of the loop body is taken for `%s in coordkeys`)' % kname))
    else:
        bad = None
        for pth, res in coord_paths:
            copies = [c for st, new in res.stmts for c in walk_expr(new) if isinstance(c, ast.Call) and (dotted(c.func) or '').endswith('.copyVariable')]
            src_ok = bool(copies) and all(c.args and norm(c.args[0]).startswith(f1 + '.variables[') for c in copies)
            uses_f2 = any(isinstance(n, ast.Name) and n.id in (f2, 'in2var') for st, new in res.stmts for n in ast.walk(new))
            arith = any(isinstance(n, ast.BinOp) and not isinstance(n.op, ast.Mod) for st, new in res.stmts for n in ast.walk(new)) or \
                any(isinstance(c, ast.Call) and dotted(c.func) == 'eval' for st in pth.stmts for c in walk_expr(st))
            if not (src_ok and not uses_f2 and not arith):
                bad = pth
        if bad is None:
            ctx.ok('R-COORDPASS', 'pncbo coordinate branch', where, 'coordinate keys copy the left operand variable, no arithmetic (%d paths)' % len(coord_paths))
        else:
            ctx.violation(Finding('R-COORDPASS', FUNCS, q, (bad.stmts or [loop])[-1], 'coordinate variables are not copied unchanged from the left operand'))
    # R-PASSONLY: besides the coordinate keys, a variable is passed through only when the right operand does not have it
    ctx.rule('R-PASSONLY', 'pncbo: a non-coordinate variable is copied instead of computed only when the right operand lacks it')
    badp = None
    npass = 0
    for pth, res in other_paths:
        copies = [c for st, new in res.stmts for c in walk_expr(new) if isinstance(c, ast.Call) and ((dotted(c.func) or '').endswith('.copyVariable') or (dotted(c.func) or '').endswith('.createVariable'))]
        if not copies:
            continue
        npass += 1
        lacks = False
        for e_, x, pol in res.conds:
            t_ = norm(x)
            if isinstance(x, ast.Compare) and len(x.ops) == 1 and norm(x.left) == kname and (f2 + '.variables') in norm(x.comparators[0]):
                if (isinstance(x.ops[0], ast.NotIn) and pol) or (isinstance(x.ops[0], ast.In) and not pol):
                    lacks = True
        if not lacks:
            why = [norm(x)[:50] + (' is %s' % pol) for e_, x, pol in res.conds if kname not in norm(x) or 'coordkeys' not in norm(x)]
            badp = badp or (pth, copies[0], why[-1] if why else '?')
    if badp is not None:
        ctx.violation(Finding('R-PASSONLY', FUNCS, q, api_stmt(badp[1]), 'a variable that both operands have and that is not a coordinate is copied from the left operand instead of being computed '
                              '(when %s): its values in the result are those of the left file whatever the operator' % badp[2]))
    else:
        ctx.ok('R-PASSONLY', 'pncbo pass-through', where, '%d copying paths besides the coordinate branch, all for a variable the right operand lacks' % npass)
    if not arith_paths:
        raise AnalysisError('construct not understood: pncbo no longer evaluates "a op b" with eval')
    # every arithmetic path must satisfy every obligation: the first failing path is reported, ok only when all paths agree
    fails, oks = {}, {}

    def fail(rule, oid, st, msg):
        fails.setdefault((rule, oid), (st, msg))

    def good(rule, oid, msg):
        oks.setdefault((rule, oid), msg)
    for pth, res in arith_paths:
        evals = [(c, st) for st in pth.stmts for c in walk_expr(st) if isinstance(c, ast.Call) and dotted(c.func) == 'eval']
        c, est = evals[-1]
        # the evaluated text, with temporaries substituted
        a0 = [new for st, new in res.stmts if st is est][0]
        a0 = [x for x in walk_expr(a0) if isinstance(x, ast.Call) and dotted(x.func) == 'eval'][-1].args[0]
        tmpl = None
        if isinstance(a0, ast.BinOp) and isinstance(a0.op, ast.Mod) and const_str(a0.left):
            tmpl = (const_str(a0.left), a0.right)
        # the names the text refers to are bound, on this path, to the operands' variables
        binds = dict((st.targets[0].id, norm(st.value)) for st in pth.stmts if isinstance(st, ast.Assign) and isinstance(st.targets[0], ast.Name))
        names_ok = binds.get('in1var', '').startswith(f1 + '.variables[') and binds.get('in2var', '').startswith(f2 + '.variables[')
        if tmpl is None or not tmpl[0].replace(' ', '').startswith('in1var[...]%sin2var[...]'.replace(' ', '')) \
                or not (isinstance(tmpl[1], ast.Name) and tmpl[1].id == params[0]) or not names_ok:
            fail('R-OPTABLE', 'pncbo template', est,
                 "the evaluated expression must be 'in1var[...] <op> in2var[...]' with op the symbol passed in and in1var/in2var the operands' variables; found %s"
                 % (tmpl[0] if tmpl else norm(a0)[:60]))
        else:
            good('R-OPTABLE', 'pncbo template', "evaluates 'in1var[...] %s in2var[...]' % op (left operand first)")
        # the stored value: createVariable(..., values=V) or <new variable>[...] = V, V expanded
        sink = None
        for st, new in res.stmts:
            for x in walk_expr(new):
                if isinstance(x, ast.Call) and (dotted(x.func) or '').endswith('createVariable') and kw(x, 'values') is not None \
                        and any(isinstance(y, ast.Call) and dotted(y.func) == 'eval' for y in ast.walk(kw(x, 'values'))):
                    sink = (st, x, kw(x, 'values'))
            if sink is None and isinstance(new, ast.Assign) and isinstance(new.targets[0], ast.Subscript) and \
                    any(isinstance(y, ast.Call) and dotted(y.func) == 'eval' for y in ast.walk(new.value)):
                sink = (st, None, new.value)
        if sink is None:
            raise AnalysisError('construct not understood: value path of pncbo')
        sst, call, val = sink
        # wrappers between the evaluated result and the stored value
        vt = norm(val)
        if not ('masked_invalid(' in vt or 'fix_invalid(' in vt or ('masked_where(' in vt and 'isfinite' in vt)):
            fail('R-INVMASK', 'pncbo value path', sst, 'the arithmetic result is stored without masking non-finite values%s' % (
                (' when ' + pth.describe()) if pth.conds else ''))
        else:
            good('R-INVMASK', 'pncbo value path', vt[:120])
        dm = drops_mask(val)
        if dm is not None:
            fail('R-MASKKEEP', 'pncbo value path', sst, 'the elementwise result passes through %s, which drops the mask of masked operands: their '
                 'cells come back unmasked' % norm(dm)[:60])
        else:
            good('R-MASKKEEP', 'pncbo value path', 'no mask-dropping conversion between eval and the store')
        # R-RESDTYPE
        if call is not None:
            good('R-RESDTYPE', 'pncbo sink', 'createVariable(..., values=<computed value>): dtype follows the computed value')
        else:
            # allocate-then-assign: the allocation dtype must be derived from the computed value
            alloc = [x for st, new in res.stmts for x in walk_expr(new) if isinstance(x, ast.Call) and (dotted(x.func) or '').endswith('createVariable')]
            isgood = False
            for x in alloc:
                ty = x.args[1] if len(x.args) > 1 else kw(x, 'type')
                if ty is not None and any(isinstance(y, ast.Call) and dotted(y.func) == 'eval' for y in ast.walk(ty)):
                    isgood = True
            if isgood:
                good('R-RESDTYPE', 'pncbo sink', 'variable allocated with the dtype of the computed value')
            else:
                fail('R-RESDTYPE', 'pncbo sink', sst, 'the result variable is allocated with the left operand dtype and the computed value is cast '
                     'into it: integer true division and mixed-dtype results are truncated, comparisons are not bool')
    for (rule, oid), (st, msg) in sorted(fails.items()):
        ctx.violation(Finding(rule, FUNCS, q, st, msg))
    for (rule, oid), msg in sorted(oks.items()):
        if (rule, oid) not in fails:
            ctx.ok(rule, oid, where, msg)
    # ---------------- eval value path
    q = 'PseudoNetCDFFile.eval'
    fn = fm.func(q)
    where = 'src/PseudoNetCDF/%s %s' % (FILES, q)
    loops = [st for st in iter_stmts(fn.body) if isinstance(st, ast.For) and norm(st.iter) == 'assignedkeys']
    if not loops:
        raise AnalysisError('construct not understood: eval assigned-keys loop')
    lp = loops[-1]
    valname = None
    bad = None
    stores = 0
    for st in iter_stmts(lp.body):
        if isinstance(st, ast.Assign) and isinstance(st.targets[0], ast.Name):
            if norm(st.value).startswith('vardict['):
                valname = st.targets[0].id
            elif valname and st.targets[0].id == valname:
                d = drops_mask(st.value)
                if d is not None:
                    bad = (st, d)
        if valname and isinstance(st, (ast.Assign, ast.Expr)):
            for c in walk_expr(st):
                if isinstance(c, ast.Call) and (dotted(c.func) or '').endswith('createVariable'):
                    v = kw(c, 'values')
                    stores += 1
                    if v is not None:
                        d = drops_mask(v)
                        if d is not None:
                            bad = (st, d)
                        elif not (isinstance(v, ast.Name) and v.id == valname):
                            ctx.undec('R-MASKKEEP', 'eval sink', where, 'values=%s is not the evaluated value itself' % norm(v))
            if isinstance(st, ast.Assign) and isinstance(st.targets[0], ast.Subscript) and \
                    norm(st.targets[0].value).endswith('.variables'):
                stores += 1
                d = drops_mask(st.value)
                if d is not None:
                    bad = (st, d)
    if valname is None or stores == 0:
        raise AnalysisError('construct not understood: eval value path')
    if bad:
        ctx.violation(Finding('R-MASKKEEP', FILES, q, bad[0],
                              'the evaluated value passes through %s before it is stored: the mask of a masked result is lost'
                              % norm(bad[1])[:60]))
    else:
        ctx.ok('R-MASKKEEP', 'eval value path', where, '%d stores of vardict[key], no mask-dropping conversion' % stores)
    # ---- R-NSPRIO: in the evaluation namespace file variables win over same-named global attributes
    ctx.rule('R-NSPRIO', 'eval namespace: a global attribute never replaces a same-named file variable')
    for rp_, qn, attrsrc in ((FILES, 'PseudoNetCDFFile.eval', 'self'), (FUNCS, 'pncexpr', 'ifile')):
        f5 = src.mod(rp_).func(qn)
        w5 = 'src/PseudoNetCDF/%s %s' % (rp_, qn)
        loops5 = [st for st in iter_stmts(f5.body) if isinstance(st, ast.For) and norm(st.iter) == '%s.ncattrs()' % attrsrc]
        if not loops5:
            raise AnalysisError('anchor vanished: attribute loop of %s' % qn)
        lp5 = loops5[0]
        kname = lp5.target.id if isinstance(lp5.target, ast.Name) else None
        stores5 = [st for st in iter_stmts(lp5.body) if isinstance(st, ast.Assign) and isinstance(st.targets[0], ast.Subscript) and norm(st.targets[0].value) == 'vardict']
        okp = bool(stores5)
        for st in stores5:
            par = getattr(st, '_parent', None)
            guarded = isinstance(par, ast.If) and norm(par.test) == '%s not in vardict' % kname and norm(st.targets[0].slice) == kname
            okp = okp and guarded
        if okp:
            ctx.ok('R-NSPRIO', qn, w5, 'attributes added only under `%s not in vardict`' % kname)
        else:
            ctx.violation(Finding('R-NSPRIO', rp_, qn, stores5[0] if stores5 else lp5, 'global attributes are put into the evaluation namespace without the '
                                  '`not in vardict` guard (or under a different key than the one tested): an attribute silently replaces a same-named variable in the expression'))
    # ---- R-MASKKEEP on the string templates of mask_vals (functional form; the 'where' template is not judged: it references an undefined name and never runs)
    mv = fu.func('mask_vals')
    tmpl = None
    for st in iter_stmts(mv.body):
        if isinstance(st, ast.Assign) and norm(st.targets[0]) == 'maskexpr' and isinstance(st.value, ast.BinOp) and isinstance(st.value.op, ast.Mod):
            tmpl = st
    if tmpl is None:
        raise AnalysisError('anchor vanished: mask expression template of mask_vals')
    # resolve the template text (string constants and local string names)
    strs = dict((norm(st.targets[0]), const_str(st.value)) for st in iter_stmts(mv.body) if isinstance(st, ast.Assign) and const_str(st.value) is not None)
    left = const_str(tmpl.value.left)
    args5 = tmpl.value.right.elts if isinstance(tmpl.value.right, ast.Tuple) else [tmpl.value.right]
    vals5 = [strs.get(norm(a), 'X') if isinstance(a, ast.Name) else 'X' for a in args5]
    try:
        text5 = left % tuple(vals5)
        tree5 = ast.parse(text5, mode='eval').body
    except Exception:
        tree5 = None
    w6 = 'src/PseudoNetCDF/%s mask_vals' % FUNCS
    if tree5 is None:
        ctx.undec('R-MASKKEEP', 'mask_vals template', w6, 'template not parsable')
    else:
        for n5 in ast.walk(tree5):
            for c5 in ast.iter_child_nodes(n5):
                c5._parent = n5
        d5 = drops_mask(tree5)
        if d5 is not None:
            ctx.violation(Finding('R-MASKKEEP', FUNCS, 'mask_vals', tmpl, 'the masking expression applies %s to the variable: cells that were already masked come back unmasked '
                                  '(repeated --mask options lose the earlier masks)' % norm(d5)[:50]))
        else:
            ctx.ok('R-MASKKEEP', 'mask_vals template', w6, text5)
    ctx.floor('operator handlers', sum(1 for o in ctx.obligations if o['rule'] == 'R-OPTABLE'), 17)
    ctx.floor('mask predicates', sum(1 for o in ctx.obligations if o['rule'] == 'R-MASKTABLE'), 8)
    # ---------------- R-EVALASSIGN: every name the expression assigns becomes a variable of the result, also a re-assigned input
    ctx.rule('R-EVALASSIGN', 'eval: the names stored are all assigned names found in the namespace after exec (no filter on names that existed before)')
    evf = ctx.src.mod(FILES).func('PseudoNetCDFFile.eval')
    wev = 'src/PseudoNetCDF/%s PseudoNetCDFFile.eval' % FILES
    ak = [st for st in iter_stmts(evf.body) if isinstance(st, ast.Assign) and norm(st.targets[0]) == 'assignedkeys']
    if not ak:
        ctx.undec('R-EVALASSIGN', 'assignedkeys', wev, 'assignedkeys not found')
    else:
        extra = None
        for st in ak:
            for comp in [n for n in ast.walk(st.value) if isinstance(n, ast.comprehension)]:
                cv = comp.target.id if isinstance(comp.target, ast.Name) else None
                for cond in comp.ifs:
                    for part in (cond.values if isinstance(cond, ast.BoolOp) and isinstance(cond.op, ast.And) else [cond]):
                        t = norm(part)
                        # accepted filters, by role: <element>.is_assigned(), and presence of the (name of the) element in the namespace
                        if cv and t in ('%s in vardict' % cv, '%s.is_assigned()' % cv, '%s in vardict.keys()' % cv,
                                        '%s.get_name() in vardict' % cv, '%s.get_name() in vardict.keys()' % cv):
                            continue
                        extra = (st, t)
        if extra:
            ctx.violation(Finding('R-EVALASSIGN', FILES, 'PseudoNetCDFFile.eval', extra[0], 'assigned names are additionally filtered by `%s`: an expression that re-assigns an existing variable (A = A * 1000.) is evaluated and '
                                  'its result thrown away' % extra[1]))
        else:
            ctx.ok('R-EVALASSIGN', 'assignedkeys', wev, '%d definitions, filtered only by presence in the namespace' % len(ak))
    # ---------------- R-COORDKEYS: a copy (also a structure-only one) keeps the receiver's coordinate keys
    ctx.rule('R-COORDKEYS', '_copywith hands the coordinate keys to the copy on every path, whether or not variables are copied (pncbo and mask fill the copy afterwards)')
    cw = ctx.src.mod(FILES).func('PseudoNetCDFFile._copywith')
    wcw = 'src/PseudoNetCDF/%s PseudoNetCDFFile._copywith' % FILES
    how = None
    badst = None
    for st in cw.body:      # top level only: must not depend on the `variables` switch
        if isinstance(st, ast.Assign) and any(isinstance(t, ast.Attribute) and t.attr == '_operator_exclude_vars' and norm(t.value) == 'outf' for t in st.targets) \
                and 'self._operator_exclude_vars' in norm(st.value):
            how = norm(st)[:70]
        if isinstance(st, ast.Expr) and isinstance(st.value, ast.Call) and dotted(st.value.func) == 'outf.setCoords' and st.value.args \
                and norm(st.value.args[0]) in ('self.getCoords()', 'self._operator_exclude_vars'):
            ms = kw(st.value, 'missing') or (st.value.args[1] if len(st.value.args) > 1 else None)
            if ms is None or const_str(ms) == 'ignore':
                how = norm(st)[:70]
            else:
                badst = st
    if how:
        ctx.ok('R-COORDKEYS', '_copywith', wcw, how)
    elif badst is not None:
        ctx.violation(Finding('R-COORDKEYS', FILES, 'PseudoNetCDFFile._copywith', badst, 'the coordinate keys are filtered by the variables the copy already holds (%s): a structure-only copy - what '
                              'pncbo and mask() start from - gets none, so the next operation computes on the coordinate variables' % norm(badst.value.keywords[0].value if badst.value.keywords else badst.value.args[1])))
    else:
        ctx.violation(Finding('R-COORDKEYS', FILES, 'PseudoNetCDFFile._copywith', cw.body[-1], 'the copy does not receive the coordinate keys of the receiver on every path: results of file arithmetic / '
                              'mask() lose them and the next operation computes on the coordinate variables'))
    # ---------------- R-EVALSTORE: an evaluated result replaces / creates the variable of its name; it is never written *into* the old one
    ctx.rule('R-EVALSTORE', 'eval: a result is stored as the variable of its name, never assigned into the existing variable (that casts to the old dtype and drops the mask)')
    evf = ctx.src.mod(FILES).func('PseudoNetCDFFile.eval')
    wev2 = 'src/PseudoNetCDF/%s PseudoNetCDFFile.eval' % FILES
    olds = set()
    for st in iter_stmts(evf.body):
        if isinstance(st, ast.Assign) and len(st.targets) == 1 and isinstance(st.targets[0], ast.Name) and re.search(r"\.variables(\.get\(|\[)", norm(st.value)) and 'vardict' not in norm(st.value):
            olds.add(st.targets[0].id)
    into = [st for st in iter_stmts(evf.body) if isinstance(st, (ast.Assign, ast.AugAssign)) and any(isinstance(t, ast.Subscript) and ((isinstance(t.value, ast.Name) and t.value.id in olds) or
                                                                                                      re.match(r"^\w+\.variables\[\w+\]$", norm(t.value)))
                                                                                                     for t in (st.targets if isinstance(st, ast.Assign) else [st.target]))]
    if into:
        ctx.violation(Finding('R-EVALSTORE', FILES, 'PseudoNetCDFFile.eval', into[0], 'the result is written into the existing variable (%s): its values are cast to the old type (COUNT = COUNT / 2 truncates) and a '
                              'masked result assigned to a plain variable loses its mask' % norm(into[0])[:40]))
    else:
        ctx.ok('R-EVALSTORE', 'eval', wev2, 'results stored under their names')
    # ---------------- R-COORDDEFAULT: the default coordinate keys of the command line keep every pinned key (a lost blank fuses two names)
    ctx.rule('R-COORDDEFAULT', 'pncparse: the default --coordkeys string still contains every coordinate key of the pinned tree as a separate word')
    try:
        from .. import normalize as _nz
        pm = ctx.src.mod('pncparse.py')
        cur = pm.assigns.get('_coordkeys')
        pinned_txt = _nz.pinned_text('pncparse.py') if hasattr(_nz, 'pinned_text') else None
    except Exception:
        cur, pinned_txt = None, None

    from .. import consteval as _ce6

    def _words(node):
        v = _ce6.ev(node, {}) if node is not None else _ce6.UNK
        if isinstance(v, str):
            return set(v.replace(',', ' ').split())
        if isinstance(v, (list, tuple)):
            return set(v)
        return None
    curw = _words(cur.func.value if isinstance(cur, ast.Call) and isinstance(cur.func, ast.Attribute) and cur.func.attr == 'split' else cur)
    pinw = None
    if pinned_txt:
        try:
            pt = ast.parse(pinned_txt)
            for st in pt.body:
                if isinstance(st, ast.Assign) and isinstance(st.targets[0], ast.Name) and st.targets[0].id == '_coordkeys':
                    v_ = st.value
                    pinw = _words(v_.func.value if isinstance(v_, ast.Call) and isinstance(v_.func, ast.Attribute) and v_.func.attr == 'split' else v_)
        except Exception:
            pinw = None
    if curw is None or pinw is None:
        ctx.undec('R-COORDDEFAULT', '_coordkeys', 'src/PseudoNetCDF/pncparse.py', 'default key string not evaluable (current %s, pinned %s)' % (curw is not None, pinw is not None))
    elif pinw <= curw:
        ctx.ok('R-COORDDEFAULT', '_coordkeys', 'src/PseudoNetCDF/pncparse.py', 'all %d pinned keys present' % len(pinw))
    else:
        ctx.violation(Finding('R-COORDDEFAULT', 'pncparse.py', '<module>', '_coordkeys = ...', 'the default coordinate keys no longer contain %s (new words: %s): operators from the command line compute on those variables instead of '
                              'passing them through' % (sorted(pinw - curw), sorted(curw - pinw)), lineno=getattr(cur, 'lineno', 1)))
    # ---------------- R-SEQLEFT: a chain of operators is evaluated left to right: the intermediate result is the left operand of the next
    ctx.rule('R-SEQLEFT', 'seqpncbo: the intermediate result goes back to the front of the file list (it is the left operand of the next operator)')
    sq = ctx.src.mod(FUNCS).functions.get('seqpncbo')
    wsq = 'src/PseudoNetCDF/%s seqpncbo' % FUNCS
    if sq is None:
        ctx.undec('R-SEQLEFT', 'seqpncbo', wsq, 'function not found')
    else:
        res = [st.targets[0].id for st in iter_stmts(sq.body) if isinstance(st, ast.Assign) and isinstance(st.targets[0], ast.Name) and isinstance(st.value, ast.Call)
               and (dotted(st.value.func) or '').split('.')[-1] == 'pncbo']
        verdict = None
        for st in iter_stmts(sq.body):
            if not res:
                break
            r_ = res[0]
            if isinstance(st, ast.Expr) and isinstance(st.value, ast.Call) and isinstance(st.value.func, ast.Attribute) and any(isinstance(a, ast.Name) and a.id == r_ for a in st.value.args):
                m_ = st.value.func.attr
                if m_ == 'insert' and isinstance(st.value.args[0], ast.Constant) and st.value.args[0].value == 0:
                    verdict = ('ok', st)
                elif m_ in ('append', 'extend', 'insert'):
                    verdict = ('bad', st)
            if isinstance(st, ast.Assign) and isinstance(st.value, ast.BinOp) and isinstance(st.value.op, ast.Add):
                l_, r2 = st.value.left, st.value.right
                if isinstance(l_, ast.List) and len(l_.elts) == 1 and norm(l_.elts[0]) == r_:
                    verdict = ('ok', st)
                elif isinstance(r2, ast.List) and len(r2.elts) == 1 and norm(r2.elts[0]) == r_:
                    verdict = ('bad', st)
        if verdict is None:
            ctx.undec('R-SEQLEFT', 'seqpncbo', wsq, 'how the intermediate result re-enters the list was not recognised')
        elif verdict[0] == 'ok':
            ctx.ok('R-SEQLEFT', 'seqpncbo', wsq, norm(verdict[1])[:50])
        else:
            ctx.violation(Finding('R-SEQLEFT', FUNCS, 'seqpncbo', verdict[1], 'the intermediate result is put behind the remaining files (%s): with two or more operators the next one takes the next file as left '
                                  'operand and the result as right operand, so a - b / c is evaluated as c / (a - b)' % norm(verdict[1])[:40]))
    # ---------------- R-VALUESASIS: creating a variable adds no mask condition of its own
    ctx.rule('R-VALUESASIS', 'createVariable hands the initial values to the variable as given (no masking by value: a computed cell that equals the fill value is data)')
    cvf = ctx.src.mod(FILES).func('PseudoNetCDFFile.createVariable')
    wcv = 'src/PseudoNetCDF/%s PseudoNetCDFFile.createVariable' % FILES
    badcv = None
    for st in iter_stmts(cvf.body):
        if isinstance(st, ast.Assign) and any(isinstance(t, ast.Subscript) and norm(t.value) == 'properties' and const_str(t.slice) == 'values' for t in st.targets):
            badcv = badcv or st
        for c in walk_expr(st) if not isinstance(st, (ast.If, ast.For, ast.While, ast.Try, ast.With)) else []:
            if isinstance(c, ast.Call) and (dotted(c.func) or '').split('.')[-1].startswith('masked_'):
                badcv = badcv or st
    if badcv is not None:
        ctx.violation(Finding('R-VALUESASIS', FILES, 'PseudoNetCDFFile.createVariable', badcv, 'the initial values are changed on the way into the variable (%s): pncbo creates every result with a fill value '
                              'and its computed values, so a finite result that happens to equal the fill value (1 - 1000 = -999) comes back masked' % norm(badcv)[:60]))
    else:
        ctx.ok('R-VALUESASIS', 'createVariable', wcv, 'values reach the variable constructor unchanged')
    # ---------------- R-COORDDECL: coordinates declared before the variables exist are kept
    ctx.rule('R-COORDDECL', 'setCoords: with the default of `missing`, every key is registered (readers declare coordinates before they create the variables)')
    sc = ctx.src.mod(FILES).func('PseudoNetCDFFile.setCoords')
    wsc = 'src/PseudoNetCDF/%s PseudoNetCDFFile.setCoords' % FILES
    scp = [a.arg for a in sc.args.args]
    if 'missing' not in scp or len(scp) < 2:
        ctx.undec('R-COORDDECL', 'default', wsc, 'no parameter `missing`')
    else:
        dflt = sc.args.defaults[scp.index('missing') - (len(scp) - len(sc.args.defaults))] if scp.index('missing') >= len(scp) - len(sc.args.defaults) else None
        dval = const_str(dflt) if dflt is not None else None
        bare = 0
        for m_ in ctx.src.all_modules():
            if m_.relpath.startswith('test/'):
                continue
            for c in (x for f_ in m_.functions.values() for x in walk_expr(f_)):
                if isinstance(c, ast.Call) and isinstance(c.func, ast.Attribute) and c.func.attr == 'setCoords' and len(c.args) == 1 and kw(c, 'missing') is None \
                        and isinstance(c.func.value, ast.Name):
                    bare += 1
        from .. import paths as _paths2
        verdict = None
        if dval is None:
            ctx.undec('R-COORDDECL', 'default', wsc, 'default of `missing` is not a string literal')
        else:
            from .. import consteval as _ce
            for pth in _paths2.enumerate_paths(sc.body, limit=2000):
                feasible = True
                for test, pol in pth.conds:
                    if 'missing' in _names(test):
                        got = _ce.ev(test, {'missing': dval})
                        if got is not _ce.UNK and bool(got) != pol:
                            feasible = False
                if not feasible:
                    continue
                rebinds = [st for st in pth.stmts if isinstance(st, ast.Assign) and any(isinstance(t, ast.Name) and t.id == scp[1] for t in st.targets)]
                if pth.exit[0] == 'raise':
                    verdict = verdict or ('raises', pth.stmts[-1] if pth.stmts else sc.body[0])
                elif rebinds:
                    verdict = verdict or ('filters the keys (%s)' % norm(rebinds[0])[:60], rebinds[0])
            if verdict:
                ctx.violation(Finding('R-COORDDECL', FILES, 'PseudoNetCDFFile.setCoords', 'def setCoords(%s, missing=%r)' % (', '.join(scp[:-1]), dval),
                                      "with the default missing=%r setCoords %s: the %d calls that declare coordinates before the variables are created register nothing, so file "
                                      'arithmetic computes on the coordinate variables and mask() masks them' % (dval, verdict[0], bare), lineno=sc.lineno))
            else:
                ctx.ok('R-COORDDECL', 'default', wsc, 'missing=%r keeps every key; %d calls rely on the default' % (dval, bare))
    # ---------------- R-MASKDEFPARSE: the string form 'type,arg[,arg]' keeps every argument (finite case analysis of the parse)
    from .. import consteval as _cev
    ctx.rule('R-MASKDEFPARSE', "mask_vals: 'type,a,b' is split into the type and the complete argument text 'a,b'")
    mvf = ctx.src.mod(FUNCS).func('mask_vals')
    wmv = 'src/PseudoNetCDF/%s mask_vals' % FUNCS
    par_ = [a.arg for a in mvf.args.args][1]
    head = []
    for st in mvf.body:
        if isinstance(st, ast.Expr) and isinstance(st.value, ast.Constant):
            continue
        if isinstance(st, ast.Assign):
            head.append(st)
        else:
            break
    # which names hold the type and the arguments: the type is compared with 'where', the other feeds the expression template
    tname = None
    for n_ in ast.walk(mvf):
        if isinstance(n_, ast.Compare) and isinstance(n_.left, ast.Name) and n_.comparators and const_str(n_.comparators[0]) == 'where':
            tname = n_.left.id
    aname = None
    for n_ in ast.walk(mvf):
        if isinstance(n_, ast.BinOp) and isinstance(n_.op, ast.Mod) and const_str(n_.left) and 'masked_%s' in const_str(n_.left) and isinstance(n_.right, ast.Tuple) and len(n_.right.elts) == 2 \
                and isinstance(n_.right.elts[1], ast.Name):
            aname = n_.right.elts[1].id
    if tname is None or aname is None or not head:
        ctx.undec('R-MASKDEFPARSE', 'parse', wmv, 'type / argument names of the parse not identified')
    else:
        wrong = unk = None
        for text, want in (('greater,5', ('greater', '5')), ('inside,1,2', ('inside', '1,2')), ('values,2.5,0.001', ('values', '2.5,0.001')), ('invalid', ('invalid', '')), ('outside,-1e3,1e3', ('outside', '-1e3,1e3'))):
            env = {par_: text}
            for st in head:
                v_ = _cev.ev(st.value, env)
                tg = st.targets[0]
                if isinstance(tg, ast.Name):
                    env[tg.id] = v_
                elif isinstance(tg, ast.Tuple) and v_ is not _cev.UNK and isinstance(v_, (list, tuple)) and len(v_) == len(tg.elts):
                    for t_, x_ in zip(tg.elts, v_):
                        if isinstance(t_, ast.Name):
                            env[t_.id] = x_
                else:
                    for t_ in (tg.elts if isinstance(tg, ast.Tuple) else []):
                        if isinstance(t_, ast.Name):
                            env[t_.id] = _cev.UNK
            got = (env.get(tname, _cev.UNK), env.get(aname, _cev.UNK))
            if _cev.UNK in got:
                unk = text
            elif got != want:
                wrong = (text, got, want)
                break
        if wrong:
            ctx.violation(Finding('R-MASKDEFPARSE', FUNCS, 'mask_vals', head[-1], 'the definition %r is parsed as type %r with arguments %r (expected %r): the later arguments are dropped, numpy.ma.masked_%s is '
                                  'called with too few arguments, the error is swallowed as a warning and nothing is masked' % (wrong[0], wrong[1][0], wrong[1][1], wrong[2][1], wrong[1][0])))
        elif unk:
            ctx.undec('R-MASKDEFPARSE', 'parse', wmv, 'parse outside the evaluated fragment for %r' % unk)
        else:
            ctx.ok('R-MASKDEFPARSE', 'parse', wmv, '5 definitions (0, 1, 2 arguments) split into type and complete argument text')
    # ---------------- R-MASKTMPL: the expression templates mask_vals evaluates refer only to names that exist there, and keep the mask
    import builtins as _bi
    ctx.rule('R-MASKTMPL', 'mask_vals: every name in an evaluated expression template is bound where it is evaluated; no template strips the mask the variable already carries')
    modf = ctx.src.mod(FUNCS)
    bound = set(a.arg for a in mvf.args.args) | set(n_.id for n_ in ast.walk(mvf) if isinstance(n_, ast.Name) and isinstance(n_.ctx, ast.Store)) | \
        set(modf.imports) | set(modf.assigns) | set(modf.functions) | set(dir(_bi))
    ntm = 0
    for st in iter_stmts(mvf.body):
        if not (isinstance(st, ast.Assign) and isinstance(st.targets[0], ast.Name)):
            continue
        v_ = st.value
        tmpl = const_str(v_) if const_str(v_) is not None else (const_str(v_.left) if isinstance(v_, ast.BinOp) and isinstance(v_.op, ast.Mod) else None)
        if tmpl is None or 'masked_' not in tmpl:
            continue
        ntm += 1
        text = tmpl.replace('masked_%s', 'masked_X').replace('%s', '0')
        try:
            tree = ast.parse(text, mode='eval')
        except SyntaxError:
            ctx.undec('R-MASKTMPL', norm(st)[:40], wmv, 'template is not an expression after substitution: %s' % text[:50])
            continue
        free = sorted(set(n_.id for n_ in ast.walk(tree) if isinstance(n_, ast.Name)) - bound)
        dm = drops_mask(tree.body)
        if free:
            ctx.violation(Finding('R-MASKTMPL', FUNCS, 'mask_vals', st, 'the evaluated template %r refers to %s, which is bound nowhere in mask_vals: the evaluation raises NameError for every variable, the '
                                  'error is swallowed as a warning and nothing is masked' % (tmpl[:60], free)), oid=tmpl[:30])
        elif dm is not None:
            ctx.violation(Finding('R-MASKTMPL', FUNCS, 'mask_vals', st, 'the evaluated template %r passes the values through %s, which strips the mask the variable already carries: cells masked by an '
                                  'earlier step come back unmasked' % (tmpl[:60], norm(dm)[:40])), oid=tmpl[:30])
        else:
            ctx.ok('R-MASKTMPL', tmpl[:40], wmv, 'names bound, no mask-dropping conversion')
    if ntm < 2:
        raise AnalysisError('R-MASKTMPL: %d expression templates found in mask_vals (2 confirmed by reading)' % ntm)
    # ---------------- R-WHEREAPPLY: which variables a positional mask applies to (finite case analysis of the condition)
    from .. import consteval
    ctx.rule('R-WHEREAPPLY', 'mask(where=): applied to a variable iff the mask is tied to exactly its dimensions, or is untied and has exactly its shape')
    mfn2 = ctx.src.mod(FILES).func('PseudoNetCDFFile.mask')
    wcond = None
    for st in iter_stmts(mfn2.body):
        if isinstance(st, ast.If) and any(isinstance(c, ast.Call) and (dotted(c.func) or '').endswith('masked_where') and c.args and 'where' in _names(c.args[0])
                                          for s2 in st.body for c in ast.walk(s2)) \
                and norm(st.test) != 'where is not None':
            wcond = st
    wmask = 'src/PseudoNetCDF/%s PseudoNetCDFFile.mask' % FILES
    if wcond is None:
        ctx.undec('R-WHEREAPPLY', 'condition', wmask, 'no condition found around masked_where(where, vals) besides "where is not None"')
    else:
        D, O = ('y', 'x'), ('x', 'y')
        S, T = (3, 3), (3, 4)
        cases = [  # (maskdims, var dims, where shape, vals shape) -> applies?
            ((D, D, S, S), True), ((D, D, S, T), True), ((None, D, S, S), True), ((None, D, S, T), False), ((None, D, T, S), False),
            ((O, D, S, S), False), ((O, D, S, T), False), ((D, O, S, S), False), ((None, (), (), ()), True), ((None, ('t',), S, (3,)), False)]
        wrong = unk = None
        for (md, vd, ws, vs), want in cases:
            def hook(n, md=md, vd=vd, ws=ws, vs=vs):
                t = norm(n)
                if t == 'maskdims':
                    return ('$none',) if md is None else md
                if t in ('vv.dimensions', 'tuple(vv.dimensions)'):
                    return vd
                if t in ('where.shape', 'np.shape(where)', 'where[...].shape'):
                    return ws
                if t in ('vals.shape', 'np.shape(vals)', 'vv.shape', 'vv[...].shape'):
                    return vs
                if isinstance(n, ast.Compare) and len(n.ops) == 1 and isinstance(n.ops[0], (ast.Is, ast.IsNot)) and norm(n.left) == 'maskdims' \
                        and isinstance(n.comparators[0], ast.Constant) and n.comparators[0].value is None:
                    return (md is None) == isinstance(n.ops[0], ast.Is)
                return None
            got = consteval.ev(wcond.test, {}, hook)
            if got is consteval.UNK:
                unk = (md, vd, ws, vs)
                continue
            if bool(got) != want:
                wrong = (md, vd, ws, vs, bool(got))
                break
        # the names may be given as a list: what is compared with the dimension *tuple* of a variable must compare equal to it
        mdst = [st for st in iter_stmts(mfn2.body) if isinstance(st, ast.Assign) and isinstance(st.targets[0], ast.Name) and st.targets[0].id == 'maskdims' and 'dims' in _names(st.value)
                and not isinstance(st.value, ast.Call) or (isinstance(st, ast.Assign) and isinstance(st.targets[0], ast.Name) and st.targets[0].id == 'maskdims'
                                                            and isinstance(st.value, ast.Call) and dotted(st.value.func) in ('tuple', 'list'))]
        for st in mdst:
            got_ = consteval.ev(st.value, {'dims': ['y', 'x']})
            if got_ is consteval.UNK:
                continue
            if got_ == ('y', 'x'):
                ctx.ok('R-WHEREAPPLY', 'dims as a list', wmask, '%s compares equal to a dimension tuple' % norm(st)[:40])
            else:
                ctx.violation(Finding('R-WHEREAPPLY', FILES, 'PseudoNetCDFFile.mask', st, 'dimension names given as a list are kept as a list (%s) and compared with the dimension tuple of each variable: the '
                                      'comparison is never true, so mask(where=w, dims=[...]) silently masks nothing' % norm(st)[:40]))
        if wrong:
            ctx.violation(Finding('R-WHEREAPPLY', FILES, 'PseudoNetCDFFile.mask', wcond, 'for a mask tied to dimensions %s, a variable with dimensions %s, mask shape %s and value shape %s the mask is %s: '
                                  'a positional mask then %s' % (wrong[0], wrong[1], wrong[2], wrong[3], 'applied' if wrong[4] else 'not applied',
                                                                  'hits variables it was not given for (or raises on a shape it does not fit)' if wrong[4] else 'is silently ignored')))
        elif unk:
            ctx.undec('R-WHEREAPPLY', 'condition', wmask, 'condition outside the evaluated fragment: %s' % norm(wcond.test)[:80])
        else:
            ctx.ok('R-WHEREAPPLY', 'condition', wmask, '%d cases (tied/untied x same/other dimensions x same/other shape) as stated' % len(cases))


CARRY = ('masked_where', 'masked_greater', 'masked_greater_equal', 'masked_less', 'masked_less_equal', 'masked_equal',
         'masked_not_equal', 'masked_inside', 'masked_outside', 'masked_invalid')
REBUILD = ('masked_values',)
MASKREAD = ('getmaskarray', 'getmask')


def _reads_mask_of(e, datatext):
    """does expression e read the mask of the expression spelled datatext?"""
    for n in walk_expr(e):
        if isinstance(n, ast.Call) and (dotted(n.func) or '').split('.')[-1] in MASKREAD and n.args and norm(n.args[0]) == datatext:
            return True
        if isinstance(n, ast.Attribute) and n.attr in ('mask', '_mask') and norm(n.value) == datatext:
            return True
    return False


def _names(e):
    return set(n.id for n in ast.walk(e) if isinstance(n, ast.Name))


def _stores(st, name):
    for n in ast.walk(st):
        if isinstance(n, ast.Name) and n.id == name and isinstance(n.ctx, ast.Store):
            return True
    return False


def _block_of(st):
    p = getattr(st, '_parent', None)
    for f in ('body', 'orelse', 'finalbody'):
        b = getattr(p, f, None)
        if isinstance(b, list) and st in b:
            return b
    return None


def check_mask_carry(ctx, fn, vloop, q, where):
    n = 0
    for c in [c for st in vloop.body for c in walk_expr(st) if isinstance(c, ast.Call)]:
        d = dotted(c.func) or ''
        last = d.split('.')[-1]
        if not (last.startswith('masked_') and d.startswith(('np.ma.', 'numpy.ma.', 'ma.'))):
            continue
        n += 1
        st = _stmt(c)
        oid = '%s@%s' % (last, norm(c.args[1] if last == 'masked_where' and len(c.args) > 1 else c.args[0]) if c.args else last)
        if last in CARRY:
            ctx.ok('R-MASKCARRY', oid, where, 'np.ma.%s ors the incoming mask into its result' % last)
            continue
        if last not in REBUILD:
            ctx.undec('R-MASKCARRY', oid, where, 'np.ma.%s is not in the contract table' % last)
            continue
        data = c.args[0] if c.args else None
        datatext = norm(data) if data is not None else None
        # (a) nested: masked_where(<mask of the same data>, masked_values(data, v))
        outer = getattr(c, '_parent', None)
        nested = isinstance(outer, ast.Call) and (dotted(outer.func) or '').split('.')[-1] == 'masked_where' and len(outer.args) > 1 \
            and outer.args[1] is c and _reads_mask_of(outer.args[0], datatext)
        if nested:
            ctx.ok('R-MASKCARRY', oid, where, 'np.ma.%s result is re-masked with the mask of its own input in the same expression' % last)
            continue
        # (b) statement form: P = mask of run; run = masked_values(run, v); run = masked_where(.. P .., run)
        good = False
        why = 'the mask the values carry before np.ma.%s is not re-applied after it' % last
        blk = _block_of(st)
        if isinstance(st, ast.Assign) and len(st.targets) == 1 and isinstance(st.targets[0], ast.Name) and isinstance(data, ast.Name) \
                and st.targets[0].id == data.id and blk is not None:
            run = data.id
            i = blk.index(st)
            saved = set()
            for prev in blk[:i]:
                if _stores(prev, run):
                    saved = set()
                if isinstance(prev, ast.Assign) and len(prev.targets) == 1 and isinstance(prev.targets[0], ast.Name) \
                        and _reads_mask_of(prev.value, run):
                    saved.add(prev.targets[0].id)
                else:
                    saved -= set(p for p in saved if _stores(prev, p))
            for nxt in blk[i + 1:]:
                hit = False
                for c2 in walk_expr(nxt):
                    if isinstance(c2, ast.Call) and (dotted(c2.func) or '').split('.')[-1] == 'masked_where' and len(c2.args) > 1 \
                            and norm(c2.args[1]) == run and (_names(c2.args[0]) & saved):
                        hit = True
                if hit and isinstance(nxt, ast.Assign) and len(nxt.targets) == 1 and norm(nxt.targets[0]) == run:
                    good = True
                    break
                if _stores(nxt, run) or any(_stores(nxt, p) for p in saved):
                    break
            if not saved:
                why = 'the mask the values carry before np.ma.%s is not read before the call, so it cannot be re-applied' % last
        if good:
            ctx.ok('R-MASKCARRY', oid, where, 'mask read before np.ma.%s and re-applied with masked_where right after it' % last)
        else:
            ctx.violation(Finding('R-MASKCARRY', FILES, q, st,
                                  'np.ma.%s rebuilds the mask from filled(x, value): cells masked in the input or by an earlier predicate '
                                  'come back unmasked (holding int(value)) for integer data and a fractional value; %s' % (last, why)), oid=oid)
    if n < 8:
        raise AnalysisError('R-MASKCARRY: only %d masked_* calls found in the variable loop of mask() (8 confirmed by reading)' % n)


def _stmt(node):
    p = node
    while p is not None and not isinstance(p, ast.stmt):
        p = getattr(p, '_parent', None)
    return p if p is not None else node
