"""C03 - apply-along-dimension: the structural necessary conditions of PseudoNetCDFFile.applyAlongDimensions.

R-AXISOFVAR   inside the per-variable loop the axis handed to the reducer / to numpy.apply_along_axis is the index of the named dimension
              in *that variable's* dimension tuple (enumerate(<var>.dimensions)); the named-reducer call and the callable call use the
              same axis variable and the running value.
R-KEEPDIMS    a named reducer is called as getattr(values, name)(axis=<axis>, keepdims=True): the reduced axis is retained, so axis
              indices of the dimensions still to be processed stay valid and the shape matches the new dimension length 1.
R-DIMLENOUT   the new length of a processed dimension is the size of the same function applied to that dimension's coordinate values
              (or arange(len)), named reducers with keepdims=True; unprocessed dimensions keep len(dim).
R-MASKKEEP    between reading the variable and storing the result there is no mask-dropping conversion (masked elements are excluded as
              masked-array arithmetic does).
R-UNTOUCHED   every variable is copied to the output and assigned the running value, so variables without the named dimensions pass
              through unchanged; only dimensions named in the call are processed (`if dk in dimfuncs`).
R-WRAPPER     the IOAPI wrapper delegates the computation to the base method with the caller's arguments.

NOT decided: equality of the values with the numpy reduction for every shape, reducer and mask; commutation of reducers.
"""
import ast
import re

from ..engine import AnalysisError, dotted, iter_stmts, norm, kw, const_str, walk_expr
from ..report import Finding
from .. import api
from .c06 import drops_mask

LEVEL_TEXT = (
    "Static necessary conditions of applyAlongDimensions (ast): per-variable axis lookup, keepdims=True for named reducers, one axis "
    "variable for both call forms, new dimension lengths measured with the same function on the coordinate, no mask-dropping conversion "
    "on the value path, every variable stored, the IOAPI wrapper delegating with the caller's arguments. Each is needed for the result to "
    "equal the axis-wise reduction on ordinary inputs (a variable that carries the dimension at another position, masked data, more than "
    "one reduced dimension). Equality of values for every shape/reducer/mask is numpy arithmetic at run time and is not decided.")

RP = 'core/_files.py'
Q = 'PseudoNetCDFFile.applyAlongDimensions'


def run(ctx):
    for r, d in (('R-AXISOFVAR', "the axis is the position of the dimension in the current variable's dimension tuple"),
                 ('R-KEEPDIMS', 'named reducers are called with axis=<that axis> and keepdims=True'),
                 ('R-DIMLENOUT', 'new dimension length = size of the same function applied to the coordinate; others keep their length'),
                 ('R-MASKKEEP', 'no mask-dropping conversion between the variable and the stored result'),
                 ('R-UNTOUCHED', 'every variable is stored; only named dimensions are processed'),
                 ('R-WRAPPER', 'the IOAPI wrapper delegates to the base method with *args, **kwds')):
        ctx.rule(r, d)
    from .. import lints as _l
    ctx.rule('R-FUZZYDIM', "reduce_dim: a request for dimension D is extended only to the companion dimensions named 'D<digits>'")
    ctx.floor('companion conditions judged by R-FUZZYDIM', _l.fuzzy_companions(ctx, 'R-FUZZYDIM', 'core/_functions.py', 'reduce_dim'), 1)
    mod = ctx.src.mod(RP)
    fn = mod.func(Q)
    where = 'src/PseudoNetCDF/%s %s' % (RP, Q)
    # R-CONVCALL: the per-lane function of convolve_dim is numpy's convolution (correlation mirrors an asymmetric kernel)
    ctx.rule('R-CONVCALL', 'convolve_dim applies np.convolve(weights, lane) along the axis (np.correlate mirrors every non-palindromic kernel)')
    cf = ctx.src.mod('core/_functions.py').func('convolve_dim')
    wcf = 'src/PseudoNetCDF/core/_functions.py convolve_dim'
    localdefs = set(x.name for x in ast.walk(cf) if isinstance(x, (ast.FunctionDef, ast.Lambda)) and x is not cf and hasattr(x, 'name'))
    lanes = [c for c in ast.walk(cf) if isinstance(c, ast.Call) and (dotted(c.func) or '').split('.')[-1] in ('convolve', 'correlate', 'fftconvolve', 'convolve1d', 'correlate1d')
             and not (isinstance(c.func, ast.Name) and c.func.id in localdefs)]       # a helper defined inside the function is not the library routine of that name
    if not lanes:
        ctx.undec('R-CONVCALL', 'lane function', wcf, 'no convolution call found')
    for c in lanes:
        nm_ = (dotted(c.func) or '')
        if nm_.split('.')[-1] in ('convolve', 'fftconvolve') and any('weights' in norm(a) for a in c.args):
            ctx.ok('R-CONVCALL', 'lane function', wcf, norm(c)[:60])
        else:
            ctx.violation(Finding('R-CONVCALL', 'core/_functions.py', 'convolve_dim', api.stmt_of(c), '%s is not a convolution with the given weights: np.correlate applies the kernel mirrored, so every '
                                  'non-palindromic kernel (0.75,0.25 / 1,-1) gives other values and a shifted coordinate' % nm_))
    # the weights handed to the convolution are the numbers of the definition: parsed / converted, never rescaled on the way
    for wname in set(n_.id for c in lanes for a in c.args for n_ in ast.walk(a) if isinstance(n_, ast.Name) and 'weight' in n_.id):
        for st in iter_stmts(cf.body):
            tg = st.targets if isinstance(st, ast.Assign) else ([st.target] if isinstance(st, ast.AugAssign) else [])
            if any(isinstance(t, ast.Name) and t.id == wname for t in tg):
                arith = isinstance(st, ast.AugAssign) or any(isinstance(x, ast.BinOp) and any(isinstance(y, ast.Name) and y.id == wname for y in ast.walk(x)) for x in ast.walk(st.value))
                if arith:
                    ctx.violation(Finding('R-CONVCALL', 'core/_functions.py', 'convolve_dim', st, 'the weights of the definition are rescaled before the convolution (%s): the result equals '
                                          'numpy.convolve with the given weights only when they already had that scale (1,1 comes out halved, 1,-1 is divided by zero)' % norm(st)[:50]))
                else:
                    ctx.ok('R-CONVCALL', 'weights:%s' % norm(st)[:30], wcf, 'weights taken from the definition as they are')
    vloops = [st for st in fn.body if isinstance(st, ast.For) and 'self.variables.items()' in norm(st.iter)]
    if not vloops:
        raise AnalysisError('anchor vanished: per-variable loop of applyAlongDimensions')
    vl = vloops[-1]
    vname = vl.target.elts[1].id if isinstance(vl.target, ast.Tuple) else None
    # ---- axis source
    dimsname = None
    for st in vl.body:
        if isinstance(st, ast.Assign) and isinstance(st.targets[0], ast.Name) and norm(st.value) in ('%s.dimensions' % vname, 'tuple(%s.dimensions)' % vname, 'list(%s.dimensions)' % vname):
            dimsname = st.targets[0].id
    enum = [st for st in iter_stmts(vl.body) if isinstance(st, ast.Assign) and any(isinstance(c, ast.Call) and dotted(c.func) == 'enumerate' for c in ast.walk(st.value))]
    inner = [st for st in iter_stmts(vl.body) if isinstance(st, ast.For) and isinstance(st.target, ast.Tuple) and len(st.target.elts) == 2]
    axisvar = None
    from .. import paths as _paths
    dkn_idx = None
    idxloop = None
    if not inner and dimsname:
        # index loop: for I in range(.. len(<dims>) ..): K = <dims>[I]   (<dims> = any name that holds the variable's dimension names)
        dimaliases = set([dimsname])
        for st in vl.body:
            if isinstance(st, ast.Assign) and isinstance(st.targets[0], ast.Name) and (norm(st.value) in ['%s(%s)' % (f_, a_) for f_ in ('list', 'tuple') for a_ in dimaliases | set(['%s.dimensions' % vname])]
                                                                                         or norm(st.value) in dimaliases):
                dimaliases.add(st.targets[0].id)
        for st in iter_stmts(vl.body):
            if isinstance(st, ast.For) and isinstance(st.target, ast.Name) and isinstance(st.iter, ast.Call) and dotted(st.iter.func) in ('range', 'reversed') \
                    and any('len(%s)' % a_ in norm(st.iter) for a_ in dimaliases):
                for s2 in st.body:
                    if isinstance(s2, ast.Assign) and isinstance(s2.targets[0], ast.Name) and norm(s2.value) in ['%s[%s]' % (a_, st.target.id) for a_ in dimaliases]:
                        idxloop, dkn_idx = st, s2.targets[0].id
    if idxloop is not None:
        axisvar = idxloop.target.id
        ctx.ok('R-AXISOFVAR', 'axis source', where, 'for %s in %s with %s = %s[%s]' % (axisvar, norm(idxloop.iter)[:40], dkn_idx, dimsname, axisvar))
    elif inner:
        # the iterable with temporaries substituted and order/copy wrappers removed must be enumerate(<variable>.dimensions)
        it = inner[0].iter
        for pth in _paths.enumerate_paths(vl.body):
            res = _paths.expand(pth)
            hit = [new for st, new in res.stmts if st is inner[0]]
            if hit and res.feasible:
                it = hit[0].iter
                break
        e = it
        while True:
            if isinstance(e, ast.Call) and isinstance(e.func, ast.Name) and e.func.id in ('list', 'tuple', 'reversed') and len(e.args) == 1:
                e = e.args[0]
            elif isinstance(e, ast.Subscript) and isinstance(e.slice, ast.Slice):
                e = e.value
            else:
                break
        src_ok = isinstance(e, ast.Call) and dotted(e.func) == 'enumerate' and len(e.args) == 1 and norm(e.args[0]) == '%s.dimensions' % vname
        axisvar = inner[0].target.elts[0].id if isinstance(inner[0].target.elts[0], ast.Name) else None
        if src_ok and axisvar:
            ctx.ok('R-AXISOFVAR', 'axis source', where, 'for %s in %s over enumerate(%s.dimensions)' % (norm(inner[0].target), norm(it)[:30], vname))
        else:
            ctx.violation(Finding('R-AXISOFVAR', RP, Q, inner[0], "the axis index does not come from enumerate(%s.dimensions) of the variable being processed: variables that carry the dimension at another "
                                  'position are reduced along the wrong axis' % vname))
    else:
        # axis = <var>.dimensions.index(dk) form
        idx = [st for st in iter_stmts(vl.body) if isinstance(st, ast.Assign) and '.index(' in norm(st.value) and ('%s.dimensions' % vname in norm(st.value) or (dimsname and dimsname in norm(st.value)))]
        if idx:
            axisvar = norm(idx[0].targets[0])
            ctx.ok('R-AXISOFVAR', 'axis source', where, norm(idx[0]))
        else:
            ctx.undec('R-AXISOFVAR', 'axis source', where, 'axis lookup not in a recognised form')
    # ---- axis order: a callable may drop its axis (np.apply_along_axis with a scalar result); processing the last axis first keeps
    # the numbers of the axes still to come
    ctx.rule('R-AXISORDER', 'the per-axis loop of applyAlongDimensions runs from the last axis to the first')
    lp_o = (inner[0] if inner else idxloop)
    if lp_o is None:
        ctx.undec('R-AXISORDER', 'axis loop', where, 'loop not recognised')
    else:
        it_txt = norm(lp_o.iter)
        if isinstance(lp_o.iter, ast.Name):
            defs_ = [st for st in iter_stmts(vl.body) if isinstance(st, ast.Assign) and isinstance(st.targets[0], ast.Name) and st.targets[0].id == lp_o.iter.id]
            it_txt = norm(defs_[-1].value) if defs_ else it_txt
            # the reversal may be applied where the name is used
        rev = '[::-1]' in norm(lp_o.iter) or '[::-1]' in it_txt or 'reversed(' in it_txt or 'reversed(' in norm(lp_o.iter) or bool(re.search(r'range\(.*- 1, -1, -1\)', norm(lp_o.iter)))
        if rev:
            ctx.ok('R-AXISORDER', 'axis loop', where, 'iterates %s' % norm(lp_o.iter)[:50])
        else:
            ctx.violation(Finding('R-AXISORDER', RP, Q, lp_o, 'the axes are processed first to last (%s): a callable that returns a scalar drops its axis, the numbers of the later axes shift, and a call that '
                                  'names two dimensions raises or reduces the wrong axis' % norm(lp_o.iter)[:40]))
    # ---- the two call forms
    named = [c for c in ast.walk(vl) if isinstance(c, ast.Call) and isinstance(c.func, ast.Call) and dotted(c.func.func) == 'getattr']
    applyc = [c for c in ast.walk(vl) if isinstance(c, ast.Call) and (dotted(c.func) or '').endswith('apply_along_axis')]
    run_name = None
    for st in vl.body:
        if run_name is None and isinstance(st, ast.Assign) and isinstance(st.targets[0], ast.Name) and \
                any(norm(x) in ('%s[...]' % vname, '%s[:]' % vname) for x in ast.walk(st.value) if isinstance(x, ast.Subscript)):
            run_name = st.targets[0].id
    if not named or not applyc or run_name is None:
        raise AnalysisError('construct not understood: reducer call forms of applyAlongDimensions')
    for c in named:
        ax, kd = kw(c, 'axis'), kw(c, 'keepdims')
        recv = norm(c.func.args[0])
        oid = 'named reducer@%d' % c.lineno
        if ax is None or axisvar is None or norm(ax) != axisvar:
            ctx.violation(Finding('R-KEEPDIMS', RP, Q, api.stmt_of(c), 'the named reducer is called with axis=%s, not the axis of the dimension in this variable (%s)' % (norm(ax) if ax is not None else None, axisvar)), oid=oid)
        elif kd is None or not (isinstance(kd, ast.Constant) and kd.value is True):
            ctx.violation(Finding('R-KEEPDIMS', RP, Q, api.stmt_of(c), 'the named reducer is called without keepdims=True: the reduced axis disappears, the axis indices of the dimensions still to be processed '
                                  'shift, and the result no longer has the shape of the output variable'), oid=oid)
        elif recv != run_name:
            ctx.violation(Finding('R-KEEPDIMS', RP, Q, api.stmt_of(c), 'the reducer is applied to %s, not to the running value %s: earlier reductions of the same variable are thrown away' % (recv, run_name)), oid=oid)
        else:
            ctx.ok('R-KEEPDIMS', oid, where, norm(c)[:70])
    for c in applyc:
        oid = 'apply_along_axis@%d' % c.lineno
        a = [norm(x) for x in c.args]
        axis_a = a[1] if len(a) > 1 else (norm(kw(c, 'axis')) if kw(c, 'axis') is not None else None)
        arr_a = a[2] if len(a) > 2 else (norm(kw(c, 'arr')) if kw(c, 'arr') is not None else None)
        if axis_a == axisvar and arr_a == run_name:
            ctx.ok('R-AXISOFVAR', oid, where, norm(c)[:70])
        else:
            ctx.violation(Finding('R-AXISOFVAR', RP, Q, api.stmt_of(c), 'apply_along_axis is called with axis %s on %s; the axis of the dimension in this variable is %s and the running value is %s' % (
                axis_a, arr_a, axisvar, run_name)), oid=oid)
    # ---- value path and store
    stores = [st for st in vl.body if isinstance(st, ast.Assign) and isinstance(st.targets[0], ast.Subscript) and norm(st.value) == run_name]
    copyv = [c for st in vl.body for c in ast.walk(st) if isinstance(c, ast.Call) and (dotted(c.func) or '').endswith('.copyVariable')]
    if stores and copyv and getattr(api.stmt_of(copyv[0]), '_parent', None) is vl:
        ctx.ok('R-UNTOUCHED', 'store', where, 'every variable: copyVariable(..., withdata=False) then [...] = %s (outside any dimension test)' % run_name)
    else:
        ctx.violation(Finding('R-UNTOUCHED', RP, Q, vl, 'not every variable is copied and assigned the running value at the end of the loop body: variables without the named dimensions are missing or empty in the result'))
    # ---- R-RESDTYPE: the output variable takes the type of the computed values (the mean of integers is not an integer)
    ctx.rule('R-RESDTYPE', 'the output variable of applyAlongDimensions is created with the dtype of the computed values, not with that of the input variable')
    for c in copyv[:1]:
        if getattr(api.stmt_of(c), '_parent', None) is not vl:
            continue
        dt = kw(c, 'dtype')
        if dt is None and len(c.args) > 2:
            dt = c.args[2]
        dtn = norm(dt) if dt is not None else None
        if dtn in ('%s.dtype' % run_name, '%s.dtype.char' % run_name, '%s.dtype.str' % run_name, 'np.asarray(%s).dtype' % run_name, 'np.asanyarray(%s).dtype' % run_name):
            ctx.ok('R-RESDTYPE', 'store', where, 'copyVariable(..., dtype=%s)' % dtn)
        elif dt is None:
            ctx.violation(Finding('R-RESDTYPE', RP, Q, api.stmt_of(c), 'the output variable is created with the type of the input variable and the result is cast into it: the mean (std, a convolution) '
                                  'of an integer variable is truncated to integers ([1, 2] -> 1 instead of 1.5)'))
        else:
            ctx.violation(Finding('R-RESDTYPE', RP, Q, api.stmt_of(c), 'the output variable is created with dtype %s, not with the dtype of the computed values %s' % (dtn, run_name)))
    # on every path of the per-axis loop body on which the running value is replaced, the dimension was found among the named ones
    unguarded, nrepl, skipped = None, 0, None
    if inner or idxloop is not None:
        lp_ = inner[0] if inner else idxloop
        dkn = dkn_idx if idxloop is not None and not inner else (inner[0].target.elts[1].id if isinstance(inner[0].target.elts[1], ast.Name) else None)
        for pth in _paths.enumerate_paths(lp_.body):
            repl = [st for st in pth.stmts if isinstance(st, (ast.Assign, ast.AugAssign)) and any(isinstance(t, ast.Name) and t.id == run_name for t in (st.targets if isinstance(st, ast.Assign) else [st.target]))]
            if not repl:
                # a named dimension that is skipped: the reducer is not applied along it although it was asked for
                if pth.exit[0] != 'raise' and any(pth.polarity(t) is True for t in ('%s in dimfuncs' % dkn, '%s in dimfuncs.keys()' % dkn)):
                    extra = [norm(e) for e, p_ in pth.conds if norm(e) not in ('%s in dimfuncs' % dkn, '%s in dimfuncs.keys()' % dkn) and 'verbose' not in norm(e)]
                    skipped = (pth, extra)
                continue
            nrepl += 1
            if not any(pth.polarity(t) is True for t in ('%s in dimfuncs' % dkn, '%s in dimfuncs.keys()' % dkn)):
                unguarded = repl[0]
    if nrepl == 0:
        raise AnalysisError('construct not understood: the running value is never replaced in the per-axis loop')
    if skipped is not None:
        ctx.violation(Finding('R-UNTOUCHED', RP, Q, inner[0], 'a dimension named in the call is not processed when %s: the function is not applied along it' % (' / '.join(skipped[1]) or 'some path is taken')), oid='guard')
    elif unguarded is None:
        ctx.ok('R-UNTOUCHED', 'guard', where, 'only dimensions named in the call are processed (%d replacing paths, all under `in dimfuncs`)' % nrepl)
    else:
        ctx.violation(Finding('R-UNTOUCHED', RP, Q, unguarded, 'the processing of a variable axis is not guarded by `dk in dimfuncs`'), oid='guard')
    bad = None
    for st in iter_stmts(vl.body):
        if isinstance(st, ast.Assign) and (norm(st.targets[0]) == run_name or st in stores):
            d_ = drops_mask(st.value)
            if d_ is not None:
                bad = (st, d_)
    if bad:
        ctx.violation(Finding('R-MASKKEEP', RP, Q, bad[0], 'the values pass through %s: masked elements take part in the reduction / come back unmasked' % norm(bad[1])[:40]))
    else:
        ctx.ok('R-MASKKEEP', 'value path', where, '%s -> reducers -> store without a mask-dropping conversion' % run_name)
    # ---- dimension lengths
    dloops = [st for st in fn.body if isinstance(st, ast.For) and 'dimfuncs.items()' in norm(st.iter)]
    if not dloops:
        raise AnalysisError('anchor vanished: dimension-length loop of applyAlongDimensions')
    dl = dloops[0]
    if not (isinstance(dl.target, ast.Tuple) and len(dl.target.elts) == 2 and all(isinstance(e, ast.Name) for e in dl.target.elts)):
        raise AnalysisError('construct not understood: target of the dimension-length loop')
    kvar, fvar = dl.target.elts[0].id, dl.target.elts[1].id
    # path-wise with temporaries substituted (paths.py): what is stored under the processed key on each path through the loop body
    from .. import paths as _paths
    okn = okc = None
    nstores = 0
    table = None
    for pth in _paths.enumerate_paths(dl.body):
        if pth.exit[0] == 'raise':
            continue
        res = _paths.expand(pth)
        if not res.feasible:
            continue
        ex = res.stmts
        stored = [(st, new) for st, new in ex if isinstance(st, ast.Assign) and isinstance(st.targets[0], ast.Subscript)
                  and norm(st.targets[0].slice) == kvar and isinstance(st.targets[0].value, ast.Name)]
        if not stored:
            continue
        st, new = stored[-1]
        table = st.targets[0].value.id
        nstores += 1
        t = norm(new.value)
        isstr = res.polarity('isinstance(%s, str)' % fvar)
        named_in = res.polarity('%s in dimfuncs' % kvar)
        v = new.value
        sized = isinstance(v, ast.Attribute) and v.attr == 'size' and isinstance(v.value, ast.Call)
        call = v.value if sized else None
        coord = ('self.variables[%s]' % kvar, 'arange(len(')
        if isstr is True:
            good = sized and isinstance(call.func, ast.Call) and dotted(call.func.func) == 'getattr' and len(call.func.args) == 2 \
                and norm(call.func.args[1]) == fvar and any(c in norm(call.func.args[0]) for c in coord) \
                and isinstance(kw(call, 'keepdims'), ast.Constant) and kw(call, 'keepdims').value is True
            if good:
                okn = okn or st
            else:
                ctx.violation(Finding('R-DIMLENOUT', RP, Q, st, 'for a named reducer the new length of the dimension is %s, not the size of getattr(<coordinate values>, %s)(keepdims=True)' % (t[:80], fvar)), oid='named:' + t[:30])
                okn = False if okn is None else okn
        elif isstr is False:
            good = sized and isinstance(call.func, ast.Name) and call.func.id == fvar and call.args and any(c in norm(call.args[0]) for c in coord)
            if good:
                okc = okc or st
            else:
                ctx.violation(Finding('R-DIMLENOUT', RP, Q, st, 'for a callable the new length of the dimension is %s, not the size of %s(<coordinate values>)' % (t[:80], fvar)), oid='callable:' + t[:30])
                okc = False if okc is None else okc
        elif named_in is False and t in ('len(dv)', 'len(self.dimensions[%s])' % kvar):
            pass
        else:
            ctx.violation(Finding('R-DIMLENOUT', RP, Q, st, 'the new length of the dimension is %s, not the size of the function output on the coordinate values' % t[:80]), oid=t[:40])
    if okn and okc:
        ctx.ok('R-DIMLENOUT', 'measured', where, 'named: %s ; callable: %s' % (norm(okn.value)[:50], norm(okc.value)[:30]))
    elif nstores == 0:
        raise AnalysisError('construct not understood: no store of the new dimension length under the loop key in the dimension-length loop')
    elif okn is None or okc is None:
        ctx.violation(Finding('R-DIMLENOUT', RP, Q, dl, 'the new dimension length is not measured with the same function on the coordinate for %s reducers' % ('named' if not okn else 'callable')), oid='measured')
    # the output dimensions are created with the stored lengths (the temporary between table and call, if any, is substituted)
    applied = None
    cdstmt = None
    for lp in [st for st in fn.body if isinstance(st, ast.For) and st is not dl]:
        for pth in _paths.enumerate_paths(lp.body):
            ex, env = _paths.expand(pth)
            for st, new in ex:
                for c in ast.walk(new):
                    if isinstance(c, ast.Call) and (dotted(c.func) or '').endswith('.copyDimension') and kw(c, 'dimlen') is not None:
                        cdstmt = st
                        lk = lp.target.elts[0].id if isinstance(lp.target, ast.Tuple) and isinstance(lp.target.elts[0], ast.Name) else (lp.target.id if isinstance(lp.target, ast.Name) else None)
                        if table and norm(kw(c, 'dimlen')) == '%s[%s]' % (table, lk) and kw(c, 'key') is not None and norm(kw(c, 'key')) == lk:
                            applied = applied if applied is False else c
                        else:
                            applied = False
    if applied:
        ctx.ok('R-DIMLENOUT', 'applied', where, norm(applied)[:60])
    elif cdstmt is None:
        raise AnalysisError('construct not understood: no copyDimension(..., dimlen=...) loop in applyAlongDimensions')
    else:
        ctx.violation(Finding('R-DIMLENOUT', RP, Q, cdstmt, 'the output dimensions are not created with the measured lengths'), oid='applied')
    # ---- wrapper
    io = ctx.src.mod('cmaqfiles/_ioapi.py')
    wf = io.func('ioapi_base.applyAlongDimensions')
    first = [st for st in wf.body if isinstance(st, ast.Assign) and 'PseudoNetCDFFile.applyAlongDimensions(self, *args, **kwds)' in norm(st.value)]
    if first:
        ctx.ok('R-WRAPPER', 'ioapi', 'src/PseudoNetCDF/cmaqfiles/_ioapi.py ioapi_base.applyAlongDimensions', norm(first[0])[:80])
    else:
        ctx.violation(Finding('R-WRAPPER', 'cmaqfiles/_ioapi.py', 'ioapi_base.applyAlongDimensions', wf.body[-1], 'the IOAPI wrapper does not delegate to the base method with the caller\'s arguments'))
    # the wrapper leaves the time flags alone (a reduction along LAY/ROW/COL must not rewrite a variable that lacks those dimensions)
    forced = [c for c in ast.walk(wf) if isinstance(c, ast.Call) and (dotted(c.func) or '').endswith('.updatetflag') and
              ((kw(c, 'overwrite') is not None and not (isinstance(kw(c, 'overwrite'), ast.Constant) and kw(c, 'overwrite').value in (None, False))) or
               (c.args and not (isinstance(c.args[0], ast.Constant) and c.args[0].value in (None, False))))]
    dels = [st for st in iter_stmts(wf.body) if isinstance(st, ast.Delete) and "variables['TFLAG']" in norm(st)]

    def under_tstep(n):
        # inside `if 'TSTEP' in kwds:` TFLAG is one of the processed variables (it has that dimension): rebuilding it there is the
        # wrapper's business (C10, R-TIMEREDUCE), not a change to a variable that lacks the processed dimensions
        from ..engine import parent_chain as _pc
        return any(isinstance(p_, ast.If) and norm(p_.test) in ("'TSTEP' in kwds", "'TSTEP' in kwds.keys()") and any(n is x for b_ in p_.body for x in ast.walk(b_)) for p_ in _pc(n))
    forced = [c for c in forced if not under_tstep(c)]
    dels = [st for st in dels if not under_tstep(st)]
    if forced or dels:
        ctx.violation(Finding('R-UNTOUCHED', 'cmaqfiles/_ioapi.py', 'ioapi_base.applyAlongDimensions', api.stmt_of(forced[0]) if forced else dels[0], 'the wrapper regenerates TFLAG as a regular series after every call: a reduction along '
                              'LAY/ROW/COL rewrites the time flags, a variable that lacks those dimensions (files with irregular time flags lose them)'), oid='wrapper:tflag')
    else:
        ctx.ok('R-UNTOUCHED', 'wrapper:tflag', 'src/PseudoNetCDF/cmaqfiles/_ioapi.py ioapi_base.applyAlongDimensions', 'no forced regeneration of TFLAG')
    # ---- the string form: reduce_dim keeps the reduced axis in every branch (the result is stored with the source's dimension tuple)
    rd = ctx.src.mod('core/_functions.py').func('reduce_dim')
    wrd = 'src/PseudoNetCDF/core/_functions.py reduce_dim'
    ngf = 0
    for c in walk_expr(rd):
        if isinstance(c, ast.Call) and isinstance(c.func, ast.Call) and (dotted(c.func.func) or '') == '_getfunc':
            ngf += 1
            kd = kw(c, 'keepdims')
            if kd is not None and isinstance(kd, ast.Constant) and kd.value is True:
                ctx.ok('R-KEEPDIMS', 'reduce_dim:%s' % norm(c)[:40], wrd, 'keepdims=True')
            else:
                ctx.violation(Finding('R-KEEPDIMS', 'core/_functions.py', 'reduce_dim', api.stmt_of(c), 'the reducer chosen by _getfunc is called without keepdims=True: for an array method the reduced axis '
                                      'disappears, and the result is stored under the dimension names of the source (a `time` variable of shape () with dimensions (time,))'))
    ctx.floor('reducer calls in reduce_dim', ngf, 3)
    # ---- the level edges the wrapper recomputes follow the new layers in their order (no sorting / de-duplication of the edge values)
    ctx.rule('R-EDGEORDER', 'IOAPI wrapper: the recomputed level edges keep the order and the number of the new layers (not sorted, reversed or made unique)')
    vst = [st for st in iter_stmts(wf.body) if isinstance(st, ast.Assign) and any(isinstance(t, ast.Attribute) and t.attr == 'VGLVLS' for t in st.targets)]
    wio = 'src/PseudoNetCDF/cmaqfiles/_ioapi.py ioapi_base.applyAlongDimensions'
    if not vst:
        ctx.undec('R-EDGEORDER', 'VGLVLS', wio, 'the wrapper stores no VGLVLS')
    wenv = dict((st.targets[0].id, st.value) for st in iter_stmts(wf.body) if isinstance(st, ast.Assign) and len(st.targets) == 1 and isinstance(st.targets[0], ast.Name))
    for st in vst:
        reorder = None
        work, seen = [st.value], set()
        while work:
            e = work.pop()
            for n_ in walk_expr(e):
                if isinstance(n_, ast.Call) and (dotted(n_.func) or norm(n_.func)).split('.')[-1] in ('unique', 'sort', 'sorted', 'set', 'argsort', 'flip', 'flipud', 'reversed', 'union1d'):
                    reorder = reorder or norm(n_)[:50]
                if isinstance(n_, ast.Subscript) and isinstance(n_.slice, ast.Slice) and n_.slice.step is not None and norm(n_.slice.step) == '-1':
                    reorder = reorder or norm(n_)[:50]
                if isinstance(n_, ast.Name) and n_.id in wenv and n_.id not in seen and n_.id not in ('outf', 'self', 'kwds'):
                    seen.add(n_.id)
                    if not (isinstance(wenv[n_.id], ast.Call) and (dotted(wenv[n_.id].func) or '').endswith('applyAlongDimensions')):
                        work.append(wenv[n_.id])
        if reorder:
            ctx.violation(Finding('R-EDGEORDER', 'cmaqfiles/_ioapi.py', 'ioapi_base.applyAlongDimensions', st, 'the level edges are put in an order of their own (%s): for levels that increase upward they come out '
                                  'reversed, and a function that skips layers leaves more than NLAYS+1 edges' % reorder))
        else:
            ctx.ok('R-EDGEORDER', 'VGLVLS', wio, 'edges taken from the bounds of the new layers in layer order')
    # ---- the string forms (reduce_dim / -r): for masked data the masked-array function is chosen before the plain numpy one
    ctx.rule('R-MAFIRST', '_getfunc: for a reducer that is not an array method, masked arrays get numpy.ma.<name> before numpy.<name> is considered')
    gfm = ctx.src.mod('core/_functions.py')
    gf = gfm.func('_getfunc')
    wgf = 'src/PseudoNetCDF/core/_functions.py _getfunc'
    order = []
    def chain(st):
        while isinstance(st, ast.If):
            order.append(norm(st.test))
            st = st.orelse[0] if len(st.orelse) == 1 and isinstance(st.orelse[0], ast.If) else None
    for st in iter_stmts(gf.body):
        if isinstance(st, ast.If) and norm(st.test).startswith('hasattr(a, func)'):
            chain(st)
            break
    ima = [i for i, t in enumerate(order) if 'MaskedArray' in t]
    inp = [i for i, t in enumerate(order) if t == 'hasattr(np, func)']
    if not ima or not inp:
        ctx.undec('R-MAFIRST', '_getfunc', wgf, 'branch chain not recognised: %s' % order)
    elif ima[0] < inp[0]:
        ctx.ok('R-MAFIRST', '_getfunc', wgf, ' -> '.join(order))
    else:
        ctx.violation(Finding('R-MAFIRST', 'core/_functions.py', '_getfunc', gf.body[0], 'numpy.<name> is tried before numpy.ma.<name>: a reducer such as median on a masked variable is computed by the plain numpy function, '
                              'which ignores the mask, so masked elements enter the result'))
    ctx.assumptions += ['numpy: ndarray/MaskedArray reducers accept axis= and keepdims=; numpy.apply_along_axis keeps the other axes in place',
                        'frozen table of mask-dropping numpy conversions (calibrated in the thorough tier)']
    # ---- R-PASSMASK: variables the string forms pass through keep their mask
    from .. import lints as _lp
    ctx.rule('R-PASSMASK', 'variables that an operation passes through unchanged keep their mask: the converter copy does not fill an in-memory masked target')
    _lp.converter_pass_through(ctx, 'R-PASSMASK', [('core/_functions.py', 'reduce_dim'), ('core/_functions.py', 'convolve_dim')])
