"""C01 - structurally well-formed files: unlimited flags and attribute lists.

R-UNLIM   every re-creation of a dimension that survives from a source object propagates the unlimited flag
          (pairing createDimension / setunlimited); copyDimension and Pseudo2NetCDF.addDimension, which
          discharge the obligation for their callers, are verified themselves.
R-NCATTR  only the life-cycle methods write the attribute-name list, and each keeps it paired with the
          attribute store, so every listed attribute is retrievable.
"""
import ast

from ..engine import AnalysisError, dotted, iter_stmts, norm, walk_expr, const_str, kw
from ..report import Finding
from .. import unlim as U
from .. import api

LEVEL_TEXT = (
    "Static pairing rules (ast): every createDimension of a key that survives from a source object is followed by a "
    "setunlimited derived from the source dimension (or goes through copyDimension / addDimension, whose branches are "
    "verified), and the attribute-name list is written only by the life-cycle methods in step with the attribute store. "
    "Shape/dimension agreement after arbitrary operation sequences and completion of in-domain operations depend on "
    "run-time shapes and are not decided.")

SCOPE = [('core/_files.py', None), ('core/_functions.py', None), ('cmaqfiles/_ioapi.py', None), ('pncgen.py', None)]
# in-place re-creation on self inside mutators-by-contract, stand-alone parents, format converters: out of scope (reason each)
OUT_OF_SCOPE = {
    'ioapi_base.getVarlist': 'mutator by contract: resizes the VAR dimension of self',
    'ioapi_base.updatemeta': 'mutator by contract',
    'ioapi_sort_meta': 'mutator by contract (re-creates from its own saved copy and propagates the flag - verified below)',
    'PseudoNetCDFFile.createDimension': 'the primitive itself',
    'netcdf.createDimension': 'delegates to netCDF4',
    'ioapi.createDimension': 'delegates to netCDF4',
    'PseudoNetCDFFile.copyDimension': 'verified separately (both branches)',
    'Pseudo2NetCDF.addDimension': 'verified separately',
    'mesh_dim': 'mutator by contract',
}
NCATTR_WRITERS = ('__new__', '__init__', '__setattr__', '__delattr__', '__array_finalize__', '_update_from', '__getitem__')


def check_unlim(ctx, files=None, rule='R-UNLIM'):
    src = ctx.src
    nsites = nobl = 0
    for rp, _ in SCOPE:
        if files is not None and rp not in files:
            continue
        mod = src.mod(rp)
        for q, fn in sorted(mod.functions.items()):
            if '<locals>' in q or q in OUT_OF_SCOPE:
                continue
            for call, stmt in U.create_dim_sites(fn):
                nsites += 1
                s = U.survives(fn, call, stmt)
                if s is None:
                    continue
                nobl += 1
                where = 'src/PseudoNetCDF/%s %s' % (rp, q)
                how = U.flag_propagated(fn, call, stmt)
                if how:
                    ctx.ok(rule, '%s:%s' % (q, norm(call)[:50]), where, 'key survives from %s; %s' % (s, how))
                else:
                    ctx.violation(Finding(rule, rp, q, stmt,
                                          'dimension %s survives from %s but is re-created without propagating its unlimited flag '
                                          '(no setunlimited derived from the source dimension follows on this path)' % (norm(call.args[0]), s)),
                                  oid='%s:%s' % (q, norm(call)[:50]))
    ctx.count('createDimension call sites examined', nsites)
    return nsites, nobl


def check_copydimension(ctx, rule='R-UNLIM'):
    mod = ctx.src.mod('core/_files.py')
    fn = mod.func('PseudoNetCDFFile.copyDimension')
    where = 'src/PseudoNetCDF/core/_files.py PseudoNetCDFFile.copyDimension'
    # path-wise (paths.py): the spelling of the branches (if/else, early return, conditional expression, negated test) is immaterial
    from .. import paths as _paths
    from ..unlim import _calls_isunlimited
    ps = [p_ for p_ in _paths.function_paths(fn) if _paths.expand(p_).feasible]
    flag = next((a.arg for a in fn.args.args if a.arg == 'unlimited'), None)
    if flag is None or len(fn.args.args) < 2:
        raise AnalysisError('construct not understood: copyDimension has no unlimited parameter')
    dimp = fn.args.args[1].arg
    dflt, ok_nc, ok_pnc = True, True, True
    seen_nc = seen_pnc = seen_dflt = False

    def is_kind_test(e):
        return isinstance(e, ast.Call) and isinstance(e.func, ast.Name) and e.func.id == 'isinstance' and e.args and norm(e.args[0]) == 'self'
    for pth in ps:
        if pth.exit[0] == 'raise':
            continue
        # (1) the flag defaults to the source dimension's and is not otherwise rebound
        isnone = pth.polarity('%s is None' % flag)
        sets = [st for st in pth.stmts if isinstance(st, ast.Assign) and any(isinstance(t, ast.Name) and t.id == flag for t in st.targets)
                and not (isinstance(st.value, ast.Name) and st.value.id == flag)]
        if isnone is True:
            seen_dflt = True
            if not (len(sets) == 1 and _calls_isunlimited(sets[0].value) and dimp + '.isunlimited()' in norm(sets[0].value)
                    and norm(sets[0].value).count(' and ') == 0 and norm(sets[0].value).count(' or ') == 0):
                dflt = False
        elif sets:
            dflt = False
        # (2) what is created
        created = pth.calls(attr='createDimension')
        if not created:
            continue
        kind = pth.decided(is_kind_test)
        # the class of self does not change between two tests: a path that decides isinstance(self, C) both ways does not exist
        # (paths.expand forgets decisions across a call, which is right for data but not for the type of the receiver)
        kpol = {}
        for e_, pol_ in kind:
            kpol.setdefault(norm(e_), set()).add(pol_)
        if any(len(v_) > 1 for v_ in kpol.values()):
            continue
        nc = kind[-1][1] if kind and 'netcdf' in norm(kind[-1][0]) else None
        ul = pth.polarity(flag)
        call, cst = created[-1]
        length = call.args[1] if len(call.args) > 1 else next((k.value for k in call.keywords if k.arg in ('length', 'size')), None)
        if len(created) != 1 or length is None:
            ok_nc = ok_pnc = False
            continue
        # a length chosen into a local first (`newlen = None` / `newlen = dimlen` in the branches, one createDimension(key, newlen)
        # afterwards) is that value on this path
        hops = 0
        while isinstance(length, ast.Name) and length.id != 'dimlen' and hops < 4:
            hops += 1
            defs_ = [st for st in pth.stmts if isinstance(st, ast.Assign) and len(st.targets) == 1 and isinstance(st.targets[0], ast.Name) and st.targets[0].id == length.id
                     and st.lineno <= cst.lineno]
            if not defs_:
                break
            length = defs_[-1].value
        bound = [t.id for t in getattr(cst, 'targets', []) if isinstance(t, ast.Name)] if isinstance(cst, ast.Assign) and cst.value is call else []
        ret = pth.exit[1] if pth.exit[0] == 'return' else None
        returned = ret is not None and ((isinstance(ret, ast.Name) and ret.id in bound) or (isinstance(ret, ast.Call) and norm(ret) == norm(call))
                                        or (cst is not None and isinstance(ret, ast.Call) and ret is call))
        if pth.exit[0] == 'return' and isinstance(ret, ast.Call) and norm(ret.func) == norm(call.func):
            returned = True
        if nc is True:
            seen_nc = True
            good = (ul is True and isinstance(length, ast.Constant) and length.value is None) or \
                   (ul is False and isinstance(length, ast.Name) and length.id == 'dimlen')
            if not (good and returned):
                ok_nc = False
        elif nc is False:
            seen_pnc = True
            sus = [c for c, st in pth.calls(attr='setunlimited') if (isinstance(c.func.value, ast.Name) and c.func.value.id in bound) or
                   (isinstance(c.func.value, ast.Call) and norm(c.func.value) == norm(call))]
            if sus:
                a0 = sus[-1].args[0] if sus[-1].args else None
                flag_ok = (isinstance(a0, ast.Name) and a0.id == flag) or (isinstance(a0, ast.Constant) and ul is not None and a0.value is ul)
            else:
                flag_ok = ul is False
            chained = any(isinstance(c.func.value, ast.Call) for c in sus)
            if not (flag_ok and isinstance(length, ast.Name) and length.id == 'dimlen' and (returned or chained)):
                ok_pnc = False
        else:
            # a dimension created without looking at the kind of file: netCDF4 dimensions have no setunlimited, in-memory ones no None length
            ok_nc = ok_pnc = False
    dflt = dflt and seen_dflt
    ok_nc = ok_nc and seen_nc
    ok_pnc = ok_pnc and seen_pnc
    single = True
    # optional parameters are tested with `is None` (0 is a valid length, '' is not a valid key but truthiness would also swallow 0)
    from .. import lints
    tg = lints.truthy_optional_guards(fn, ('dimlen', 'unlimited'))   # key is a name: '' is not a valid key, so truthiness is harmless there
    if tg:
        for st in tg:
            ctx.rule('R-NONEGUARD', "optional numeric parameters are tested with 'is None' (0 is a valid value)")
            ctx.violation(Finding('R-NONEGUARD', 'core/_files.py', 'PseudoNetCDFFile.copyDimension', st, "optional parameter tested with '%s': a requested length of 0 (an empty selection) is "
                                  'treated as "not given" and the dimension keeps its source length' % norm(st.test if isinstance(st, ast.If) else st.value)), oid='none-guard')
    else:
        ctx.rule('R-NONEGUARD', "optional numeric parameters are tested with 'is None' (0 is a valid value)")
        ctx.ok('R-NONEGUARD', 'copyDimension: optional parameters tested with is None', where, 'dimlen/key/unlimited')
    # no re-assignment of the flag
    for ok, oid, msg in ((dflt and single, 'flag default', 'the flag must default to dim.isunlimited() and not be reassigned'),
                         (ok_nc, 'netCDF branch', 'an unlimited source dimension must be created with size None on disk'),
                         (ok_pnc, 'in-memory branch', 'the new dimension must receive setunlimited(unlimited)')):
        if ok:
            ctx.ok(rule, 'copyDimension: ' + oid, where, 'holds')
        else:
            ctx.violation(Finding(rule, 'core/_files.py', 'PseudoNetCDFFile.copyDimension', fn.body[-2] if len(fn.body) > 1 else fn, 'copyDimension: ' + msg), oid=oid)


def check_adddimension(ctx, rule='R-UNLIM'):
    """path-wise (paths.py): the flag is defined once from the source dimension's isunlimited() (possibly or-ed with the user's
    list); on every path taken for a true flag the new dimension is unlimited - in memory by setunlimited(True) on the created
    object, on disk by a None length - however the branches are nested"""
    from .. import paths as _paths
    mod = ctx.src.mod('pncgen.py')
    fn = mod.func('Pseudo2NetCDF.addDimension')
    where = 'src/PseudoNetCDF/pncgen.py Pseudo2NetCDF.addDimension'
    ps = [p for p in _paths.function_paths(fn) if p.exit[0] != 'raise' and _paths.expand(p).feasible]
    creating = [p for p in ps if p.calls(attr='createDimension')]
    # the flag: a local tested on the way to a createDimension whose definition calls isunlimited()
    flags = set()
    for p in creating:
        for e, pol in p.conds:
            if isinstance(e, ast.Name):
                flags.add(e.id)
    defs = [st for st in iter_stmts(fn.body) if isinstance(st, ast.Assign) and any(isinstance(t, ast.Name) and t.id in flags for t in st.targets)
            and ('isunlimited' in norm(st.value) or any(isinstance(t, ast.Name) and t.id in flags for t in st.targets))]
    defs = [st for st in defs if any(isinstance(t, ast.Name) and t.id in flags for t in st.targets)]
    flagdefs = [st for st in defs if 'isunlimited' in norm(st.value)]
    if not flagdefs or not creating:
        raise AnalysisError('construct not understood: Pseudo2NetCDF.addDimension')
    flag = [t.id for t in flagdefs[0].targets if isinstance(t, ast.Name)][0]
    alldefs = [st for st in iter_stmts(fn.body) if isinstance(st, (ast.Assign, ast.AugAssign)) and
               any(isinstance(t, ast.Name) and t.id == flag for t in (st.targets if isinstance(st, ast.Assign) else [st.target]))]
    if len(alldefs) == 1 and U._calls_isunlimited(alldefs[0].value) and norm(alldefs[0].value).count(' and ') == 0:
        ctx.ok(rule, 'addDimension: flag source', where, norm(alldefs[0])[:80])
    else:
        bad = alldefs[1] if len(alldefs) > 1 else alldefs[0]
        ctx.violation(Finding(rule, 'pncgen.py', 'Pseudo2NetCDF.addDimension', bad,
                              'the unlimited flag of the source dimension is overridden/narrowed before the dimension is created: '
                              'an unlimited dimension can be written as a fixed one'), oid='flag source')
    # finite case analysis: flag true x {in-memory target, disk target}.  A path is taken in a case when every condition on it that the
    # checker's evaluator can decide (the flag, the isinstance test, names defined from them) has the polarity the case gives it;
    # on every taken path the created dimension is unlimited: length None (disk form) or setunlimited(True / flag) on the new object
    from .. import consteval as _ce
    nflag, badp = 0, None
    for inmem in (True, False):
        def hook(e, _inmem=inmem):
            if isinstance(e, ast.Call) and isinstance(e.func, ast.Name) and e.func.id == 'isinstance' and 'PseudoNetCDFFile' in norm(e):
                return _inmem
            if isinstance(e, ast.Name) and e.id == flag:
                return True
            return None
        for p in creating:
            res = _paths.expand(p, keep=(flag,))
            taken = True
            for e_, x, pol in res.conds:
                v = _ce.ev(x, {}, hook)
                if v is not _ce.UNK and bool(v) != pol:
                    taken = False
            if not taken:
                continue
            nflag += 1
            good = False
            for st, new in res.stmts:
                for c in [c for c in walk_expr(new) if isinstance(c, ast.Call) and isinstance(c.func, ast.Attribute)]:
                    if c.func.attr == 'createDimension' and len(c.args) > 1:
                        lv = _ce.ev(c.args[1], {}, hook)
                        if lv is None:
                            good = True
                    if c.func.attr == 'setunlimited' and c.args:
                        av = _ce.ev(c.args[0], {}, hook)
                        if av is True:
                            good = True
            if not good:
                badp = badp or (p, (p.calls(attr='createDimension') or [(None, fn.body[-1])])[-1][1])
    if nflag and badp is None:
        ctx.ok(rule, 'addDimension: unlimited branch', where, 'in-memory: setunlimited(True); on disk: createDimension(d, None) (%d path/case pairs)' % nflag)
    else:
        ctx.violation(Finding(rule, 'pncgen.py', 'Pseudo2NetCDF.addDimension', badp[1] if badp else fn.body[-1],
                              'the unlimited branch does not create an unlimited dimension on every path'), oid='unlimited branch')


def check_ncattr(ctx):
    src = ctx.src
    n = 0
    for rp, classes in (('core/_files.py', ('PseudoNetCDFFile',)), ('core/_variables.py', ('PseudoNetCDFVariable', 'PseudoNetCDFMaskedVariable'))):
        mod = src.mod(rp)
        for q, fn in sorted(mod.functions.items()):
            parts = q.split('.')
            if len(parts) != 2 or parts[0] not in classes:
                continue
            stores = []
            for st in iter_stmts(fn.body):
                tg = []
                if isinstance(st, ast.Assign):
                    tg = st.targets
                elif isinstance(st, ast.AugAssign):
                    tg = [st.target]
                for t in tg:
                    if isinstance(t, ast.Attribute) and t.attr == '_ncattrs':
                        stores.append(st)
                    if isinstance(t, ast.Subscript) and const_str(t.slice) == '_ncattrs':
                        stores.append(st)
                if isinstance(st, ast.Expr) and isinstance(st.value, ast.Call) and dotted(st.value.func) in ('object.__setattr__', 'setattr') \
                        and len(st.value.args) >= 2 and const_str(st.value.args[1]) == '_ncattrs':
                    stores.append(st)
            if not stores:
                continue
            where = 'src/PseudoNetCDF/%s %s' % (rp, q)
            for st in stores:
                n += 1
                if parts[1] not in NCATTR_WRITERS:
                    ctx.violation(Finding('R-NCATTR', rp, q, st, 'the attribute-name list is written outside the life-cycle methods: '
                                          'a listed name may have no attribute behind it'))
                    continue
                if parts[1] == '__setattr__':
                    # extended with k => a base __setattr__(self, k, v) is reached on every path after it
                    params = [a.arg for a in fn.args.args]
                    k = params[1] if len(params) > 1 else 'k'
                    tail = fn.body[-1]
                    good = isinstance(tail, ast.Expr) and isinstance(tail.value, ast.Call) and \
                        (dotted(tail.value.func) or '').endswith('__setattr__') and \
                        any(isinstance(a, ast.Name) and a.id == k for a in tail.value.args) and \
                        not any(isinstance(s2, (ast.Return, ast.Raise)) for s2 in iter_stmts(fn.body))
                    if good and '(%s,)' % k in norm(st).replace(' ', '').replace(',)', ',)'):
                        ctx.ok('R-NCATTR', q, where, 'name appended, then %s' % norm(tail)[:50])
                    elif good:
                        ctx.ok('R-NCATTR', q, where, 'store followed by base __setattr__')
                    else:
                        ctx.violation(Finding('R-NCATTR', rp, q, st, 'a name is added to the attribute list but the attribute itself is not '
                                              'stored on every path (the method must end with the base __setattr__(self, k, v))'))
                elif parts[1] == '__delattr__':
                    tail = fn.body[-1]
                    good = isinstance(tail, ast.Expr) and isinstance(tail.value, ast.Call) and (dotted(tail.value.func) or '').endswith('__delattr__')
                    filt = '!=' in norm(st) and 'for' in norm(st)
                    if good and filt:
                        ctx.ok('R-NCATTR', q, where, 'name filtered out, attribute deleted')
                    else:
                        ctx.violation(Finding('R-NCATTR', rp, q, st, '__delattr__ must remove the name from the list and delete the attribute'))
                else:
                    t = norm(st)
                    if t.endswith('= ()') or "'_ncattrs', ()" in t or 'nncattrs' in t or '_ncattrs' in norm(getattr(st, 'value', st)) or 'obj' in t:
                        ctx.ok('R-NCATTR', '%s:%s' % (q, t[:40]), where, 'life-cycle reset / copy from the source object')
                    else:
                        ctx.undec('R-NCATTR', '%s:%s' % (q, t[:40]), where, 'store form not recognised')
        # ncattrs() returns the list
        for cls in classes:
            r = src.class_attr(rp, cls, 'ncattrs')
            if r is None:
                continue
            node = r[2]
            rets = [s for s in iter_stmts(node.body) if isinstance(s, ast.Return)]
            if rets and norm(rets[-1].value) in ('self._ncattrs', 'NetCDFFile.ncattrs(self)'):
                ctx.ok('R-NCATTR', '%s.ncattrs' % cls, 'src/PseudoNetCDF/%s %s.ncattrs' % (r[0], r[1]), 'returns ' + norm(rets[-1].value))
            else:
                ctx.violation(Finding('R-NCATTR', r[0], '%s.ncattrs' % r[1], rets[-1] if rets else node, 'ncattrs() does not return the maintained list'))
    # __array_finalize__ / _update_from copy the attributes named in the copied list
    vm = src.mod('core/_variables.py')
    af = vm.func('PseudoNetCDFVariable.__array_finalize__')
    loop = [s for s in iter_stmts(af.body) if isinstance(s, ast.For) and 'nncattrs' in norm(s.iter)]
    if loop and any('object.__setattr__(self, k, getattr(obj, k))' in norm(s) for s in iter_stmts(loop[0].body)):
        ctx.ok('R-NCATTR', '__array_finalize__ copies attributes', 'src/PseudoNetCDF/core/_variables.py PseudoNetCDFVariable.__array_finalize__',
               'every name copied from obj is backed by object.__setattr__(self, k, getattr(obj, k))')
    else:
        ctx.violation(Finding('R-NCATTR', 'core/_variables.py', 'PseudoNetCDFVariable.__array_finalize__', af.body[-1],
                              'names are copied from the source array but their attributes are not'))
    ctx.floor('_ncattrs stores', n, 8)
    # public attributes are created/removed only through __setattr__/__delattr__ (which maintain the list):
    # object.__setattr__/__delattr__ with a non-private name is confined to those two methods and the array life-cycle hooks
    nb = 0
    for rp, classes in (('core/_files.py', ('PseudoNetCDFFile',)), ('core/_variables.py', ('PseudoNetCDFVariable', 'PseudoNetCDFMaskedVariable'))):
        mod = src.mod(rp)
        for q, fn in sorted(mod.functions.items()):
            parts = q.split('.')
            if len(parts) != 2 or parts[0] not in classes:
                continue
            for c in walk_expr(fn):
                if isinstance(c, ast.Call) and dotted(c.func) in ('object.__setattr__', 'object.__delattr__') and len(c.args) >= 2:
                    nb += 1
                    nm = const_str(c.args[1])
                    private = nm is not None and (nm.startswith('_') or nm in ('typecode', 'dimensions'))
                    if parts[1] in ('__setattr__', '__delattr__', '__array_finalize__') or private:
                        ctx.ok('R-NCATTR', '%s:%s' % (q, norm(c)[:40]), 'src/PseudoNetCDF/%s %s' % (rp, q), 'life-cycle method or private name')
                    else:
                        ctx.violation(Finding('R-NCATTR', rp, q, api.stmt_of(c), '%s bypasses __setattr__/__delattr__ for a public attribute: the attribute-name list is not '
                                              'updated, so a listed attribute is not retrievable (or an existing one is not listed)' % dotted(c.func)))
    ctx.floor('object.__setattr__/__delattr__ call sites', nb, 6)
    # delncattr / setncattr delegate to the maintained methods
    fm = src.mod('core/_files.py')
    for meth, want in (('delncattr', ('self.__delattr__(k)', 'delattr(self, k)')), ('setncattr', ('return setattr(self, k, v)', 'setattr(self, k, v)', 'self.__setattr__(k, v)'))):
        f8 = fm.func('PseudoNetCDFFile.' + meth)
        body = [norm(s2) for s2 in f8.body if not (isinstance(s2, ast.Expr) and isinstance(s2.value, ast.Constant))]
        if len(body) == 1 and body[0] in want:
            ctx.ok('R-NCATTR', meth, 'src/PseudoNetCDF/core/_files.py PseudoNetCDFFile.%s' % meth, body[0])
        elif any(w in ' ; '.join(body) for w in want):
            ctx.ok('R-NCATTR', meth, 'src/PseudoNetCDF/core/_files.py PseudoNetCDFFile.%s' % meth, 'delegates to the maintained method')
        else:
            ctx.violation(Finding('R-NCATTR', 'core/_files.py', 'PseudoNetCDFFile.' + meth, f8.body[-1], '%s does not go through the method that maintains the attribute-name list' % meth))


def check_axisperm(ctx):
    """R-AXISPERM: the axis operation applied to the data and the bookkeeping applied to the dimension names are
    the same permutation / insertion (sibling agreement of two statements)."""
    mod = ctx.src.mod('core/_files.py')
    ctx.rule('R-AXISPERM', 'data axis operation and dimension-name bookkeeping describe the same move/insert')
    # reorderDimensions: names: varorder.pop(X); varorder.insert(Y, k)   data: np.rollaxis/moveaxis(v, X, Y)
    q = 'PseudoNetCDFFile.reorderDimensions'
    fn = mod.func(q)
    where = 'src/PseudoNetCDF/core/_files.py %s' % q
    pops = [c for c in walk_expr(fn) if isinstance(c, ast.Call) and dotted(c.func) == 'varorder.pop' and c.args]
    ins = [c for c in walk_expr(fn) if isinstance(c, ast.Call) and dotted(c.func) == 'varorder.insert' and len(c.args) == 2]
    swaps = [st for st in iter_stmts(fn.body) if isinstance(st, ast.Assign) and isinstance(st.targets[0], ast.Tuple) and 'varorder[' in norm(st.targets[0])]
    ops = [c for c in walk_expr(fn) if isinstance(c, ast.Call) and (dotted(c.func) or '').split('.')[-1] in ('rollaxis', 'moveaxis', 'swapaxes', 'transpose')]
    if not ops or not (pops and ins or swaps):
        raise AnalysisError('construct not understood: axis bookkeeping of reorderDimensions')
    op = ops[0]
    name = (dotted(op.func) or '').split('.')[-1]
    a = [norm(x) for x in op.args[1:]] + [norm(k.value) for k in op.keywords]
    if pops and ins:
        src_, dst = norm(pops[0].args[0]), norm(ins[0].args[0])
        if name in ('rollaxis', 'moveaxis') and a[:2] == [src_, dst]:
            ctx.ok('R-AXISPERM', q, where, 'names: pop(%s)/insert(%s) ; data: %s(%s -> %s)' % (src_, dst, name, src_, dst))
        else:
            ctx.violation(Finding('R-AXISPERM', 'core/_files.py', q, api.stmt_of(op),
                                  'the dimension names are moved (pop(%s), insert(%s)) but the data axes are changed with %s(%s): for a move '
                                  'across more than one position names and array shape disagree' % (src_, dst, name, ', '.join(a))))
    else:
        if name == 'swapaxes':
            ctx.ok('R-AXISPERM', q, where, 'names swapped ; data swapaxes')
        else:
            ctx.violation(Finding('R-AXISPERM', 'core/_files.py', q, api.stmt_of(op), 'names are swapped but data axes are moved with %s' % name))
    # insertDimension: ndims.insert(bi, dk) ; np.expand_dims(v, axis=bi)
    q = 'PseudoNetCDFFile.insertDimension'
    fn = mod.func(q)
    where = 'src/PseudoNetCDF/core/_files.py %s' % q
    ins = [c for c in walk_expr(fn) if isinstance(c, ast.Call) and dotted(c.func) == 'ndims.insert' and len(c.args) == 2]
    ex = [c for c in walk_expr(fn) if isinstance(c, ast.Call) and (dotted(c.func) or '').split('.')[-1] == 'expand_dims']
    if not ins or not ex:
        raise AnalysisError('construct not understood: insertDimension axis bookkeeping')
    ax = kw(ex[0], 'axis') or (ex[0].args[1] if len(ex[0].args) > 1 else None)
    if ax is not None and norm(ax) == norm(ins[0].args[0]):
        ctx.ok('R-AXISPERM', q, where, 'names insert(%s) ; data expand_dims(axis=%s)' % (norm(ins[0].args[0]), norm(ax)))
    else:
        ctx.violation(Finding('R-AXISPERM', 'core/_files.py', q, api.stmt_of(ex[0]), 'the new dimension name is inserted at %s but the data axis at %s'
                              % (norm(ins[0].args[0]), norm(ax) if ax is not None else None)))
    # removeSingleton: removed axes taken in descending order (sdims reversed) so that earlier takes do not shift later ones
    q = 'PseudoNetCDFFile.removeSingleton'
    fn = mod.func(q)
    t = norm(fn)
    where = 'src/PseudoNetCDF/core/_files.py %s' % q
    if ')[::-1]' in t and 'outvals = outvals.take(0, axis=di)' in t and ' in sdims:' in t:
        ctx.ok('R-AXISPERM', q, where, 'singleton axes removed from the last to the first (indices stay valid)')
    elif 'outvals.take(0, axis=di)' in t:
        ctx.violation(Finding('R-AXISPERM', 'core/_files.py', q, fn.body[-1], 'singleton axes are removed in ascending order: after the first take the remaining axis indices have shifted'))
    else:
        sq = [c for c in ast.walk(fn) if isinstance(c, ast.Call) and (dotted(c.func) or '').split('.')[-1] == 'squeeze'
              and kw(c, 'axis') is None and len(c.args) <= (1 if (dotted(c.func) or '').startswith('np.') else 0)]
        if sq:
            ctx.violation(Finding('R-AXISPERM', 'core/_files.py', q, api.stmt_of(sq[0]), 'the data lose *every* length-1 axis (squeeze without axis=) while the dimension names lose only the '
                                  'removed dimensions: with dimkey given, a kept singleton dimension makes the shapes disagree and the operation raises'))
        else:
            ctx.undec('R-AXISPERM', q, where, 'removal idiom not recognised')


VARSTORE_OK = {
    'PseudoNetCDFFile.createVariable': 'the primitive: allocates from the parent dimension lengths',
    'PseudoNetCDFFile.reorderDimensions': 'stores a copy whose .dimensions tuple was rebuilt together with the axes (R-AXISPERM)',
    'PseudoNetCDFFile.eval': 'stores only PseudoNetCDFVariable results that carry their own non-empty dimension tuple; other results go through createVariable',
}


def check_dimkey(ctx):
    """R-DIMKEY: inside `for <key>, <dim> in X.dimensions.items()` a copy of <dim> names its key explicitly (the table key is the dimension's
    name; what the dimension object remembers as its name can be stale after a rename)."""
    ctx.rule('R-DIMKEY', 'a dimension copied in a loop over a dimension table is given the loop key (key=<key>), never left to the name stored in the object')
    n = 0
    for rp in ('core/_files.py', 'core/_functions.py', 'cmaqfiles/_ioapi.py', 'pncgen.py'):
        m = ctx.src.mod(rp)
        for q, fn in sorted(m.functions.items()):
            for lp in [x for x in ast.walk(fn) if isinstance(x, ast.For) and isinstance(x.target, ast.Tuple) and len(x.target.elts) == 2 and norm(x.iter).endswith('.dimensions.items()')]:
                kname, vname = norm(lp.target.elts[0]), norm(lp.target.elts[1])
                for c in ast.walk(lp):
                    if isinstance(c, ast.Call) and isinstance(c.func, ast.Attribute) and c.func.attr == 'copyDimension' and c.args and norm(c.args[0]) == vname:
                        n += 1
                        k = kw(c, 'key') if kw(c, 'key') is not None else (c.args[1] if len(c.args) > 1 else None)
                        if k is not None and norm(k) == kname:
                            ctx.ok('R-DIMKEY', '%s@%d' % (q, c.lineno), 'src/PseudoNetCDF/%s %s' % (rp, q), 'key=%s' % kname)
                        elif k is None:
                            ctx.violation(Finding('R-DIMKEY', rp, q, api.stmt_of(c), 'the dimension is copied without key=%s: copyDimension then falls back to the name stored in the dimension object, which is the '
                                                  'creation-time name after a renameDimensions, so the result carries old dimension names while its variables carry the new ones' % kname))
                        else:
                            ctx.undec('R-DIMKEY', '%s@%d' % (q, c.lineno), 'src/PseudoNetCDF/%s %s' % (rp, q), 'key=%s is not the loop key' % norm(k))
    ctx.floor('dimension copies inside dimension-table loops', n, 8)


def check_varstore(ctx):
    """R-VARSTORE: results are populated through createVariable/copyVariable (which size arrays from the file dimensions);
    direct stores into a variable table bypass that and are confined to a frozen, reasoned list of sites."""
    ctx.rule('R-VARSTORE', 'direct stores into X.variables[...] only at the frozen sites; everything else goes through create/copyVariable')
    mod = ctx.src.mod('core/_files.py')
    n = 0
    for q, fn in sorted(mod.functions.items()):
        parts = q.split('.')
        if len(parts) != 2 or parts[0] not in ('PseudoNetCDFFile', 'netcdf'):
            continue
        for st in iter_stmts(fn.body):
            if isinstance(st, ast.Assign):
                for t in st.targets:
                    for tt in (t.elts if isinstance(t, ast.Tuple) else [t]):
                        if isinstance(tt, ast.Subscript) and isinstance(tt.value, ast.Attribute) and tt.value.attr == 'variables':
                            n += 1
                            where = 'src/PseudoNetCDF/core/_files.py %s' % q
                            if q in VARSTORE_OK:
                                ctx.ok('R-VARSTORE', '%s:%s' % (q, norm(st)[:50]), where, VARSTORE_OK[q])
                            else:
                                ctx.violation(Finding('R-VARSTORE', 'core/_files.py', q, st,
                                                      'an array is stored directly into the variable table: nothing ties its shape/dimension names '
                                                      'to the dimensions of the result file (the other operations allocate with createVariable/copyVariable)'))
    # the two reasoned sites keep their obligations
    t = norm(mod.func('PseudoNetCDFFile.reorderDimensions'))
    if 'newvals.dimensions = tuple(varorder)' in t and t.index('newvals.dimensions = tuple(varorder)') < t.index('outf.variables[vk] = newvals'):
        ctx.ok('R-VARSTORE', 'reorderDimensions: dimensions rebuilt before the store', 'src/PseudoNetCDF/core/_files.py PseudoNetCDFFile.reorderDimensions', 'holds')
    else:
        ctx.violation(Finding('R-VARSTORE', 'core/_files.py', 'PseudoNetCDFFile.reorderDimensions', 'outf.variables[vk] = newvals',
                              'the reordered array is stored without rebuilding its dimension tuple', lineno=mod.func('PseudoNetCDFFile.reorderDimensions').lineno))
    # eval: every path that stores a computed object directly in the variable table has established that it is a
    # PseudoNetCDFVariable with a non-empty dimension tuple (path-wise, temporaries and named conditions substituted)
    from .. import paths as _paths
    evf = mod.func('PseudoNetCDFFile.eval')
    nstore, unguarded = 0, None
    for lp in [st for st in iter_stmts(evf.body) if isinstance(st, ast.For)]:
        for pth in _paths.enumerate_paths(lp.body):
            res = _paths.expand(pth)
            if not res.feasible:
                continue
            for st, new in res.stmts:
                if isinstance(new, ast.Assign) and isinstance(new.targets[0], ast.Subscript) and norm(new.targets[0].value).endswith('.variables') \
                        and not (isinstance(new.value, ast.Call) and (dotted(new.value.func) or '').split('.')[-1] in ('createVariable', 'copyVariable')):
                    nstore += 1
                    v = norm(new.value)
                    isvar = any(p_ is True and isinstance(x, ast.Call) and dotted(x.func) == 'isinstance' and len(x.args) == 2 and norm(x.args[0]) == v
                                and 'PseudoNetCDFVariable' in norm(x.args[1]) for e_, x, p_ in res.conds)
                    hasdims = any(p_ is False and isinstance(x, ast.Compare) and norm(x) in ('%s.dimensions == ()' % v, '() == %s.dimensions' % v) for e_, x, p_ in res.conds) or \
                        any(p_ is True and norm(x) in ('%s.dimensions' % v, 'len(%s.dimensions) > 0' % v) for e_, x, p_ in res.conds)
                    if not (isvar and hasdims):
                        unguarded = unguarded or st
    if nstore == 0:
        ctx.ok('R-VARSTORE', 'eval: direct store guarded', 'src/PseudoNetCDF/core/_files.py PseudoNetCDFFile.eval', 'no direct store: every result goes through createVariable')
    elif unguarded is None:
        ctx.ok('R-VARSTORE', 'eval: direct store guarded', 'src/PseudoNetCDF/core/_files.py PseudoNetCDFFile.eval', 'only dimensioned PseudoNetCDFVariable results (%d storing paths)' % nstore)
    else:
        ctx.violation(Finding('R-VARSTORE', 'core/_files.py', 'PseudoNetCDFFile.eval', unguarded,
                              'eval stores results directly without the dimensioned-variable guard'))
    ctx.floor('direct variable-table stores', n, 3)


def check_eval_dims(ctx, rule='R-EVALDIMS'):
    """eval stores each assigned name.  A result that is a file variable carries its own dimension names; one that is a bare array
    gets the dimension names of the first variable the expression mentions.  Giving the borrowed names to a result that has its own
    (another set of dimensions, e.g. a surface field next to a 3-d one) stores a variable whose shape disagrees with its dimensions."""
    from .. import paths as _paths
    ctx.rule(rule, "eval: the dimension names borrowed from the first referenced variable are given only to results that carry none of their own")
    fm = ctx.src.mod('core/_files.py')
    fn = fm.func('PseudoNetCDFFile.eval')
    where = 'src/PseudoNetCDF/core/_files.py PseudoNetCDFFile.eval'
    loops = [st for st in iter_stmts(fn.body) if isinstance(st, ast.For) and any(isinstance(c, ast.Call) and (dotted(c.func) or '').endswith('.createVariable') for c in ast.walk(st))]
    if not loops:
        ctx.undec(rule, 'store loop', where, 'loop that stores the assigned names not found')
        return
    lp = loops[-1]
    n, bad = 0, None
    for pth in _paths.enumerate_paths(lp.body, limit=5000):
        if pth.exit[0] == 'raise':
            continue
        cvs = [c for st in pth.stmts for c in walk_expr(st) if isinstance(c, ast.Call) and (dotted(c.func) or '').endswith('.createVariable') and len(c.args) >= 3]
        for c in cvs:
            dims = c.args[2]
            if any(isinstance(x, ast.Attribute) and x.attr == 'dimensions' for x in ast.walk(dims)) and not isinstance(dims, ast.Name):
                continue            # the result's own dimensions
            n += 1
            own = False
            res = _paths.expand(pth)          # conditions with named temporaries substituted (hasdims = ...; if hasdims:)
            for a, pol in [(x_, p_) for e_, x_, p_ in res.conds] + [(x[1], x[2]) for x in pth.items if x[0] == 'cond']:
                t = norm(a)
                if ('.dimensions' in t and pol is False and ('!= ()' in t or '!=()' in t)) or ('.dimensions' in t and '== ()' in t and pol is True) or \
                        ('isinstance(' in t and 'PseudoNetCDFVariable' in t and pol is False) or ("hasattr(" in t and "'dimensions'" in t and pol is False):
                    own = True
            if not own:
                bad = bad or c
    if bad is not None:
        ctx.violation(Finding(rule, 'core/_files.py', 'PseudoNetCDFFile.eval', api.stmt_of(bad), 'the result is created with the dimension names %s on a path that has not established that it carries none of its own: '
                              'a result computed from a variable with other dimensions (PS(time, lat, lon) next to O3(time, lev, lat, lon)) is stored with names that do not match its shape' % norm(bad.args[2])))
    elif n:
        ctx.ok(rule, 'store loop', where, '%d paths create the result with borrowed names, all after the test that it has none' % n)
    else:
        ctx.undec(rule, 'store loop', where, 'no createVariable with borrowed dimension names')


def check_interp_newlen(ctx, rule='R-NEWLEN'):
    """interpDimension, N-d coordinate branch: the new length of the interpolated dimension is the extent of the new coordinate along
    the axis of that dimension (shape[axis]), not its first extent (len)."""
    ctx.rule(rule, 'interpDimension (N-d coordinates): the new dimension length is newdimvals.shape[<axis of the dimension>]')
    fm = ctx.src.mod('core/_files.py')
    fn = fm.func('PseudoNetCDFFile.interpDimension')
    where = 'src/PseudoNetCDF/core/_files.py PseudoNetCDFFile.interpDimension'
    axdefs = [st for st in iter_stmts(fn.body) if isinstance(st, ast.Assign) and isinstance(st.targets[0], ast.Name) and isinstance(st.value, ast.Call)
              and isinstance(st.value.func, ast.Attribute) and st.value.func.attr == 'index' and st.value.args and norm(st.value.args[0]) == 'dimkey']
    if not axdefs:
        ctx.undec(rule, 'N-d branch', where, 'axis of the interpolated dimension not found')
        return
    ax = axdefs[0].targets[0].id
    par = [a.arg for a in fn.args.args]
    newv = par[2] if len(par) > 2 else 'newdimvals'
    # the name that is used as the new length where the dimension key matches
    cands = [st for st in iter_stmts(fn.body) if isinstance(st, ast.Assign) and isinstance(st.targets[0], ast.Name) and st.lineno > axdefs[0].lineno
             and any(isinstance(x, ast.Name) and x.id == newv for x in ast.walk(st.value))
             and (any(isinstance(c, ast.Call) and dotted(c.func) == 'len' for c in ast.walk(st.value)) or any(isinstance(x, ast.Attribute) and x.attr == 'shape' for x in ast.walk(st.value)))]
    if not cands:
        ctx.undec(rule, 'N-d branch', where, 'new length not found')
        return
    st = cands[0]
    v = st.value
    good = isinstance(v, ast.Subscript) and isinstance(v.value, ast.Attribute) and v.value.attr == 'shape' and norm(v.value.value) == newv and norm(v.slice) == ax
    if good:
        ctx.ok(rule, 'N-d branch', where, norm(st))
    else:
        ctx.violation(Finding(rule, 'core/_files.py', 'PseudoNetCDFFile.interpDimension', st, 'the new length of dimension dimkey is %s, not %s.shape[%s]: when the interpolated dimension is not the first axis of the '
                              'coordinate the dimension gets the length of another axis (broadcast error, or a silent wrong length when only one level is requested)' % (norm(v), newv, ax)))


def check_ncattr_tuple(ctx, rule='R-ATTRLISTKIND'):
    """the list of attribute names is extended with `x._ncattrs += (k, )`: for a tuple that re-binds a new object on the one variable;
    for a list `+=` extends the shared object in place, and every array derived from the variable (views, results of arithmetic copy
    the attribute dictionary in __array_finalize__ / _update_from) lists the new name although it does not have the attribute."""
    ctx.rule(rule, 'the attribute-name list that is extended with `+= (k, )` is always bound to a tuple, never to a list (in-place growth would be shared by derived arrays)')
    n = 0
    for rp in ('core/_variables.py', 'core/_files.py'):
        m = ctx.src.mod(rp)
        grown = set()
        for q, fn in m.functions.items():
            for st in iter_stmts(fn.body):
                if isinstance(st, ast.AugAssign) and isinstance(st.op, ast.Add) and isinstance(st.target, ast.Attribute) and isinstance(st.value, ast.Tuple):
                    grown.add(st.target.attr)
        for q, fn in sorted(m.functions.items()):
            for st in iter_stmts(fn.body):
                if not isinstance(st, ast.Assign):
                    continue
                for t in st.targets:
                    if isinstance(t, ast.Attribute) and t.attr in grown:
                        n += 1
                        v = st.value
                        where = 'src/PseudoNetCDF/%s %s' % (rp, q)
                        if isinstance(v, (ast.List, ast.ListComp)) or (isinstance(v, ast.Call) and dotted(v.func) == 'list'):
                            ctx.violation(Finding(rule, rp, q, st, '%s is bound to a list here and extended elsewhere with `+= (k, )`: the list grows in place and is shared with every array '
                                                  'derived from the variable, so an attribute set on a result is listed on its source, which does not have it' % norm(t)))
                        else:
                            ctx.ok(rule, '%s:%s' % (q, norm(st)[:40]), where, 'bound to %s' % norm(v)[:30])
    ctx.floor('bindings of the attribute-name list', n, 3)


def check_newonly(ctx, rule='R-NEWONLY'):
    """insertDimension adds the dimensions that are new; a name that exists already keeps its dimension object (length, unlimited flag)"""
    ctx.rule(rule, 'insertDimension creates a dimension only when the name is not in the result yet (an existing dimension keeps its flag and length)')
    fn = ctx.src.mod('core/_files.py').func('PseudoNetCDFFile.insertDimension')
    where = 'src/PseudoNetCDF/core/_files.py PseudoNetCDFFile.insertDimension'
    cds = [c for c in walk_expr(fn) if isinstance(c, ast.Call) and isinstance(c.func, ast.Attribute) and c.func.attr == 'createDimension' and getattr(c, '_fn', fn) is fn]
    if not cds:
        ctx.undec(rule, 'createDimension', where, 'no createDimension call')
    for c in cds:
        obj = norm(c.func.value)
        key = norm(c.args[0]) if c.args else None
        guarded = False
        child, p_ = c, getattr(c, '_parent', None)
        while p_ is not None and p_ is not fn:
            if isinstance(p_, ast.If) and any(child is b or any(child is x for x in ast.walk(b)) for b in p_.body):
                t = norm(p_.test)
                if t in ('%s not in %s.dimensions' % (key, obj), '%s not in %s.dimensions.keys()' % (key, obj), 'not %s in %s.dimensions' % (key, obj)):
                    guarded = True
            child, p_ = p_, getattr(p_, '_parent', None)
        if guarded:
            ctx.ok(rule, norm(c)[:40], where, 'under `%s not in %s.dimensions`' % (key, obj))
        else:
            ctx.violation(Finding(rule, 'core/_files.py', 'PseudoNetCDFFile.insertDimension', api.stmt_of(c), '%s is created whether or not the result has it already: inserting next to an existing '
                                  'dimension replaces that dimension (an unlimited `time` loses its flag, another length raises)' % key))


def check_slice_dim_len(ctx, rule='R-NEWLEN'):
    """slice_dim: the sliced variables are stored as they come out of the subscript, so the length of the re-created dimension has to
    be measured on them (or computed through slice.indices(len)); range(start, stop, step) does not clamp to the dimension"""
    fn = ctx.src.mod('core/_functions.py').func('slice_dim')
    where = 'src/PseudoNetCDF/core/_functions.py slice_dim'
    env = dict((st.targets[0].id, st.value) for st in iter_stmts(fn.body) if isinstance(st, ast.Assign) and len(st.targets) == 1 and isinstance(st.targets[0], ast.Name))
    for c in walk_expr(fn):
        if isinstance(c, ast.Call) and isinstance(c.func, ast.Attribute) and c.func.attr == 'createDimension' and len(c.args) >= 2 and getattr(c, '_fn', fn) is fn:
            ln = c.args[1]
            txt = norm(env.get(ln.id, ln)) if isinstance(ln, ast.Name) else norm(ln)
            if 'range(' in txt and '.indices(' not in txt:
                ctx.violation(Finding(rule, 'core/_functions.py', 'slice_dim', api.stmt_of(c), 'the new length of the sliced dimension is %s: range() does not clamp a stop beyond the end (or resolve a '
                                      'negative bound) the way the subscript does, so the variables come out with another length than their dimension' % txt[:60]))
            elif '.shape[' in txt or 'len(' in txt or '.size' in txt:
                ctx.ok(rule, 'slice_dim:%s' % txt[:30], where, 'length measured on the sliced values')
            else:
                ctx.undec(rule, 'slice_dim:%s' % txt[:30], where, 'length expression not recognised')


def check_nd_fallback(ctx, rule='R-NDSTORE'):
    """sliceDimensions: N-d index arrays give values whose shape differs from the prepared variable only by how the point axes are
    split; the final store has the reshape fallback that makes the documented N-d selection complete"""
    ctx.rule(rule, 'sliceDimensions: the final store of the selected values has the reshape fallback for N-d index arrays')
    fn = ctx.src.mod('core/_files.py').func('PseudoNetCDFFile.sliceDimensions')
    where = 'src/PseudoNetCDF/core/_files.py PseudoNetCDFFile.sliceDimensions'
    stores = [st for st in iter_stmts(fn.body) if isinstance(st, ast.Assign) and isinstance(st.targets[0], ast.Subscript) and norm(st.targets[0]) == 'newvaro[...]']
    if not stores:
        ctx.undec(rule, 'store', where, 'store newvaro[...] = ... not found')
        return
    resh = [st for st in stores if 'reshape(' in norm(st.value)]
    if resh:
        ctx.ok(rule, 'store', where, norm(resh[0])[:60])
    else:
        ctx.violation(Finding(rule, 'core/_files.py', 'PseudoNetCDFFile.sliceDimensions', stores[-1], 'the selected values are stored without the reshape fallback: a selection with N-d index arrays '
                              '(newdims with one name per axis) raises instead of completing'))


def run(ctx):
    check_ncattr_tuple(ctx)
    check_slice_dim_len(ctx)
    check_nd_fallback(ctx)
    check_newonly(ctx)
    ctx.rule('R-UNLIM', 'createDimension of a surviving key is paired with a setunlimited derived from the source dimension')
    ctx.rule('R-NCATTR', 'attribute-name list written only by life-cycle methods, in step with the attribute store')
    nsites, nobl = check_unlim(ctx)
    ctx.floor('createDimension sites', nsites, 25)
    ctx.floor('R-UNLIM obligations', nobl, 6)
    check_copydimension(ctx)
    check_adddimension(ctx)
    # callers that create surviving dimensions through copyDimension: count them (discharged by the verified primitive)
    n = 0
    for rp in ('core/_files.py', 'cmaqfiles/_ioapi.py'):
        for q, fn in ctx.src.mod(rp).functions.items():
            n += sum(1 for c in walk_expr(fn) if isinstance(c, ast.Call) and isinstance(c.func, ast.Attribute) and c.func.attr == 'copyDimension')
    ctx.count('copyDimension call sites (discharged by the verified primitive)', n)
    ctx.floor('copyDimension call sites', n, 8)
    # surviving dimensions must not be re-created with the raw primitive where the siblings use copyDimension: handled by check_unlim
    check_ncattr(ctx)
    check_axisperm(ctx)
    check_varstore(ctx)
    check_dimkey(ctx)
    # binary operators: the result file's dimensions are a copy of the left operand's, so every result variable must take its
    # dimension tuple from the left operand's variable
    check_eval_dims(ctx)
    check_interp_newlen(ctx)
    ctx.rule('R-DIMSRC', 'pncbo: result variables are dimensioned like the variables of the file whose dimensions were copied')
    fu = ctx.src.mod('core/_functions.py')
    pb = fu.func('pncbo')
    first = [st for st in pb.body if isinstance(st, ast.Assign) and 'ifile1.copy(' in norm(st.value)]
    cvs = [c for c in walk_expr(pb) if isinstance(c, ast.Call) and (dotted(c.func) or '').endswith('.createVariable')]
    wp = 'src/PseudoNetCDF/core/_functions.py pncbo'
    if not first or not cvs:
        raise AnalysisError('construct not understood: pncbo result construction')
    for c in cvs:
        dims = c.args[2] if len(c.args) > 2 else kw(c, 'dimensions')
        if dims is not None and norm(dims) == 'in1var.dimensions':
            ctx.ok('R-DIMSRC', norm(c)[:50], wp, 'dimensions copied from ifile1; variable dimensioned with in1var.dimensions')
        else:
            ctx.violation(Finding('R-DIMSRC', 'core/_functions.py', 'pncbo', api.stmt_of(c), 'the result file carries the dimensions of ifile1 but the variable is created with %s: '
                                  'its dimension names need not exist in the result' % (norm(dims) if dims is not None else None)))
