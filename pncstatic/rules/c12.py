"""C12 - decoded times are the true instants (structural necessities).

R-UNITTABLE  the unit-denominator table of getTimes is internally consistent (size algebra).
R-CALTABLE   365-day calendar names map to a non-leap reference year, 366-day names to a leap year.
R-TIMEOFDAY  the non-standard-calendar branch does not project the intermediate datetime onto date-only fields.
R-TFLAGCOL   radix typing of YYYYJJJ / HHMMSS values in every decoder/encoder of the time flags.
R-TZDROP     inverse mapping: tzinfo is dropped only after astimezone().
"""
import ast
import re
import calendar

from ..engine import AnalysisError, dotted, iter_stmts, norm, walk_expr, const_str, kw
from ..report import Finding
from ..sizealg import to_poly, Poly
from ..radix import Radix
from .. import api
from .c16 import check_tzdrop

LEVEL_TEXT = (
    "Static table and information-flow checks (ast, size algebra, radix typing): the unit-denominator table "
    "is consistent for every calendar length, calendar aliases map to reference years of the right length, "
    "the sub-day part of the offset flows to the output in 365/366-day calendars, every decoder/encoder pairs "
    "the YYYYJJJ column/attributes with date radices and the HHMMSS ones with time radices, and tz-aware "
    "datetimes are converted before tzinfo is dropped. Agreement with an independent CF-time implementation "
    "over all dates/units/calendars is numerical and is not decided.")

FILES = 'core/_files.py'
DECODERS = [
    ('core/_files.py', 'PseudoNetCDFFile.getTimes'),
    ('coordutil.py', 'gettimes'),
    ('coordutil.py', 'gettimebnds'),
    ('conventions/ioapi/_ioapi.py', 'add_time_variable'),
    ('cmaqfiles/_ioapi.py', 'ioapi_base.updatetflag'),
    ('cmaqfiles/_ioapi.py', 'ioapi_base.audit_meta'),
    ('cmaqfiles/_ioapi.py', 'ioapi_base.sliceDimensions'),
    ('camxfiles/uamiv/Write.py', 'ncf2uamiv'),
    ('camxfiles/lateral_boundary/Write.py', 'ncf2lateral_boundary'),
    ('camxfiles/wind/Write.py', 'ncf2wind'),
    ('camxfiles/temperature/Write.py', 'ncf2temperature'),
    ('camxfiles/height_pressure/Write.py', 'ncf2height_pressure'),
    ('camxfiles/one3d/Write.py', 'ncf2one3d'),
    ('camxfiles/cloud_rain/Write.py', 'ncf2cloud_rain'),
]
RATIOS = {'hours': 24, 'minutes': 1440, 'seconds': 86400}


def check_step_from_flags(ctx, rule='R-STEPDATE'):
    """a step attribute derived from the first begin and end flags has to look at the date column as well: the HHMMSS column alone
    gives 0 - 230000 for a step from 23:00 to midnight, and getTimes(bounds=True) then ends a day early"""
    from .. import paths as _paths
    ctx.rule(rule, 'CAMx readers: a TSTEP attribute computed from the first begin / end flags uses the date column ([.., 0]) together with the time column ([.., 1])')
    n = 0
    for m in ctx.src.all_modules():
        if not (m.relpath.startswith('camxfiles/') and m.relpath.endswith('/Memmap.py')):
            continue
        for q, fn in sorted(m.functions.items()):
            if '<locals>' in q:
                continue
            for st in iter_stmts(fn.body):
                if not (isinstance(st, ast.Assign) and any(isinstance(t, ast.Attribute) and t.attr == 'TSTEP' and isinstance(t.value, ast.Name) and t.value.id == 'self' for t in st.targets)):
                    continue
                try:
                    val = _paths.subst(st.value, _paths.dominating_env(fn, st))
                except AnalysisError:
                    val = st.value
                flagsubs = [x for x in ast.walk(val) if isinstance(x, ast.Subscript) and 'flag' in norm(x.value).lower()]
                if not flagsubs or not any(isinstance(x, ast.BinOp) and isinstance(x.op, ast.Sub) for x in ast.walk(val)):
                    continue
                n += 1
                cols = set()
                for x in flagsubs:
                    last = x.slice.elts[-1] if isinstance(x.slice, ast.Tuple) and x.slice.elts else x.slice
                    if isinstance(last, ast.Constant) and last.value in (0, 1):
                        cols.add(last.value)
                    elif isinstance(last, ast.Slice):
                        cols.update((0, 1))
                where = 'src/PseudoNetCDF/%s %s' % (m.relpath, q)
                if 1 in cols and 0 not in cols:
                    ctx.violation(Finding(rule, m.relpath, q, st, 'TSTEP is the difference of the HHMMSS columns of the first end and begin flags; the dates are ignored, so a file whose first step '
                                          'runs from 23:00 to 00:00 gets TSTEP = -230000 and getTimes(bounds=True) puts the last bound 23 hours before the last step'))
                else:
                    ctx.ok(rule, q, where, 'columns used: %s' % sorted(cols))
    ctx.count('TSTEP attributes computed from flags', n)


def run(ctx):
    src = ctx.src
    check_step_from_flags(ctx)
    for r, d in (('R-UNITTABLE', 'incrdenom rows: hours/minutes/seconds = 24/1440/86400 x days, years x yeardays = days'),
                 ('R-CALTABLE', 'calendar alias -> reference year of matching length'),
                 ('R-TIMEOFDAY', 'sub-day part of the offset reaches the output in 365/366-day calendars'),
                 ('R-TFLAGCOL', 'YYYYJJJ values meet only date radices / slots, HHMMSS values only time radices / slots'),
                 ('R-TZDROP', 'tzinfo removed only after astimezone()')):
        ctx.rule(r, d)
    fm = src.mod(FILES)
    q = 'PseudoNetCDFFile.getTimes'
    fn = fm.func(q)
    where = 'src/PseudoNetCDF/%s %s' % (FILES, q)
    # ---- R-UNITTABLE
    table = None
    for n in walk_expr(fn):
        if isinstance(n, ast.Dict) and set(const_str(k) for k in n.keys if k is not None) >= set(['days', 'hours', 'minutes', 'seconds']):
            table = n
    if table is None:
        raise AnalysisError('anchor vanished: unit-denominator dict in getTimes')
    rows = dict((const_str(k), to_poly(v)) for k, v in zip(table.keys, table.values))
    st = api.stmt_of(table)
    days = rows['days']
    for unit, ratio in sorted(RATIOS.items()):
        if rows[unit] == days * ratio:
            ctx.ok('R-UNITTABLE', unit, where, '%s = %s = %d x days' % (unit, rows[unit], ratio))
        else:
            ctx.violation(Finding('R-UNITTABLE', FILES, q, "'%s': %s" % (unit, norm(table.values[[const_str(k) for k in table.keys].index(unit)])),
                                  "denominator of '%s' is %s but must be %d x the 'days' row (%s): every '%s since' time in a "
                                  "365/366-day calendar is decoded wrongly" % (unit, rows[unit], ratio, days, unit), lineno=st.lineno),
                          oid=unit)
    if 'years' in rows:
        if rows['years'] * Poly.atom('yeardays') == days:
            ctx.ok('R-UNITTABLE', 'years', where, 'years x yeardays = days')
        else:
            ctx.violation(Finding('R-UNITTABLE', FILES, q, "'years': %s" % rows['years'], "years row inconsistent with days row",
                                  lineno=st.lineno), oid='years')
    # ---- R-REFSHIFT: in the 365/366-day branch the reference date enters as its (positive) offset into its year
    ctx.rule('R-REFSHIFT', 'getTimes, fixed-length calendars: the shift added to the elapsed fraction is (reference date in the model year - 1 January of that year) / year length')
    from .. import paths as _paths
    frac = [st for st in iter_stmts(fn.body) if isinstance(st, ast.Assign) and isinstance(st.value, ast.BinOp) and isinstance(st.value.op, ast.Add)
            and any(isinstance(x, ast.BinOp) and isinstance(x.op, ast.Div) and any(n is table for n in ast.walk(x.right)) or
                    (isinstance(x, ast.BinOp) and isinstance(x.op, ast.Div) and isinstance(x.right, ast.Name)) for x in (st.value.left, st.value.right))]
    frac = [st for st in frac if re.search(r'\btime\b', norm(st.value))]
    if not frac:
        ctx.undec('R-REFSHIFT', 'shift', where, 'statement adding the reference shift to time / <unit denominator> not found')
    else:
        fst = frac[0]
        # the values the shift takes on the paths to that statement
        blk = getattr(fst, '_parent', None)
        body = blk.body if fst in getattr(blk, 'body', []) else (blk.orelse if fst in getattr(blk, 'orelse', []) else fn.body)
        stop = body.index(fst)
        forms = {}
        for pth in _paths.enumerate_paths(body[:stop + 1], relevant=_paths.relevance(body[:stop + 1], [fst])):
            if pth.exit[0] == 'raise':
                continue
            res = _paths.expand(pth, keep=('yearseconds', 'yeardays', 'time', 'refdate', 'yearlike'))
            if not res.feasible:
                continue
            new = [n2 for s2, n2 in res.stmts if s2 is fst]
            if not new:
                continue
            v = new[0].value
            sh = v.right if not re.search(r'\btime\b', norm(v.right)) else v.left
            forms[norm(sh)] = sh
        bad = None
        nshift = 0
        for txt, sh in sorted(forms.items()):
            if isinstance(sh, ast.Constant) and sh.value == 0:
                continue
            nshift += 1
            # (A - B).total_seconds() / yearseconds   (or the timedelta division form)
            sub = [x for x in ast.walk(sh) if isinstance(x, ast.BinOp) and isinstance(x.op, ast.Sub)]
            if not sub:
                bad = bad or (txt, 'not a difference of two dates')
                continue
            a_, b_ = norm(sub[0].left), norm(sub[0].right)
            a_ref = 'refdate.month' in a_ and 'refdate.day' in a_
            b_ref = 'refdate.month' in b_ and 'refdate.day' in b_
            a_jan = bool(re.search(r'datetime\(yearlike, 1, 1', a_))
            b_jan = bool(re.search(r'datetime\(yearlike, 1, 1', b_))
            if a_ref and b_jan:
                continue
            if a_jan and b_ref:
                bad = (txt, 'reversed')
            else:
                bad = bad or (txt, 'operands not recognised')
        if bad and bad[1] == 'reversed':
            ctx.violation(Finding('R-REFSHIFT', FILES, q, fst, 'the reference shift is (1 January - reference date) / year: offset 0 of "days since 1996-02-28" in a 365/366-day calendar is decoded '
                                  'as a date 58 days *before* 1 January (1995-11-04) instead of the reference date; every time of such a variable is off by twice the distance of the reference from 1 January'))
        elif bad:
            ctx.undec('R-REFSHIFT', 'shift', where, 'shift %s: %s' % (bad[0][:60], bad[1]))
        elif nshift:
            ctx.ok('R-REFSHIFT', 'shift', where, '(reference date in the model year - 1 January) / year length on %d path(s); 0 for a 1 January reference' % nshift)
        else:
            ctx.undec('R-REFSHIFT', 'shift', where, 'no non-zero shift found')
        # ---- R-REFTIME: the time of day of the reference ('hours since 2001-01-01 12:00:00') is part of the shift
        ctx.rule('R-REFTIME', 'getTimes, fixed-length calendars: the hour, minute and second of the reference date enter the shift on every path (also for a 1 January reference)')
        tod = ('refdate.hour', 'refdate.minute', 'refdate.second')

        def has_tod(txt):
            return all(t in txt for t in tod) or 'refdate.replace(' in txt or 'refdate.time' in txt or re.search(r'refdate - ', txt) is not None
        lacking = [txt for txt, sh in sorted(forms.items()) if not has_tod(txt)]
        if not forms:
            ctx.undec('R-REFTIME', 'shift', where, 'no shift found')
        elif lacking:
            zero = [t for t in lacking if t == '0']
            ctx.violation(Finding('R-REFTIME', FILES, q, fst, 'on %d of %d paths the shift (%s) does not contain the time of day of the reference date: "hours since 2001-01-01 12:00:00" in a 365/366-day '
                                  'calendar decodes offset 0 as 00:00 instead of 12:00%s' % (len(lacking), len(forms), lacking[0][:50], ' (a 1 January reference takes the zero shift whatever its time of day)'
                                                                                            if zero else '')))
        else:
            ctx.ok('R-REFTIME', 'shift', where, 'month, day, hour, minute and second of the reference on all %d path(s)' % len(forms))
        # the fields of the reference are put into a UTC datetime: a reference with another UTC offset has to be converted first
        calbr = [st for st in iter_stmts(fn.body) if isinstance(st, ast.If) and '_calendaryearlike' in norm(st.test)]
        if not calbr:
            ctx.undec('R-REFTIME', 'offset', where, 'fixed-length calendar branch not found')
        else:
            btxt = ' ; '.join(norm(s2) for s2 in iter_stmts(calbr[0].body))
            if 'refdate.astimezone(' in btxt or 'utcoffset' in btxt:
                ctx.ok('R-REFTIME', 'offset', where, 'reference converted to UTC before its fields are used')
            else:
                ctx.violation(Finding('R-REFTIME', FILES, q, calbr[0], 'the month ... second of the reference date are copied into a UTC datetime without converting the reference to UTC: '
                                      '"hours since 2000-01-01 00:00:00-0600" in a 365/366-day calendar decodes offset 0 as 00:00 UTC instead of 06:00 UTC (the standard calendars keep the offset)'))
    # ---- R-CALTABLE
    cal = None
    for n in walk_expr(fn):
        if isinstance(n, ast.Dict) and set(const_str(k) for k in n.keys if k is not None) >= set(['noleap', 'all_leap']):
            cal = n
    if cal is None:
        raise AnalysisError('anchor vanished: calendar table in getTimes')
    for k, v in zip(cal.keys, cal.values):
        name = const_str(k)
        if not (isinstance(v, ast.Constant) and isinstance(v.value, int)):
            ctx.undec('R-CALTABLE', name, where, 'reference year is not a literal')
            continue
        want_leap = name in ('all_leap', '366_day')
        if name not in ('noleap', '365_day', 'all_leap', '366_day'):
            ctx.undec('R-CALTABLE', name, where, 'calendar name not in the CF table')
            continue
        if calendar.isleap(v.value) == want_leap:
            ctx.ok('R-CALTABLE', name, where, '%s -> %d (%s year)' % (name, v.value, 'leap' if want_leap else 'non-leap'))
        else:
            ctx.violation(Finding('R-CALTABLE', FILES, q, "'%s': %d" % (name, v.value),
                                  "calendar '%s' has %d-day years but its reference year %d has %d days: month/day of every "
                                  "offset beyond February is shifted" % (name, 366 if want_leap else 365, v.value,
                                                                         366 if calendar.isleap(v.value) else 365),
                                  lineno=api.stmt_of(cal).lineno), oid=name)
    # ---- R-TIMEOFDAY: datetime(...) constructors fed from a datetime that carries fractional days
    carriers = set()   # names bound (directly or as loop targets over a list) to <datetime> + timedelta(days=...)
    for s in iter_stmts(fn.body):
        if isinstance(s, ast.Assign) and isinstance(s.targets[0], ast.Name):
            txt = norm(s.value)
            if 'timedelta(days=' in txt and '+' in txt and ('for ' in txt):
                carriers.add(s.targets[0].id)
    nproj = 0
    for n in walk_expr(fn):
        if isinstance(n, (ast.ListComp, ast.GeneratorExp)):
            # loop variables that iterate a carrier list (possibly through zip)
            lv = set()
            for g in n.generators:
                its = [g.iter] + (list(g.iter.args) if isinstance(g.iter, ast.Call) and dotted(g.iter.func) == 'zip' else [])
                tg = g.target.elts if isinstance(g.target, ast.Tuple) else [g.target]
                if isinstance(g.iter, ast.Call) and dotted(g.iter.func) == 'zip':
                    for t, a in zip(tg, g.iter.args):
                        if isinstance(a, ast.Name) and a.id in carriers and isinstance(t, ast.Name):
                            lv.add(t.id)
                elif isinstance(g.iter, ast.Name) and g.iter.id in carriers and isinstance(g.target, ast.Name):
                    lv.add(g.target.id)
            if not lv:
                continue
            for c in walk_expr(n.elt):
                if isinstance(c, ast.Call) and dotted(c.func) in ('datetime', 'datetime.datetime'):
                    used = set(a.value.id + '.' + a.attr for a in walk_expr(c)
                               if isinstance(a, ast.Attribute) and isinstance(a.value, ast.Name) and a.value.id in lv)
                    if used:
                        nproj += 1
                        fields = set(u.split('.')[1] for u in used)
                        if fields & set(['month', 'day']) and not fields & set(['hour', 'minute', 'second']):
                            # accepted: "+ timedelta(<remainder>)" right after the constructor
                            par = getattr(c, '_parent', None)
                            if isinstance(par, ast.BinOp) and isinstance(par.op, ast.Add) and 'timedelta' in norm(par):
                                ctx.ok('R-TIMEOFDAY', norm(c)[:60], where, 'date-only constructor plus remainder timedelta')
                            else:
                                ctx.violation(Finding('R-TIMEOFDAY', FILES, q, api.stmt_of(c),
                                                      'the output datetime is rebuilt from month and day of the intermediate '
                                                      'datetime only (%s): the time of day of the offset is dropped' % norm(c)[:80]))
                        else:
                            ctx.ok('R-TIMEOFDAY', norm(c)[:60], where, 'constructor passes the time-of-day fields')
                if isinstance(c, ast.Call) and isinstance(c.func, ast.Attribute) and c.func.attr == 'replace' \
                        and isinstance(c.func.value, ast.Name) and c.func.value.id in lv:
                    nproj += 1
                    kws = set(k.arg for k in c.keywords)
                    if kws & set(['hour', 'minute', 'second', 'microsecond']):
                        ctx.violation(Finding('R-TIMEOFDAY', FILES, q, api.stmt_of(c),
                                              'replace() overwrites time-of-day fields of the intermediate datetime'))
                    else:
                        ctx.ok('R-TIMEOFDAY', norm(c)[:60], where, 'replace(%s) keeps the time of day' % ', '.join(sorted(kws)))
    if not carriers or nproj == 0:
        raise AnalysisError('construct not understood: non-standard calendar branch of getTimes')
    # ---- R-TFLAGCOL over every decoder/encoder
    ninst = 0
    for rp, fq in DECODERS:
        m = src.mod(rp)
        f = m.func(fq)
        r = Radix(m, f).run()
        w = 'src/PseudoNetCDF/%s %s' % (rp, fq)
        ninst += len(r.instances)
        for stmt, msg in r.violations:
            ctx.violation(Finding('R-TFLAGCOL', rp, fq, stmt, msg))
        seen = set()
        for stmt, desc in r.instances:
            key = (norm(stmt)[:70], desc)
            if key in seen or any(stmt is v[0] for v in r.violations):
                continue
            seen.add(key)
            ctx.ok('R-TFLAGCOL', '%s:%s' % (fq, key[0]), w, desc)
        ctx.count('decoder/encoder functions typed')
    ctx.floor('radix-typed operations', ninst, 30)
    # ---- R-REFFMT: every strptime format of the reference-date parser has nested fields (no minutes without hours, no seconds without minutes)
    from .. import lints
    ctx.rule('R-REFFMT', 'reference-date formats: date-time fields nested Y m d H M S without gaps')
    cm = src.mod('coordutil.py')
    pr = cm.func('_parse_ref_date')
    fmts = [n for n in walk_expr(pr) if isinstance(n, ast.Constant) and isinstance(n.value, str) and '%Y' in n.value]
    for n in fmts:
        gap = lints.strptime_field_gaps(n.value)
        if gap:
            ctx.violation(Finding('R-REFFMT', 'coordutil.py', '_parse_ref_date', api.stmt_of(n), 'format %r has a later field without %s: that part of the reference date is read into the wrong unit' % (n.value, gap)),
                          oid=n.value)
        else:
            ctx.ok('R-REFFMT', n.value, 'src/PseudoNetCDF/coordutil.py _parse_ref_date', 'fields nested')
    ctx.floor('reference-date formats', len(fmts), 10)
    # ---- R-TSTEPSTR: '%06d' % HHMMSS has a *minimum* width: hours/minutes/seconds must be sliced from the right
    ctx.rule('R-TSTEPSTR', "slices of a '%06d'-formatted HHMMSS string are anchored at the right end")
    nts = 0
    for rp_, fq in (('core/_files.py', 'PseudoNetCDFFile.getTimes'), ('conventions/ioapi/_ioapi.py', 'add_time_variable')):
        m_ = src.mod(rp_)
        f_ = m_.func(fq)
        strs = {}
        for st in iter_stmts(f_.body):
            if isinstance(st, ast.Assign) and isinstance(st.targets[0], ast.Name) and isinstance(st.value, ast.BinOp) and isinstance(st.value.op, ast.Mod) \
                    and const_str(st.value.left) == '%06d':
                strs[st.targets[0].id] = st
        for nm, dst in strs.items():
            sl = [x for x in walk_expr(f_) if isinstance(x, ast.Subscript) and isinstance(x.value, ast.Name) and x.value.id == nm and isinstance(x.slice, ast.Slice)]
            bad = []
            for x in sl:
                for bound in (x.slice.lower, x.slice.upper):
                    if bound is not None and not (isinstance(bound, ast.UnaryOp) and isinstance(bound.op, ast.USub)):
                        bad.append(x)
            nts += 1
            w_ = 'src/PseudoNetCDF/%s %s' % (rp_, fq)
            if bad:
                ctx.violation(Finding('R-TSTEPSTR', rp_, fq, api.stmt_of(bad[0]), "%s = '%%06d' %% <HHMMSS> is at least six characters wide; %s is anchored at the left, so a step of 100 hours or "
                                      "more is split at the wrong positions" % (nm, norm(bad[0]))), oid='%s:%s' % (fq, nm))
            else:
                ctx.ok('R-TSTEPSTR', '%s:%s' % (fq, nm), w_, 'slices %s anchored at the right end' % [norm(x.slice) for x in sl])
    # ---- R-HMSRADIX: arithmetic decoding of a packed H..HMMSS integer splits at 10000 and 100, and never limits the hours
    ctx.rule('R-HMSRADIX', 'a packed H..HMMSS integer is split with the radices 10000 and 100 only, and the hours part is not reduced modulo anything')
    for rp_, fq in (('core/_files.py', 'PseudoNetCDFFile.getTimes'), ('conventions/ioapi/_ioapi.py', 'add_time_variable')):
        f_ = src.mod(rp_).func(fq)
        w_ = 'src/PseudoNetCDF/%s %s' % (rp_, fq)
        packed, mmss = set(), set()
        for st in iter_stmts(f_.body):
            if isinstance(st, ast.Assign) and len(st.targets) == 1 and isinstance(st.targets[0], ast.Name):
                v_ = st.value
                while isinstance(v_, ast.Call) and dotted(v_.func) == 'int' and len(v_.args) == 1:
                    v_ = v_.args[0]
                if (isinstance(v_, ast.Attribute) and v_.attr in ('TSTEP', 'STIME', 'ETIME')) or \
                        (isinstance(v_, ast.Call) and dotted(v_.func) == 'getattr' and len(v_.args) >= 2 and const_str(v_.args[1]) in ('TSTEP', 'STIME', 'ETIME')):
                    packed.add(st.targets[0].id)

        def is_packed(e):
            return (isinstance(e, ast.Name) and e.id in packed) or (isinstance(e, ast.Attribute) and e.attr in ('TSTEP', 'STIME', 'ETIME')) or \
                (isinstance(e, ast.Call) and dotted(e.func) in ('int', 'getattr') and e.args and (is_packed(e.args[0]) or 'TSTEP' in norm(e) or 'STIME' in norm(e)))
        for st in iter_stmts(f_.body):
            for c in walk_expr(st) if not isinstance(st, (ast.If, ast.For, ast.While, ast.Try, ast.With)) else []:
                if isinstance(c, ast.Call) and dotted(c.func) == 'divmod' and len(c.args) == 2 and isinstance(c.args[1], ast.Constant):
                    k_ = c.args[1].value
                    tg = st.targets[0] if isinstance(st, ast.Assign) and isinstance(st.targets[0], ast.Tuple) and len(st.targets[0].elts) == 2 else None
                    if is_packed(c.args[0]):
                        nts += 1
                        if k_ == 10000:
                            if tg is not None and isinstance(tg.elts[1], ast.Name):
                                mmss.add(tg.elts[1].id)
                            ctx.ok('R-HMSRADIX', '%s:%s' % (fq, norm(c)[:30]), w_, 'hours split off at 10000')
                        elif k_ == 100:
                            ctx.ok('R-HMSRADIX', '%s:%s' % (fq, norm(c)[:30]), w_, 'seconds split off at 100')
                        else:
                            ctx.violation(Finding('R-HMSRADIX', rp_, fq, st, 'the packed H..HMMSS value is split with divmod(.., %r): the fields are decimal (10000, 100)' % k_))
                    elif isinstance(c.args[0], ast.Name) and c.args[0].id in mmss:
                        nts += 1
                        if k_ == 100:
                            ctx.ok('R-HMSRADIX', '%s:%s' % (fq, norm(c)[:30]), w_, 'minutes and seconds split at 100')
                        else:
                            ctx.violation(Finding('R-HMSRADIX', rp_, fq, st, 'the MMSS remainder of a packed time is split with divmod(.., %r) instead of 100: the fields are decimal, so a step of 30 minutes '
                                                  '(3000) is decoded as 50 minutes' % k_))
                if isinstance(c, ast.BinOp) and isinstance(c.op, ast.Mod) and isinstance(c.left, ast.BinOp) and isinstance(c.left.op, ast.FloorDiv) and is_packed(c.left.left) \
                        and isinstance(c.left.right, ast.Constant) and c.left.right.value == 10000:
                    nts += 1
                    ctx.violation(Finding('R-HMSRADIX', rp_, fq, st, 'the hours part of the packed step (%s) is reduced with %% %s: a step of 100 hours or more (weekly 1680000) loses its leading digits' % (
                        norm(c.left), norm(c.right))))
                if isinstance(c, ast.BinOp) and isinstance(c.op, (ast.Mod, ast.FloorDiv)) and is_packed(c.left) and isinstance(c.right, ast.Constant):
                    nts += 1
                    if c.right.value in (100, 10000):
                        ctx.ok('R-HMSRADIX', '%s:%s' % (fq, norm(c)[:30]), w_, 'decimal radix')
                    else:
                        ctx.violation(Finding('R-HMSRADIX', rp_, fq, st, 'the packed H..HMMSS value is split with %s: the fields are decimal (10000, 100)' % norm(c)))
    ctx.floor("decodes of packed times ('%06d' strings and arithmetic splits)", nts, 2)
    # ---- R-PARAMDEAD on the inverse mappings
    ctx.rule('R-PARAMDEAD', 'a resolved optional parameter is used afterwards')
    for name in ('time2idx', 'date2num', 'time2t'):
        f6 = fm.func('PseudoNetCDFFile.' + name)
        dead = lints.param_dead_stores(f6)
        if dead:
            for st in dead:
                ctx.violation(Finding('R-PARAMDEAD', FILES, 'PseudoNetCDFFile.' + name, st, 'parameter %s is resolved here but never read afterwards: the conversion below uses the '
                                      "units of another variable" % norm(st.targets[0])))
        else:
            ctx.ok('R-PARAMDEAD', name, 'src/PseudoNetCDF/%s PseudoNetCDFFile.%s' % (FILES, name), 'no dead re-assignment of a parameter')
    # ---- R-RESUNIT (shared with C16): the inverse lookup does not truncate the decoded times below their resolution
    ctx.rule('R-RESUNIT', 'time2t: the datetime64 unit chosen for a resolution is not coarser than that resolution')
    r_ = lints.resolution_table(fm.func('PseudoNetCDFFile.time2t'))
    w7 = 'src/PseudoNetCDF/%s PseudoNetCDFFile.time2t' % FILES
    if r_[0] == 'ok':
        ctx.ok('R-RESUNIT', 'resolution table', w7, '%d resolutions map to a unit at least as fine' % r_[1])
    elif r_[0] == 'wrong':
        ctx.violation(Finding('R-RESUNIT', FILES, 'PseudoNetCDFFile.time2t', r_[1], "times whose finest non-zero field is '%s' are converted to datetime64[%s] (needed: [%s] or finer): looking up the file's own "
                              'decoded times no longer returns 0..n-1' % (r_[2], r_[3], r_[4])))
    else:
        ctx.undec('R-RESUNIT', 'resolution table', w7, r_[1])
    # ---- R-TIMEWIDTH: seconds since the epoch are never narrowed to a 32-bit integer (overflow in 2038)
    ctx.rule('R-TIMEWIDTH', 'synthesised CF time (seconds since 1970) is not cast to a 4-byte integer')
    cm = ctx.src.mod('conventions/ioapi/_ioapi.py')
    atv = cm.func('add_time_variable')
    w8 = 'src/PseudoNetCDF/conventions/ioapi/_ioapi.py add_time_variable'
    I32 = ("'i'", "'i4'", "'>i'", "'<i'", "'>i4'", "'<i4'", "'int32'", 'np.int32', 'numpy.int32', "'l'")
    nw = 0
    for st in iter_stmts(atv.body):
        if not (isinstance(st, ast.Assign) and isinstance(st.targets[0], ast.Name)):
            continue
        secs = 'total_seconds' in norm(st.value) or any(isinstance(n, ast.Name) and n.id in ('time', 'off') for n in ast.walk(st.value))
        if not secs:
            continue
        nw += 1
        narrow = [c for c in ast.walk(st.value) if isinstance(c, ast.Call) and (
            (isinstance(c.func, ast.Attribute) and c.func.attr == 'astype' and c.args and norm(c.args[0]) in I32 and
             ('total_seconds' in norm(c.func.value) or any(isinstance(n, ast.Name) and n.id in ('time', 'off') for n in ast.walk(c.func.value)))) or
            ((dotted(c.func) or '').split('.')[-1] in ('array', 'asarray') and kw(c, 'dtype') is not None and norm(kw(c, 'dtype')) in I32 and 'total_seconds' in norm(c)))]
        if narrow:
            ctx.violation(Finding('R-TIMEWIDTH', 'conventions/ioapi/_ioapi.py', 'add_time_variable', st, 'seconds since 1970 are cast to a 4-byte integer (%s): flags after 2038-01-19 wrap around, so the CF time '
                                  'no longer decodes to the TFLAG instants' % norm(narrow[0])[-30:]))
        else:
            ctx.ok('R-TIMEWIDTH', norm(st)[:50], w8, 'kept in float64 / Python integers')
    ctx.floor('assignments of epoch seconds in add_time_variable', nw, 3)
    # ---- R-TFLAGORDER: a forced rebuild of TFLAG decodes the times from the attributes, i.e. after the old flags are gone
    ctx.rule('R-TFLAGORDER', 'updatetflag(overwrite): the old TFLAG is deleted before getTimes() is asked for the new times (getTimes prefers TFLAG over SDATE/STIME/TSTEP)')
    iom = ctx.src.mod('cmaqfiles/_ioapi.py')
    utf = iom.func('ioapi_base.updatetflag')
    w9 = 'src/PseudoNetCDF/cmaqfiles/_ioapi.py ioapi_base.updatetflag'
    ob = [st for st in utf.body if isinstance(st, ast.If) and norm(st.test) == 'overwrite']
    if not ob:
        ctx.undec('R-TFLAGORDER', 'overwrite branch', w9, 'branch not found')
    else:
        dels = [s2 for s2 in iter_stmts(ob[0].body) if isinstance(s2, ast.Delete) and "variables['TFLAG']" in norm(s2)]
        gts = [s2 for s2 in iter_stmts(ob[0].body) if any(isinstance(c, ast.Call) and dotted(c.func) == 'self.getTimes' for c in ast.walk(s2)) and not isinstance(s2, ast.If)]
        if not gts:
            ctx.undec('R-TFLAGORDER', 'overwrite branch', w9, 'getTimes() not called in the branch')
        elif dels and dels[0].lineno < gts[0].lineno:
            ctx.ok('R-TFLAGORDER', 'overwrite branch', w9, 'del TFLAG (line %d) before getTimes() (line %d)' % (dels[0].lineno, gts[0].lineno))
        else:
            ctx.violation(Finding('R-TFLAGORDER', 'cmaqfiles/_ioapi.py', 'ioapi_base.updatetflag', gts[0], 'getTimes() is called while the old TFLAG still exists: it decodes the old flags, so a requested start '
                                  'date / step is ignored and SDATE, STIME, TSTEP and TFLAG disagree afterwards'))
    # ---- R-DIVMODPAIR: whole years and the fraction of a year come from one floor division (// 1 with % 1)
    ctx.rule('R-DIVMODPAIR', 'getTimes: the year part of a fractional-year offset is its floor when the day part is its remainder modulo 1')
    gt_ = fm.func('PseudoNetCDFFile.getTimes')
    wgt_ = 'src/PseudoNetCDF/%s PseudoNetCDFFile.getTimes' % FILES
    rem = [st for st in iter_stmts(gt_.body) if isinstance(st, ast.Assign) and any(isinstance(b, ast.BinOp) and isinstance(b.op, ast.Mod) and norm(b.right) == '1' for b in ast.walk(st.value))]
    if not rem:
        ctx.undec('R-DIVMODPAIR', 'year/day split', wgt_, 'no remainder modulo 1 found')
    for st in rem:
        modn = [b for b in ast.walk(st.value) if isinstance(b, ast.BinOp) and isinstance(b.op, ast.Mod) and norm(b.right) == '1'][0]
        x = norm(modn.left)
        # the sibling statement that takes the integer part of the same x
        sib = [s2 for s2 in iter_stmts(gt_.body) if isinstance(s2, ast.Assign) and s2 is not st and abs(s2.lineno - st.lineno) <= 3 and x in norm(s2.value)
               and any(isinstance(c, ast.Call) and isinstance(c.func, ast.Attribute) and c.func.attr == 'astype' for c in ast.walk(s2.value))]
        if not sib:
            ctx.undec('R-DIVMODPAIR', x, wgt_, 'integer part of %s not found next to its remainder' % x)
            continue
        t = norm(sib[0].value)
        if ('%s // 1' % x) in t or ('np.floor(%s)' % x) in t:
            ctx.ok('R-DIVMODPAIR', x, wgt_, '%s ; %s' % (norm(sib[0])[:50], norm(st)[:40]))
        else:
            ctx.violation(Finding('R-DIVMODPAIR', FILES, 'PseudoNetCDFFile.getTimes', sib[0], 'the integer part of %s is taken by truncation (%s) while the fractional part is %s %% 1 (floor): for times before the '
                                  'reference date the two do not add up (-0.25 year -> year 0 + 0.75 year instead of year -1 + 0.75)' % (x, t[:40], x)))
    # ---- R-PERSTEP: every time flag is decoded with its own year
    ctx.rule('R-PERSTEP', 'getTimes (TFLAG branch): each step is built from its own YYYY and day; no element [0] of the per-step arrays stands for all steps')
    tb = [st for st in iter_stmts(gt_.body) if isinstance(st, ast.If) and "'TFLAG' in self.variables" in norm(st.test)]
    if not tb:
        ctx.undec('R-PERSTEP', 'TFLAG branch', wgt_, 'branch not found')
    else:
        body = tb[0].body
        perstep = set()
        for st in iter_stmts(body):
            if isinstance(st, ast.Assign) and isinstance(st.targets[0], ast.Name):
                if "['TFLAG']" in norm(st.value) or any(isinstance(n, ast.Name) and n.id in perstep for n in ast.walk(st.value)):
                    if not (isinstance(st.value, ast.Subscript) and isinstance(st.value.slice, ast.Constant)):
                        perstep.add(st.targets[0].id)
        firsts = [n for st in iter_stmts(body) for n in ast.walk(st) if isinstance(n, ast.Subscript) and isinstance(n.value, ast.Name) and n.value.id in perstep - set(['out'])
                  and isinstance(n.slice, ast.Constant) and n.slice.value in (0, -1)]
        if firsts:
            ctx.violation(Finding('R-PERSTEP', FILES, 'PseudoNetCDFFile.getTimes', api.stmt_of(firsts[0]), '%s stands for every step although %s is a per-step array: flags that cross a year end (or any boundary where it '
                                  'changes) are decoded with the first step\'s value' % (norm(firsts[0]), firsts[0].value.id)))
        else:
            ctx.ok('R-PERSTEP', 'TFLAG branch', wgt_, 'per-step arrays %s are only used element-wise' % sorted(perstep))
    # ---- R-CALSRC: the calendar (and units) of the CF branch are read from the time variable itself
    ctx.rule('R-CALSRC', "getTimes: the calendar and units attributes are read from the variable 'time' before that name is re-bound (to the bounds variable or an array of edges)")
    ncal = 0
    for st in iter_stmts(gt_.body):
        if not (isinstance(st, ast.Assign) and len(st.targets) == 1 and isinstance(st.targets[0], ast.Name)):
            continue
        reads = [c for c in walk_expr(st.value) if (isinstance(c, ast.Call) and dotted(c.func) == 'getattr' and len(c.args) >= 2 and const_str(c.args[1]) in ('calendar', 'units') and isinstance(c.args[0], ast.Name))
                 or (isinstance(c, ast.Attribute) and c.attr in ('calendar', 'units') and isinstance(c.value, ast.Name) and isinstance(c.ctx, ast.Load))]
        for c in reads:
            obj = c.args[0].id if isinstance(c, ast.Call) else c.value.id
            what = const_str(c.args[1]) if isinstance(c, ast.Call) else c.attr
            defs = [s2 for s2 in iter_stmts(gt_.body) if isinstance(s2, ast.Assign) and any(isinstance(t, ast.Name) and t.id == obj for t in s2.targets) and s2.lineno < st.lineno]
            first = [s2 for s2 in defs if isinstance(s2.value, ast.Subscript) and norm(s2.value.value) == 'self.variables' and const_str(s2.value.slice) == 'time']
            if not first:
                continue
            ncal += 1
            later = [s2 for s2 in defs if s2.lineno > first[-1].lineno]
            if later:
                ctx.violation(Finding('R-CALSRC', FILES, 'PseudoNetCDFFile.getTimes', st, "the %s attribute is read from %s after that name was re-bound (%s): with bounds=True it is looked up on the "
                                      "bounds variable or on a plain array, which do not carry it, and the default (gregorian) is used for a 365-day or 360-day file" % (what, obj, norm(later[0])[:60])),
                              oid=what)
            else:
                ctx.ok('R-CALSRC', what, wgt_, "read from self.variables['time'] before any re-binding of %s" % obj)
    ctx.floor('calendar / units reads judged by R-CALSRC', ncal, 2)
    # ---- R-TIMEPREC: the offsets of the CF time branch of getTimes are not narrowed to 4-byte numbers before they become timedeltas
    ctx.rule('R-TIMEPREC', 'getTimes (CF time): the stored offsets are not converted to a 4-byte type (float32 keeps about 7 digits: seconds since 1970 lose minutes)')
    NARROW = ("'f'", "'f4'", "'>f'", "'<f'", "'>f4'", "'<f4'", "'float32'", 'np.float32', 'numpy.float32', "'i'", "'i4'", "'int32'", 'np.int32', "'>i'", "'<i'", "'e'", "'float16'", 'np.float16')
    narrowed = []
    for c in ast.walk(gt_):
        if not isinstance(c, ast.Call):
            continue
        dn = (dotted(c.func) or '').split('.')[-1]
        tgt = None
        if dn in ('array', 'asarray', 'asanyarray') and c.args and kw(c, 'dtype') is not None and norm(kw(c, 'dtype')) in NARROW:
            tgt = c.args[0]
        elif isinstance(c.func, ast.Attribute) and c.func.attr == 'astype' and c.args and norm(c.args[0]) in NARROW:
            tgt = c.func.value
        if tgt is not None and any(isinstance(n_, ast.Name) and n_.id in ('time', 'times', 'offsets') for n_ in ast.walk(tgt)):
            narrowed.append(c)
    if narrowed:
        ctx.violation(Finding('R-TIMEPREC', FILES, 'PseudoNetCDFFile.getTimes', api.stmt_of(narrowed[0]), 'the time offsets pass through %s: a 4-byte type keeps about 7 significant digits, so 15-minute data stored as '
                              'seconds since 1970 decodes up to a minute off and 1-minute data collapses onto repeated instants' % norm(narrowed[0])[:50]))
    else:
        ctx.ok('R-TIMEPREC', 'getTimes', wgt_, 'no conversion of the time values to a 4-byte type')
    # ---- R-HMSALL: every part split off HHMMSS (hours, minutes, seconds) reaches the decoded time
    ctx.rule('R-HMSALL', 'getTimes (TFLAG branch): hours, minutes and seconds split from HHMMSS are all used for the decoded time')
    parts = {}
    for st in iter_stmts(gt_.body):
        if isinstance(st, ast.Assign) and len(st.targets) == 1 and isinstance(st.targets[0], ast.Name) and st.targets[0].id in ('hours', 'minutes', 'seconds', 'hour', 'minute', 'second'):
            parts[st.targets[0].id] = st
    unused = []
    for nm_, st_ in sorted(parts.items()):
        reads = [n_ for n_ in ast.walk(gt_) if isinstance(n_, ast.Name) and n_.id == nm_ and isinstance(n_.ctx, ast.Load)]
        real = []
        for r_ in reads:
            # a read that only feeds a zip(...) whose matching loop variable is never read does not count
            par = getattr(r_, '_parent', None)
            if isinstance(par, ast.Call) and dotted(par.func) == 'zip':
                comp = getattr(par, '_parent', None)
                if isinstance(comp, ast.comprehension) and isinstance(comp.target, ast.Tuple) and r_ in par.args:
                    tv = comp.target.elts[par.args.index(r_)] if par.args.index(r_) < len(comp.target.elts) else None
                    owner = getattr(comp, '_parent', None)
                    if isinstance(tv, ast.Name) and owner is not None and not any(isinstance(x, ast.Name) and x.id == tv.id and isinstance(x.ctx, ast.Load) for x in ast.walk(owner)):
                        continue
            real.append(r_)
        if not real:
            unused.append((nm_, st_))
    if len(parts) < 3:
        ctx.undec('R-HMSALL', 'TFLAG branch', wgt_, 'the split of HHMMSS into three parts was not found (%s)' % sorted(parts))
    elif unused:
        ctx.violation(Finding('R-HMSALL', FILES, 'PseudoNetCDFFile.getTimes', unused[0][1], '%s is split off HHMMSS but never used for the decoded time: flags with a non-zero %s field are truncated' % (unused[0][0], unused[0][0])))
    else:
        ctx.ok('R-HMSALL', 'TFLAG branch', wgt_, 'hours, minutes and seconds all used')
    # ---- R-TIMESTORE: add_time_variable stores the synthesised values whether or not the variable existed
    ctx.rule('R-TIMESTORE', 'add_time_variable: the synthesised time values are stored on every path (also when the variable already exists)')
    atv2 = ctx.src.mod('conventions/ioapi/_ioapi.py').func('add_time_variable')
    wat = 'src/PseudoNetCDF/conventions/ioapi/_ioapi.py add_time_variable'
    from .. import paths as _p12
    nst, badst = 0, None
    for pth in _p12.enumerate_paths(atv2.body, limit=20000):
        if pth.exit[0] == 'raise':
            continue
        nst += 1
        stores = [st for st in pth.stmts if isinstance(st, ast.Assign) and isinstance(st.targets[0], ast.Subscript) and isinstance(st.targets[0].value, ast.Name)
                  and isinstance(st.value, ast.Name) and st.value.id in ('time', 'times')]
        if not stores:
            badst = badst or pth
    if nst == 0:
        ctx.undec('R-TIMESTORE', 'store', wat, 'no path enumerated')
    elif badst is not None:
        conds = [norm(x[1])[:40] + ('' if x[2] else ' is false') for x in badst.items if x[0] == 'cond'][-2:]
        ctx.violation(Finding('R-TIMESTORE', 'conventions/ioapi/_ioapi.py', 'add_time_variable', atv2.body[-1], 'on the path with %s the synthesised values are not stored: a time variable that already exists keeps its old '
                              'values, and getTimes (which prefers it) keeps decoding the old instants' % (' / '.join(conds) or 'no condition')))
    else:
        ctx.ok('R-TIMESTORE', 'store', wat, 'values stored on all %d paths' % nst)
    # ---- R-FENCEPOST: a mean step is (last - first) / (count - 1)
    ctx.rule('R-FENCEPOST', '(x[-1] - x[0]) is divided by the number of intervals, len(x) - 1')
    nfp = 0
    for rp_, m_ in ((FILES, fm), ('cmaqfiles/_ioapi.py', ctx.src.mod('cmaqfiles/_ioapi.py')), ('conventions/ioapi/_ioapi.py', ctx.src.mod('conventions/ioapi/_ioapi.py'))):
        for q_, f_ in sorted(m_.functions.items()):
            for n in ast.walk(f_):
                if isinstance(n, ast.BinOp) and isinstance(n.op, (ast.Div, ast.FloorDiv)):
                    diffs = [b for b in ast.walk(n.left) if isinstance(b, ast.BinOp) and isinstance(b.op, ast.Sub) and isinstance(b.left, ast.Subscript) and isinstance(b.right, ast.Subscript)
                             and norm(b.left.value) == norm(b.right.value) and norm(b.left.slice) == '-1' and norm(b.right.slice) == '0']
                    if not diffs:
                        continue
                    x = norm(diffs[0].left.value)
                    den = norm(n.right)
                    cnt = [c for c in ('len(%s)' % x, '%s.size' % x, '%s.shape[0]' % x) if c in den]
                    if not cnt:
                        continue
                    nfp += 1
                    if ('%s - 1' % cnt[0]) in den:
                        ctx.ok('R-FENCEPOST', '%s@%d' % (q_, n.lineno), 'src/PseudoNetCDF/%s %s' % (rp_, q_), norm(n)[:70])
                    else:
                        ctx.violation(Finding('R-FENCEPOST', rp_, q_, api.stmt_of(n), 'the span %s[-1] - %s[0] covers %s - 1 intervals but is divided by %s: the mean step is too short (6 hourly steps give TSTEP 005000)' % (
                            x, x, cnt[0], den)))
    ctx.floor('mean-step computations', nfp, 1)
    # ---- R-TZDROP
    n = check_tzdrop(ctx, fm, 'PseudoNetCDFFile.date2num')
    n += check_tzdrop(ctx, fm, 'PseudoNetCDFFile.getTimes')     # the decoder itself: the standard-calendar branch keeps the offset of the reference date
    ctx.floor('tz drop sites', n, 1)
    ctx.assumptions += ['IOAPI flags: column 0 = YYYYJJJ, column 1 = HHMMSS; SDATE/EDATE are dates, STIME/ETIME/TSTEP are times',
                        'calendar.isleap on literal reference years (constant evaluation)']
