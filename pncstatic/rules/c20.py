"""C20 - ARL packed-bit: encoder/decoder constants and index-record widths agree.

R-ARLCONST    pack2d and unpack use the same exponent bias c in 2**(c - E), the same byte offset, rounding
              constant = offset + 0.5, precision denominator = 2 x offset.
R-EXPROUND    finite case analysis of the exponent rounding: for every sign/integrality class of log2(max
              difference) the stored exponent is strictly greater (no byte wrap-around / clipping).
R-WORKPREC    encoder working array and decoder arithmetic are both float32 (the running reconstruction
              mirrors the decoder).
R-ARLWIDTH    writevardef field widths = readvardef slices/advances = maparlpackedbit length formula.
R-HDRFMT      numbers formatted into fixed-width header fields use the field's width.
R-LAYKEYSHAPE producers and the consumer of props['laykeys'] agree on its shape.
R-TDSECONDS   elapsed hours are taken from total_seconds(), not timedelta.seconds.
"""
import ast
import re

from ..engine import AnalysisError, dotted, iter_stmts, norm, walk_expr, const_str, kw
from ..report import Finding
from ..sizealg import to_poly, Poly
from .. import dtypes as DT
from .. import api

LEVEL_TEXT = (
    "Static constant/width agreement checks on noaafiles/_arl.py (ast, constant folding, finite case analysis): "
    "encoder and decoder share exponent bias, byte offset and float32 working precision; the exponent rounding rule "
    "is evaluated over all five sign/integrality classes of log2(max difference); index-record field widths agree "
    "between writer, reader and the record-length formula; header numbers are formatted to their field widths; the "
    "layer-key table has one shape for all producers and its consumer. The quantisation error bound itself and the "
    "checksum value are numerical and are not decided.")

RP = 'noaafiles/_arl.py'


def num(e):
    if isinstance(e, ast.Constant) and isinstance(e.value, (int, float)) and not isinstance(e.value, bool):
        return e.value
    if isinstance(e, ast.Call) and (dotted(e.func) or '').split('.')[-1] in ('float32', 'FLOAT', 'float64', 'float') and e.args:
        return num(e.args[0])
    return None


def pow2_biases(fn):
    """constants c in 2**(c - X)"""
    out = []
    for n in walk_expr(fn):
        if isinstance(n, ast.BinOp) and isinstance(n.op, ast.Pow) and num(n.left) == 2:
            r = n.right
            while isinstance(r, ast.Call) and r.args:
                r = r.args[0]
            if isinstance(r, ast.BinOp) and isinstance(r.op, ast.Sub) and num(r.left) is not None:
                out.append((n, num(r.left)))
            elif isinstance(r, ast.BinOp) and isinstance(r.op, ast.Sub) and num(r.right) is not None:
                # the reciprocal spelled directly: 2**(X - c) = 1 / 2**(c - X)
                out.append((n, num(r.right)))
    return out


def run(ctx):
    for r, d in (('R-ARLCONST', 'same exponent bias and byte offset in pack2d and unpack; rounding = offset + 0.5; precision = 2**e / (2 x offset)'),
                 ('R-EXPROUND', 'stored exponent > log2(max difference) in every sign/integrality class'),
                 ('R-WORKPREC', 'encoder and decoder compute in float32'),
                 ('R-ARLWIDTH', 'index-record widths: writer = reader = length formula'),
                 ('R-HDRFMT', 'header numbers formatted to their field width'),
                 ('R-LAYKEYSHAPE', "props['laykeys'] has one shape for producers and consumer"),
                 ('R-TDSECONDS', 'elapsed time from total_seconds()')):
        ctx.rule(r, d)
    mod = ctx.src.mod(RP)
    pack = mod.func('pack2d')
    unp = mod.func('unpack')
    wp = 'src/PseudoNetCDF/%s pack2d' % RP
    wu = 'src/PseudoNetCDF/%s unpack' % RP
    # ---- R-ARLCONST
    bp, bu = pow2_biases(pack), pow2_biases(unp)
    if not bp or not bu:
        raise AnalysisError('construct not understood: 2**(c - E) scale in pack2d/unpack')
    cs = set(c for n, c in bp) | set(c for n, c in bu)
    if len(cs) == 1:
        ctx.ok('R-ARLCONST', 'exponent bias', wp, 'pack2d %s, unpack %s' % ([c for n, c in bp], [c for n, c in bu]))
    else:
        n = (bp + bu)[0][0]
        ctx.violation(Finding('R-ARLCONST', RP, 'pack2d/unpack', api.stmt_of(n),
                              'encoder scales by 2**(%s - e) but decoder by 2**(%s - e)' % ([c for n, c in bp], [c for n, c in bu])))
    # offsets: constants K in (X - K) with 100 < K < 200 ; rounding constants in (X + K)
    def offsets(fn):
        sub, add, div = [], [], []
        for n in walk_expr(fn):
            if isinstance(n, ast.BinOp):
                k = num(n.right)
                if k is not None and 100 < k < 300:
                    if isinstance(n.op, ast.Sub):
                        sub.append((n, k))
                    elif isinstance(n.op, ast.Add):
                        add.append((n, k))
                    elif isinstance(n.op, ast.Div):
                        div.append((n, k))
        return sub, add, div
    ps, pa, pd = offsets(pack)
    us, ua, ud = offsets(unp)
    offs = set(k for n, k in ps) | set(k for n, k in us)
    if not ps or not us or not pa:
        raise AnalysisError('construct not understood: byte offset / rounding constants')
    if len(offs) == 1:
        ctx.ok('R-ARLCONST', 'byte offset', wp, 'pack2d subtracts %s, unpack subtracts %s' % (sorted(set(k for n, k in ps)), sorted(set(k for n, k in us))))
    else:
        ctx.violation(Finding('R-ARLCONST', RP, 'pack2d/unpack', api.stmt_of((ps + us)[0][0]),
                              'encoder reconstructs with byte offset %s but the decoder subtracts %s' % (sorted(set(k for n, k in ps)), sorted(set(k for n, k in us)))))
    off = sorted(offs)[0]
    badr = [(n, k) for n, k in pa if k != off + 0.5]
    if badr:
        ctx.violation(Finding('R-ARLCONST', RP, 'pack2d', api.stmt_of(badr[0][0]), 'rounding constant %s is not offset + 0.5 = %s' % (badr[0][1], off + 0.5)))
    else:
        ctx.ok('R-ARLCONST', 'rounding', wp, '+%s = offset + 0.5 at %d sites' % (off + 0.5, len(pa)))
    badd = [(n, k) for n, k in pd if k != 2 * off]
    if pd and not badd:
        ctx.ok('R-ARLCONST', 'precision denominator', wp, '%s = 2 x offset' % pd[0][1])
    elif badd:
        ctx.violation(Finding('R-ARLCONST', RP, 'pack2d', api.stmt_of(badd[0][0]), 'precision denominator %s is not 2 x offset' % badd[0][1]))
    # ---- the byte offset is subtracted in floating point (uint8 - int stays uint8 and wraps below the offset)
    for n_, k_ in us:
        if isinstance(n_.right, ast.Constant) and isinstance(n_.right.value, int) and 'uint8' in norm(n_.left):
            ctx.violation(Finding('R-WORKPREC', RP, 'unpack', api.stmt_of(n_), 'the offset %d is subtracted from the uint8 view as a Python integer: the result stays uint8, so every byte below the offset '
                                  '(a negative difference) wraps around instead of becoming negative' % k_), oid='uint8 offset')
        elif 'uint8' in norm(n_.left):
            ctx.ok('R-WORKPREC', 'uint8 offset', wu, norm(n_)[:60])
    # ---- R-EXPROUND
    guard = None
    for st in iter_stmts(pack.body):
        if isinstance(st, ast.If) and any(isinstance(s, ast.Assign) and norm(s) in ('NEXP = NEXP + 1',) or
                                          (isinstance(s, ast.AugAssign) and norm(s) == 'NEXP += 1') for s in st.body):
            guard = st
    trunc = any(isinstance(s, ast.Assign) and norm(s) in ('NEXP = INT(SEXP)', 'NEXP = int(SEXP)', 'NEXP = np.int32(SEXP)') for s in iter_stmts(pack.body))
    if guard is None or not trunc:
        raise AnalysisError('construct not understood: exponent rounding in pack2d (NEXP = INT(SEXP); if ...: NEXP += 1)')
    classes = {'negative non-integer': dict(ge0=False, gt0=False, integer=False, need=False),
               'negative integer': dict(ge0=False, gt0=False, integer=True, need=True),
               'zero': dict(ge0=True, gt0=False, integer=True, need=True),
               'positive non-integer': dict(ge0=True, gt0=True, integer=False, need=True),
               'positive integer': dict(ge0=True, gt0=True, integer=True, need=True)}

    def evalg(t, c):
        s = norm(t).replace('(', '').replace(')', '').replace(' ', '')
        if isinstance(t, ast.BoolOp):
            vals = [evalg(x, c) for x in t.values]
            if None in vals:
                return None
            return any(vals) if isinstance(t.op, ast.Or) else all(vals)
        if isinstance(t, ast.UnaryOp) and isinstance(t.op, ast.Not):
            v = evalg(t.operand, c)
            return None if v is None else not v
        table = {'SEXP>=0.0': c['ge0'], 'SEXP>=0': c['ge0'], 'SEXP>0.0': c['gt0'], 'SEXP>0': c['gt0'],
                 'SEXP<0.0': not c['ge0'], 'SEXP<0': not c['ge0'], 'SEXP<=0.0': not c['gt0'], 'SEXP<=0': not c['gt0'],
                 'SEXP%1.0==0.0': c['integer'], 'SEXP%1==0': c['integer'], 'SEXP%1.0!=0.0': not c['integer'],
                 'SEXP==NEXP': c['integer'], 'NEXP==SEXP': c['integer'], 'SEXP==0.0': c['ge0'] and not c['gt0']}
        return table.get(s)
    und = False
    for cname, c in classes.items():
        g = evalg(guard.test, c)
        if g is None:
            und = True
            continue
        if c['need'] and not g:
            ctx.violation(Finding('R-EXPROUND', RP, 'pack2d', 'if ' + norm(guard.test) + ': NEXP = NEXP + 1',
                                  'when log2(max neighbour difference) is a %s the exponent is not rounded up: INT() truncates to a '
                                  'value that is not greater than it, so the scaled difference reaches +-128 and is clipped or wraps' % cname,
                                  lineno=guard.lineno), oid=cname)
        else:
            ctx.ok('R-EXPROUND', cname, wp, 'guard %s -> exponent %s' % (g, 'incremented' if g else 'already above (truncation toward zero)'))
    if und:
        ctx.undec('R-EXPROUND', norm(guard.test)[:60], wp, 'guard uses a comparison outside the finite table')
    # ---- R-WORKPREC
    rv = None
    for st in iter_stmts(pack.body):
        if isinstance(st, ast.Assign) and isinstance(st.targets[0], ast.Name) and st.targets[0].id == 'RVAR':
            rv = st
    if rv is None:
        raise AnalysisError('anchor vanished: RVAR in pack2d')
    t = norm(rv.value)
    f32 = bool(re.search(r"astype\(('f'|'f4'|'float32'|np\.float32|FLOAT|'>f'|'<f')\)", t)) or 'float32(' in t or "dtype='f'" in t
    if f32:
        ctx.ok('R-WORKPREC', 'pack2d RVAR', wp, t)
    else:
        ctx.violation(Finding('R-WORKPREC', RP, 'pack2d', rv, 'the working copy of the field is not cast to float32: exponent and running '
                              'reconstruction are computed in the input precision and no longer mirror the float32 decoder'))
    ut = ' ; '.join(norm(s) for s in unp.body)
    if "astype('f')" in ut and 'np.float32(' in ut:
        ctx.ok('R-WORKPREC', 'unpack', wu, 'float32 first value, scale and offset')
    else:
        ctx.violation(Finding('R-WORKPREC', RP, 'unpack', unp.body[-1], 'decoder no longer computes in float32'))
    # ---- R-ARLWIDTH
    wv = mod.func('writevardef')
    rvd = mod.func('readvardef')
    mp = mod.func('maparlpackedbit')

    INF = 10 ** 9

    def wrange(e):
        """(least, greatest) number of characters of a text expression.  (0, INF): arbitrary text (taken from the caller's data);
        None: not known (a value the checker cannot trace).  %Nd counts as N wide (values are assumed to fit their field)"""
        if isinstance(e, ast.Constant) and isinstance(e.value, str):
            return (len(e.value), len(e.value))
        if isinstance(e, ast.BinOp) and isinstance(e.op, ast.Mod) and const_str(e.left) is not None:
            ps = template_pieces(e)
            if ps is None or any(p_ is None for p_ in ps):
                return None
            return (sum(p_[0] for p_ in ps), min(INF, sum(p_[1] for p_ in ps)))
        if isinstance(e, ast.Call) and isinstance(e.func, ast.Attribute) and e.func.attr in ('decode', 'encode'):
            return wrange(e.func.value)
        if isinstance(e, ast.Call) and isinstance(e.func, ast.Attribute) and e.func.attr in ('ljust', 'rjust', 'center') and e.args and num(e.args[0]) is not None:
            r_ = wrange(e.func.value)
            n_ = int(num(e.args[0]))
            if r_ is None:
                return (n_, INF)
            return (max(n_, r_[0]), max(n_, r_[1]))
        if isinstance(e, ast.Subscript) and isinstance(e.slice, ast.Slice) and e.slice.lower is None and num(e.slice.upper) is not None and e.slice.step is None:
            r_ = wrange(e.value)
            n_ = int(num(e.slice.upper))
            if r_ is None:
                return (n_, n_)        # untraced text cut to N: taken to fill its field (as the reader does)
            return (min(n_, r_[0]), min(n_, r_[1]))
        if isinstance(e, ast.Name):
            return name_range(e.id)
        return None

    def template_pieces(e):
        """%-template applied to arguments -> list of (least, greatest) per literal run and per conversion, or None"""
        tmpl = const_str(e.left)
        args = list(e.right.elts) if isinstance(e.right, ast.Tuple) else [e.right]
        out, pos, k = [], 0, 0
        for m in re.finditer(r'%(-?)(\d*)(\.\d+)?([dsEefi%])', tmpl):
            lit = tmpl[pos:m.start()]
            if '%' in lit:
                return None
            if lit:
                out.append((len(lit), len(lit)))
            pos = m.end()
            if m.group(4) == '%':
                out.append((1, 1))
                continue
            n_ = int(m.group(2)) if m.group(2) else 0
            if m.group(4) == 's':
                r_ = wrange(args[k]) if k < len(args) else None
                out.append(None if r_ is None else (max(n_, r_[0]), max(n_, r_[1])))
            elif n_:
                out.append((n_, n_))
            else:
                out.append(None)
            k += 1
        if '%' in tmpl[pos:]:
            return None
        if tmpl[pos:]:
            out.append((len(tmpl) - pos, len(tmpl) - pos))
        return out

    def provenance(nm, depth=0):
        """'param' when the name holds (part of) an argument of writevardef; ('call', F) when it holds (an element of) what module
        function F returns; None otherwise"""
        if depth > 5:
            return None
        if nm in [a_.arg for a_ in wv.args.args]:
            return 'param'
        for lp in [x for x in ast.walk(wv) if isinstance(x, ast.For)]:
            tg = lp.target.elts if isinstance(lp.target, ast.Tuple) else [lp.target]
            its = lp.iter.args if isinstance(lp.iter, ast.Call) and dotted(lp.iter.func) == 'zip' else [lp.iter]
            if len(tg) == len(its):
                for t_, it_ in zip(tg, its):
                    if isinstance(t_, ast.Name) and t_.id == nm:
                        b_ = it_
                        while isinstance(b_, (ast.Subscript, ast.Attribute)):
                            b_ = b_.value
                        return provenance(b_.id, depth + 1) if isinstance(b_, ast.Name) else None
        defs = [st for st in iter_stmts(wv.body) if isinstance(st, ast.Assign) and len(st.targets) == 1 and isinstance(st.targets[0], ast.Name) and st.targets[0].id == nm]
        if len(defs) == 1:
            v = defs[0].value
            if isinstance(v, ast.Call) and isinstance(v.func, ast.Name) and v.func.id in mod.functions:
                return ('call', v.func.id)
            b_ = v
            while isinstance(b_, (ast.Subscript, ast.Attribute)):
                b_ = b_.value
            if isinstance(b_, ast.Name) and b_.id != nm:
                return provenance(b_.id, depth + 1)
        return None

    def guarded_len(fn_, v_, before):
        """N when fn_ raises unless len(v_) == N at a statement before line `before`"""
        for st in iter_stmts(fn_.body):
            if isinstance(st, ast.If) and st.body and isinstance(st.body[-1], ast.Raise) and isinstance(st.test, ast.Compare) and len(st.test.ops) == 1 \
                    and isinstance(st.test.ops[0], ast.NotEq) and norm(st.test.left) == 'len(%s)' % v_ and num(st.test.comparators[0]) is not None and st.lineno < before:
                return int(num(st.test.comparators[0]))
        return None

    def scalar_width(fname):
        f_ = mod.functions[fname]
        rets = [st for st in iter_stmts(f_.body) if isinstance(st, ast.Return)]
        ws_ = set(guarded_len(f_, st.value.id, st.lineno) if isinstance(st.value, ast.Name) else None for st in rets)
        return list(ws_)[0] if len(ws_) == 1 and None not in ws_ else None

    def elem_width(fname):
        """width of every element of the list module function fname returns, or None"""
        f_ = mod.functions[fname]
        rets = [st for st in iter_stmts(f_.body) if isinstance(st, ast.Return)]
        if len(rets) != 1:
            return None
        rv = rets[0].value
        if isinstance(rv, ast.ListComp) and isinstance(rv.elt, ast.Call) and isinstance(rv.elt.func, ast.Name) and rv.elt.func.id in mod.functions:
            return scalar_width(rv.elt.func.id)
        if isinstance(rv, ast.Name):
            aps = [c for c in ast.walk(f_) if isinstance(c, ast.Call) and isinstance(c.func, ast.Attribute) and c.func.attr == 'append'
                   and isinstance(c.func.value, ast.Name) and c.func.value.id == rv.id and len(c.args) == 1]
            ws_ = set()
            for ap in aps:
                a_ = ap.args[0]
                if isinstance(a_, ast.Name):
                    ws_.add(guarded_len(f_, a_.id, ap.lineno))
                elif isinstance(a_, ast.Call) and isinstance(a_.func, ast.Name) and a_.func.id in mod.functions:
                    ws_.add(scalar_width(a_.func.id))
                else:
                    ws_.add(None)
            return list(ws_)[0] if len(ws_) == 1 and None not in ws_ else None
        return None

    def name_range(nm):
        pv = provenance(nm)
        if pv == 'param':
            return (0, INF)
        if isinstance(pv, tuple):
            n_ = elem_width(pv[1])
            return (n_, n_) if n_ is not None else None
        return None

    def width(e):
        r_ = wrange(e)
        if r_ is None:
            return None
        lo, hi = r_
        if lo == hi:
            return lo
        if hi < INF:
            return ('upto', lo, hi)
        return None

    def concat_terms(e):
        if isinstance(e, ast.BinOp) and isinstance(e.op, ast.Add):
            return concat_terms(e.left) + concat_terms(e.right)
        return [e]

    def piece_widths(st, t_):
        """a %-template contributes one piece per literal run and conversion, anything else one piece"""
        if isinstance(t_, ast.BinOp) and isinstance(t_.op, ast.Mod) and const_str(t_.left) is not None:
            ps = template_pieces(t_)
            if ps is not None and all(p_ is not None for p_ in ps):
                return [(st, p_[0] if p_[0] == p_[1] else (('upto', p_[0], p_[1]) if p_[1] < INF else None)) for p_ in ps]
        return [(st, width(t_))]

    def emitted(body, name=None):
        """pieces of text appended, in order, by the statements of this block: `acc += piece` or `acc.append(piece + piece ...)`"""
        out = []
        for st in body:
            if isinstance(st, ast.AugAssign) and isinstance(st.target, ast.Name) and isinstance(st.op, ast.Add):
                for t_ in concat_terms(st.value):
                    out.extend(piece_widths(st, t_))
            elif isinstance(st, ast.Expr) and isinstance(st.value, ast.Call) and isinstance(st.value.func, ast.Attribute) and st.value.func.attr == 'append' \
                    and isinstance(st.value.func.value, ast.Name) and len(st.value.args) == 1:
                for t_ in concat_terms(st.value.args[0]):
                    out.extend(piece_widths(st, t_))
        return out
    outer = None
    for st in wv.body:
        if isinstance(st, ast.For):
            outer = st
    inner = [st for st in outer.body if isinstance(st, ast.For)] if outer else []
    if outer is None or not inner:
        raise AnalysisError('construct not understood: writevardef loops')
    w_lvl = emitted(outer.body)
    w_var = emitted(inner[0].body)
    # reader
    wl = [st for st in rvd.body if isinstance(st, ast.While)]
    if not wl:
        raise AnalysisError('construct not understood: readvardef loop')
    rin = [st for st in wl[0].body if isinstance(st, ast.For)]

    # the running text: the name that is re-bound to an open-ended slice of itself
    running = None
    for st in iter_stmts(wl[0].body):
        if isinstance(st, ast.Assign) and isinstance(st.targets[0], ast.Name) and isinstance(st.value, ast.Subscript) and isinstance(st.value.value, ast.Name) \
                and st.value.value.id == st.targets[0].id and isinstance(st.value.slice, ast.Slice) and st.value.slice.upper is None:
            running = st.targets[0].id
    if running is None:
        raise AnalysisError('construct not understood: readvardef does not advance through the text by re-slicing it')

    def slices_and_advance(body, name=None):
        """(start, stop) of every field read from the running text in this block - directly or through an entry sliced off it
        first - and the number of characters the block advances"""
        name = name or running
        sl, adv = [], None
        entry = {}         # local -> offset of the slice of the running text it holds
        for st in body:
            if isinstance(st, ast.For):
                continue
            if isinstance(st, ast.Assign) and isinstance(st.targets[0], ast.Name) and isinstance(st.value, ast.Subscript) and isinstance(st.value.value, ast.Name) \
                    and st.value.value.id == name and isinstance(st.value.slice, ast.Slice) and st.value.slice.upper is not None and st.targets[0].id != name:
                entry[st.targets[0].id] = int(num(st.value.slice.lower)) if st.value.slice.lower is not None else 0
                continue
            def span(n):
                """(start, stop or None) of a slicing expression relative to the running text, through entries and nested slices"""
                if not (isinstance(n, ast.Subscript) and isinstance(n.slice, ast.Slice)):
                    return None
                lo = int(num(n.slice.lower)) if n.slice.lower is not None else 0
                up = int(num(n.slice.upper)) if n.slice.upper is not None else None
                b_ = n.value
                if isinstance(b_, ast.Name) and b_.id == name:
                    off = 0
                elif isinstance(b_, ast.Name) and b_.id in entry:
                    off = entry[b_.id]
                else:
                    inner = span(b_)
                    if inner is None:
                        return None
                    off = inner[0]
                return (off + lo, (off + up) if up is not None else None)
            inner_ids = set(id(n.value) for n in walk_expr(st) if isinstance(n, ast.Subscript) and isinstance(n.slice, ast.Slice))
            for n in walk_expr(st):
                if id(n) in inner_ids:
                    continue
                sp = span(n)
                if sp is None:
                    continue
                if sp[1] is None:
                    if isinstance(n.value, ast.Name) and n.value.id == name and isinstance(st, ast.Assign) and isinstance(st.targets[0], ast.Name) and st.targets[0].id == name:
                        adv = sp[0]
                else:
                    sl.append(sp)
        return sl, adv
    r_lvl, a_lvl = slices_and_advance(wl[0].body)
    r_var, a_var = slices_and_advance(rin[0].body) if rin else ([], None)
    where = 'src/PseudoNetCDF/%s writevardef/readvardef' % RP

    def cmp(kind, ws, rs, adv):
        widths = [w for st, w in ws]
        if not ws:
            raise AnalysisError('construct not understood: no text pieces written per %s entry in writevardef' % kind)
        ragged = [(st_, w) for st_, w in ws if isinstance(w, tuple)]
        if ragged:
            st_, w = ragged[0]
            ctx.violation(Finding('R-ARLWIDTH', RP, 'writevardef', st_,
                                  '%s entry: a written piece is between %d and %d characters wide (it is cut but not padded to its field), while the reader slices '
                                  'fixed fields %s: a shorter value shifts everything after it' % (kind, w[1], w[2], rs)))
            return
        if None in widths:
            ctx.undec('R-ARLWIDTH', kind, where, 'a written piece has no static width')
            return
        cum, pos = [], 0
        for w in widths:
            cum.append((pos, pos + w))
            pos += w
        okk = all(s in cum for s in rs) and adv == pos
        if okk:
            ctx.ok('R-ARLWIDTH', kind, where, 'writer widths %s; reader slices %s, advance %s' % (widths, rs, adv))
        else:
            ctx.violation(Finding('R-ARLWIDTH', RP, 'writevardef', ws[0][0],
                                  '%s entry: writer emits widths %s (fields %s, %d characters) but the reader slices %s and advances %s'
                                  % (kind, widths, cum, pos, rs, adv)))
        return widths
    wl_w = cmp('level', w_lvl, r_lvl, a_lvl)
    wv_w = cmp('variable', w_var, r_var, a_var)
    # length formula in maparlpackedbit: 6 + 2 + (4 + 3 + 1) * len(...)
    forms = [st for st in iter_stmts(mp.body) if isinstance(st, ast.Assign) and isinstance(st.targets[0], ast.Name) and st.targets[0].id in ('srflen', 'laylen')]
    for st in forms:
        p = to_poly(st.value, atomize=lambda n: 'N' if isinstance(n, ast.Call) and dotted(n.func) == 'len' else ('Z' if 'NZ' in norm(n) else None))
        # coefficient structure: const part and N part
        const = p.t.get((), 0) + p.t.get((('Z', 1),), 0) * 0
        if wl_w and wv_w:
            want_c, want_n = sum(wl_w), sum(wv_w)
            got_c = p.t.get((), None) if st.targets[0].id == 'srflen' else p.t.get((('Z', 1),), None)
            got_n = p.t.get((('N', 1),), None) if st.targets[0].id == 'srflen' else p.t.get((('N', 1), ('Z', 1)), None)
            if got_c == want_c and got_n == want_n:
                ctx.ok('R-ARLWIDTH', st.targets[0].id, 'src/PseudoNetCDF/%s maparlpackedbit' % RP, '%s = %s' % (st.targets[0].id, p))
            else:
                ctx.violation(Finding('R-ARLWIDTH', RP, 'maparlpackedbit', st,
                                      'record-length formula uses %s + %s*n per level but writevardef emits %d + %d*n characters' % (got_c, got_n, want_c, want_n)))
    # ---- R-HDRFMT: '%Nd' % x stored into thead[...] / varhead[...] fields
    import numpy as _np  # dtype literal evaluation on constants only
    fieldw = {}
    for tname in ('thdtype', 'vhdtype'):
        val = mod.assigns.get(tname)
        if val is None:
            raise AnalysisError('anchor vanished: %s' % tname)
        for tup in val.args[0].elts:
            fname, fmt = const_str(tup.elts[0]), const_str(tup.elts[1])
            m = re.match(r'^>?(\d+)S$|^>?S(\d+)$', fmt)
            fieldw[(tname, fname)] = int(m.group(1) or m.group(2))
    wr = mod.func('writearlpackedbit')
    nf = 0
    for st in iter_stmts(wr.body):
        if isinstance(st, ast.Assign) and isinstance(st.targets[0], ast.Subscript) and isinstance(st.value, ast.BinOp) \
                and isinstance(st.value.op, ast.Mod) and const_str(st.value.left):
            tgt = st.targets[0]
            base = tgt
            keys = []
            while isinstance(base, ast.Subscript):
                if const_str(base.slice):
                    keys.append(const_str(base.slice))
                base = base.value
            if not isinstance(base, ast.Name) or base.id not in ('thead', 'varhead') or not keys:
                # thead[propk] = '%3d' % ... with propk in a guarded tuple
                if isinstance(base, ast.Name) and base.id == 'thead' and isinstance(tgt.slice, ast.Name):
                    par = getattr(st, '_parent', None)
                    names = []
                    if isinstance(par, ast.If):
                        for c in ast.walk(par.test):
                            if isinstance(c, ast.Constant) and isinstance(c.value, str):
                                names.append(c.value)
                    keys = names
                else:
                    continue
            w = width(st.value)
            tname = 'thdtype' if base.id == 'thead' else 'vhdtype'
            for k in keys:
                fw = fieldw.get((tname, k))
                if fw is None:
                    continue
                nf += 1
                if w == fw:
                    ctx.ok('R-HDRFMT', '%s[%s]' % (base.id, k), 'src/PseudoNetCDF/%s writearlpackedbit' % RP, "%s into a %d-character field" % (const_str(st.value.left), fw))
                else:
                    ctx.violation(Finding('R-HDRFMT', RP, 'writearlpackedbit', st, "'%s' produces %s characters but field %s is %d wide" % (const_str(st.value.left), w, k, fw)))
    ctx.floor('formatted header fields', nf, 8)
    # ---- R-RECLEN: index record and data records have the same length 50 + nx*ny
    # ---- R-ABSMAX: the largest *absolute* difference (abs before max) on both axes
    from .. import consteval
    ctx.rule('R-ABSMAX', 'pack2d: the range estimate is the maximum of absolute differences along rows and along columns (abs applied before max)')
    pk = mod.func('pack2d')
    wpk = 'src/PseudoNetCDF/%s pack2d' % RP
    rmax = [st for st in iter_stmts(pk.body) if isinstance(st, ast.Assign) and norm(st.targets[0]) == 'RMAX' and isinstance(st.value, ast.Call)]
    comps = []
    for st in rmax:
        for a in st.value.args:
            if isinstance(a, ast.Name):
                comps += [s2 for s2 in iter_stmts(pk.body) if isinstance(s2, ast.Assign) and norm(s2.targets[0]) == a.id]

    def absmax_shape(e):
        # max(abs(X)) in either spelling -> 'ok'; abs(max(X)) -> 'swapped'; else None
        def is_abs(c):
            return isinstance(c, ast.Call) and dotted(c.func) in ('np.abs', 'np.absolute', 'abs', 'np.fabs')

        def is_max(c):
            return isinstance(c, ast.Call) and ((isinstance(c.func, ast.Attribute) and c.func.attr == 'max' and not dotted(c.func) in ('np.max',)) or dotted(c.func) in ('np.max', 'np.amax', 'max', 'np.nanmax'))

        def inner(c):
            if isinstance(c.func, ast.Attribute) and dotted(c.func) not in ('np.max', 'np.amax', 'np.nanmax', 'np.abs', 'np.absolute', 'np.fabs'):
                return c.func.value
            return c.args[0] if c.args else None
        if is_max(e) and inner(e) is not None and is_abs(inner(e)):
            return 'ok'
        if is_abs(e) and inner(e) is not None and is_max(inner(e)):
            return 'swapped'
        return None
    if len(comps) < 2:
        ctx.undec('R-ABSMAX', 'RMAX', wpk, 'components of RMAX not found')
    for st in comps:
        sh = absmax_shape(st.value)
        if sh == 'ok':
            ctx.ok('R-ABSMAX', norm(st.targets[0]), wpk, 'max(abs(diff))')
        elif sh == 'swapped':
            ctx.violation(Finding('R-ABSMAX', RP, 'pack2d', st, '%s is abs(max(diff)): the largest signed difference, so a field whose steepest step is negative gets too small an exponent '
                                  'and the packed differences overflow a byte' % norm(st.targets[0])))
        else:
            ctx.undec('R-ABSMAX', norm(st.targets[0]), wpk, 'not in the max(abs(.)) form: %s' % norm(st.value)[:60])
    # ---- R-PRECAFTER: the precision of the label belongs to the exponent that is stored, i.e. it is computed after the last change of NEXP
    ctx.rule('R-PRECAFTER', 'pack2d: PREC is computed from NEXP after the last assignment to NEXP (the rounded-up exponent)')
    stl = list(iter_stmts(pk.body))
    precs = [i_ for i_, st in enumerate(stl) if isinstance(st, ast.Assign) and norm(st.targets[0]) == 'PREC' and 'NEXP' in norm(st.value)]
    nexps = [i_ for i_, st in enumerate(stl) if isinstance(st, (ast.Assign, ast.AugAssign)) and any(norm(t) == 'NEXP' for t in (st.targets if isinstance(st, ast.Assign) else [st.target]))]
    if not precs or not nexps:
        ctx.undec('R-PRECAFTER', 'PREC', wpk, 'PREC / NEXP assignments not found')
    elif min(precs) > max(nexps):
        ctx.ok('R-PRECAFTER', 'PREC', wpk, 'after the last NEXP assignment')
    else:
        ctx.violation(Finding('R-PRECAFTER', RP, 'pack2d', stl[min(precs)], 'PREC is computed before NEXP gets its final value: whenever the exponent is rounded up the label carries half the precision that '
                              'belongs to the stored exponent'))
    # ---- R-KSUM: the recorded checksum is the byte sum with end-around carry (modulo 255), as the ARL decoder recomputes it
    ctx.rule('R-KSUM', 'pack2d: the checksum is the sum of the packed bytes reduced modulo 255 (end-around carry), not masked to eight bits')
    ks = [st for st in iter_stmts(pk.body) if isinstance(st, ast.Assign) and norm(st.targets[0]) == 'KSUM' and not isinstance(st.value, ast.Constant)]
    if not ks:
        ctx.undec('R-KSUM', 'KSUM', wpk, 'no computed KSUM')
    for st in ks[-1:]:
        verdict = None
        for n_ in walk_expr(st.value):
            if isinstance(n_, ast.BinOp) and isinstance(n_.op, ast.Mod) and isinstance(n_.right, ast.Constant):
                verdict = verdict or ('ok' if n_.right.value == 255 else 'modulo %r' % n_.right.value)
            if isinstance(n_, ast.BinOp) and isinstance(n_.op, ast.BitAnd):
                verdict = 'bit mask %s' % norm(n_)[-12:]
            if isinstance(n_, ast.Call) and (dotted(n_.func) or '').split('.')[-1] in ('mod', 'remainder', 'fmod') and len(n_.args) == 2 and isinstance(n_.args[1], ast.Constant):
                verdict = verdict or ('ok' if n_.args[1].value == 255 else 'modulo %r' % n_.args[1].value)
        sums = any(isinstance(n_, ast.Call) and (dotted(n_.func) or norm(n_.func)).split('.')[-1] == 'sum' and 'CVAR' in norm(n_) for n_ in walk_expr(st.value))
        if verdict == 'ok' and sums:
            ctx.ok('R-KSUM', 'KSUM', wpk, norm(st)[:60])
        elif verdict is None or not sums:
            ctx.undec('R-KSUM', 'KSUM', wpk, 'not a reduction of CVAR.sum(): %s' % norm(st.value)[:60])
        else:
            ctx.violation(Finding('R-KSUM', RP, 'pack2d', st, 'the byte sum is reduced by %s instead of modulo 255: as soon as the sum reaches 256 the recorded checksum differs from the byte sum with end-around '
                                  'carry that a reader of the record recomputes' % verdict))
    # ---- R-STAMPFMT: the time of an index record is the YYMMDDHH part of the stamp; the forecast hour FF is no part of it
    ctx.rule('R-STAMPFMT', 'reader: the YYMMDDHHFF stamp is cut to its first eight characters and parsed as %y%m%d%H (FF is the forecast hour, not minutes)')
    ri = mod.func('arlpackedbit.__init__')
    wri = 'src/PseudoNetCDF/%s arlpackedbit.__init__' % RP
    nst = 0
    renv = dict((s2.targets[0].id, s2.value) for s2 in iter_stmts(ri.body) if isinstance(s2, ast.Assign) and len(s2.targets) == 1 and isinstance(s2.targets[0], ast.Name))
    for c in walk_expr(ri):
        if not (isinstance(c, ast.Call) and isinstance(c.func, ast.Attribute) and c.func.attr == 'strptime' and len(c.args) == 2):
            continue
        fmt = const_str(c.args[1]) or (const_str(renv.get(c.args[1].id)) if isinstance(c.args[1], ast.Name) and c.args[1].id in renv else None)
        nst += 1
        cut = None
        for n_ in walk_expr(c.args[0]):
            if isinstance(n_, ast.Call) and isinstance(n_.func, ast.Attribute) and n_.func.attr == 'astype' and n_.args and const_str(n_.args[0]) and re.match(r'^[|<>=]?S(\d+)$', const_str(n_.args[0])):
                cut = int(re.match(r'^[|<>=]?S(\d+)$', const_str(n_.args[0])).group(1))
            if isinstance(n_, ast.Subscript) and isinstance(n_.slice, ast.Slice) and n_.slice.lower is None and isinstance(n_.slice.upper, ast.Constant) and n_.slice.step is None:
                cut = n_.slice.upper.value
        if fmt is None:
            ctx.undec('R-STAMPFMT', 'strptime', wri, 'format is not a literal')
            continue
        direct = re.findall(r'%(.)', fmt)
        # Fortran writes the stamp with I2 fields: ' 5 1 3 6' is 2005-01-03 06; blanks become zeros before the text is parsed
        blank0 = False
        for n_ in walk_expr(c.args[0]):
            if isinstance(n_, ast.Name) and n_.id in renv:
                pass
        srcs = [c.args[0]] + [renv[x.id] for x in ast.walk(c.args[0]) if isinstance(x, ast.Name) and x.id in renv]
        compit = [x for x in ast.walk(ri) if isinstance(x, (ast.ListComp, ast.GeneratorExp)) and any(y is c for y in ast.walk(x))]
        for cp_ in compit:
            it_ = cp_.generators[0].iter
            srcs += [renv[x.id] for x in ast.walk(it_) if isinstance(x, ast.Name) and x.id in renv] + [it_]
        for e_ in srcs:
            if any(isinstance(x, ast.Call) and (dotted(x.func) or norm(x.func)).split('.')[-1] == 'replace' and len(x.args) >= 2 and
                   any(isinstance(a_, ast.Constant) and a_.value in (b' ', ' ') for a_ in x.args) and any(isinstance(a_, ast.Constant) and a_.value in (b'0', '0') for a_ in x.args) for x in ast.walk(e_)):
                blank0 = True
        if direct == ['y', 'm', 'd', 'H'] and cut == 8 and blank0:
            ctx.ok('R-STAMPFMT', 'strptime', wri, "blanks replaced by zeros, first 8 characters parsed with '%s'" % fmt)
        elif direct == ['y', 'm', 'd', 'H'] and cut == 8:
            ctx.violation(Finding('R-STAMPFMT', RP, 'arlpackedbit.__init__', api.stmt_of(c), 'the stamp is parsed without replacing blanks by zeros first: stamps written with Fortran I2 fields ( 5 1 3 6 for '
                                  '2005-01-03 06) make strptime raise, so a correctly laid-out file cannot be opened'))
        else:
            ctx.violation(Finding('R-STAMPFMT', RP, 'arlpackedbit.__init__', api.stmt_of(c), "the stamp YYMMDDHHFF is parsed with '%s' from %s: the two characters after the hour are the forecast hour; read as part "
                                  'of the time they shift the reference date and the hour offsets of the records' % (fmt, 'its first %s characters' % cut if cut else 'the whole field')))
    ctx.floor('time stamp parses in the ARL reader', nst, 1)
    # the within-row term differences the whole field: cutting columns off before np.diff drops the step between them and their neighbour
    for st in comps:
        for c in walk_expr(st.value):
            if isinstance(c, ast.Call) and (dotted(c.func) or '').split('.')[-1] == 'diff' and c.args and kw(c, 'axis') is not None and norm(kw(c, 'axis')) in ('1', '-1'):
                a0 = c.args[0]
                if isinstance(a0, ast.Subscript):
                    ctx.violation(Finding('R-ABSMAX', RP, 'pack2d', st, 'the within-row differences are taken over %s, not over the whole field: the step between the first columns never enters RMAX, the '
                                          'exponent comes out too small and the packed differences wrap in a byte' % norm(a0)))
                else:
                    ctx.ok('R-ABSMAX', 'row term', wpk, 'np.diff over %s along axis 1' % norm(a0))
    # ---- R-UNPACKPURE: the decoder returns the cumulative sums as they are (the first element is exact; nothing is flushed or clipped)
    ctx.rule('R-UNPACKPURE', 'unpack: nothing is stored into the decoded array after the cumulative sums (no flush-to-zero, clipping or rounding of decoded values)')
    cs_ = [i for i, st in enumerate(unp.body) if isinstance(st, ast.Assign) and any(isinstance(c, ast.Call) and (dotted(c.func) or '').endswith('cumsum') for c in walk_expr(st.value))]
    if not cs_:
        ctx.undec('R-UNPACKPURE', 'unpack', wu, 'no cumulative sum found')
    else:
        last = cs_[-1]
        res_nm = norm(unp.body[last].targets[0])
        later = [st for st in unp.body[last + 1:] if (isinstance(st, ast.Assign) and any(isinstance(t, ast.Subscript) and norm(t.value) == res_nm for t in st.targets)) or
                 (isinstance(st, ast.AugAssign) and norm(st.target).startswith(res_nm)) or
                 (isinstance(st, ast.Assign) and any(norm(t) == res_nm for t in st.targets))]
        if later:
            ctx.violation(Finding('R-UNPACKPURE', RP, 'unpack', later[0], 'the decoded values are changed after the cumulative sums (%s): small non-zero values - also a first element that was stored exactly - '
                                  'no longer come back' % norm(later[0])[:50]))
        else:
            ctx.ok('R-UNPACKPURE', 'unpack', wu, 'returned as summed')
    # ---- R-PACKROUND: both sweeps of pack2d convert a scaled difference to the packed integer in the same way (truncation, as the decoder expects)
    ctx.rule('R-PACKROUND', 'pack2d: the first-column sweep and the row sweep use the same conversion INT((value - previous) * SCEXP + 127.5)')
    ic = [st for st in iter_stmts(pk.body) if isinstance(st, ast.Assign) and norm(st.targets[0]) == 'ICVAL']

    # local aliases of numpy scalar types (INT = np.int32) and single-use value temporaries are resolved: the conversion is what counts
    alias = dict((s2.targets[0].id, norm(s2.value)) for s2 in iter_stmts(pk.body) if isinstance(s2, ast.Assign) and isinstance(s2.targets[0], ast.Name)
                 and norm(s2.value) in ('np.int32', 'np.float32', 'np.int64', 'int', 'float'))

    def shape_of(e, st=None):
        from .. import paths as _paths
        if st is not None:
            env = _paths.dominating_env(pk, st, deep=False)
            env = dict((k_, v_) for k_, v_ in env.items() if isinstance(v_, ast.Subscript) and norm(v_.value) == 'RVAR')     # RNEW = RVAR[..]
            e = _paths.subst(e, env)
        t = re.sub(r'RVAR\[[^\]]*\]', 'RVAR[.]', norm(e))
        for a_, full in alias.items():
            t = re.sub(r'\b%s\(' % re.escape(full), a_ + '(', t) if a_ == 'INT' else t
        if 'INT' not in alias:
            t = re.sub(r'\bnp\.int32\(', 'INT(', t)
        return t
    shapes = sorted(set(shape_of(st.value, st) for st in ic))
    if len(ic) < 2:
        ctx.undec('R-PACKROUND', 'ICVAL', wpk, 'fewer than two conversion sites')
    elif len(shapes) == 1 and shapes[0].startswith('INT('):
        ctx.ok('R-PACKROUND', 'ICVAL', wpk, '%d sites: %s' % (len(ic), shapes[0]))
    else:
        odd = [st for st in ic if not shape_of(st.value, st).startswith('INT(')] or ic[1:]
        ctx.violation(Finding('R-PACKROUND', RP, 'pack2d', odd[0], 'the packed integer is computed as %s here but as %s in the other sweep: for a scaled difference in (-128.5, -127.5) one rounds to -1 '
                              '(stored as byte 255) where the other gives 0, so a steep negative step is decoded about 256 quantisation steps off' % (
                                  shape_of(odd[0].value, odd[0])[:60], [x for x in shapes if x != shape_of(odd[0].value, odd[0])][:1] or shapes[:1])))
    # ---- R-HEADPAIR: the per-record header fields handed to unpack are indexed alike (each record is decoded with its own VAR1 and EXP)
    ctx.rule('R-HEADPAIR', 'reader: VAR1 and EXP passed to unpack come from the header table with the same indexing')
    gvf = mod.func('arlpackedbit._getvar')
    wgv = 'src/PseudoNetCDF/%s arlpackedbit._getvar' % RP
    nh = 0
    from .. import paths as _paths
    for c in ast.walk(gvf):
        if isinstance(c, ast.Call) and dotted(c.func) == 'unpack' and len(c.args) == 3:
            # each argument as written or, when it is a local, the expression that defines it (one level)
            env = _paths.dominating_env(gvf, api.stmt_of(c), deep=False)
            vals = [env.get(a.id, a) if isinstance(a, ast.Name) else a for a in c.args[1:]]
            if not all("['VAR1']" in norm(v) or "['EXP']" in norm(v) for v in vals):
                continue
            nh += 1
            idx = [re.sub(r"\['(VAR1|EXP)'\]", "[F]", norm(v)) for v in vals]
            if idx[0] == idx[1]:
                ctx.ok('R-HEADPAIR', 'unpack@%d' % c.lineno, wgv, '%s / %s' % (norm(vals[0]), norm(vals[1])))
            else:
                ctx.violation(Finding('R-HEADPAIR', RP, 'arlpackedbit._getvar', api.stmt_of(c), 'the first value is taken as %s but the exponent as %s: records of other times/levels are decoded with the '
                                      'exponent of another record' % (norm(vals[0]), norm(vals[1]))))
    ctx.floor('unpack calls with header fields', nh, 2)
    # ---- R-NOSTATE: no mutable default argument that the function fills (the layout of one file must not leak into the next call)
    from .. import lints as _l20
    ctx.rule('R-NOSTATE', 'no function of the ARL module mutates a mutable default argument')
    nmd = 0
    for q_, f_ in sorted(mod.functions.items()):
        if '<locals>' in q_:
            continue
        nmd += 1
        for pn, d_, hit in _l20.mutated_mutable_defaults(f_):
            ctx.violation(Finding('R-NOSTATE', RP, q_, hit, 'parameter %s defaults to a mutable %s that this statement fills: the first call\'s file layout is remembered and silently reused by every later '
                                  'call without that argument' % (pn, norm(d_))), oid='%s:%s' % (q_, pn))
    if not any(o['rule'] == 'R-NOSTATE' and o['status'] == 'violated' for o in ctx.obligations):
        ctx.ok('R-NOSTATE', 'module', 'src/PseudoNetCDF/%s' % RP, '%d functions, no mutated mutable default' % nmd)
    # ---- R-LAYUNION: the reader offers the union of the upper-air variables of all level groups
    ctx.rule('R-LAYUNION', 'arlpackedbit.__init__: the layer variable list is collected over every level group of the index record')
    ini = mod.func('arlpackedbit.__init__')
    wini = 'src/PseudoNetCDF/%s arlpackedbit.__init__' % RP
    lk = [st for st in iter_stmts(ini.body) if isinstance(st, ast.Assign) and norm(st.targets[0]) == 'self._layvarkeys']
    first = [n for st in iter_stmts(ini.body) for n in ast.walk(st) if isinstance(n, ast.Subscript) and "['laykeys']" in norm(n.value) and isinstance(n.slice, ast.Constant)]
    loops_ = [st for st in iter_stmts(ini.body) if isinstance(st, ast.For) and "['laykeys']" in norm(st.iter)] + \
        [c for st in iter_stmts(ini.body) for c in ast.walk(st) if isinstance(c, ast.comprehension) and "['laykeys']" in norm(c.iter)]
    if not lk:
        ctx.undec('R-LAYUNION', '_layvarkeys', wini, 'assignment of self._layvarkeys not found')
    elif first:
        ctx.violation(Finding('R-LAYUNION', RP, 'arlpackedbit.__init__', api.stmt_of(first[0]), 'only level group %s of the index record is consulted for the upper-air variable names: a variable that is written only '
                              'on other levels is missing from the file object' % norm(first[0].slice)))
    elif loops_:
        ctx.ok('R-LAYUNION', '_layvarkeys', wini, 'collected in a loop over every level group')
    else:
        ctx.undec('R-LAYUNION', '_layvarkeys', wini, 'collection idiom not recognised')
    # ---- R-GRIDSLOT: extended-grid offsets: first GRID byte <-> x / NX, second <-> y / NY
    ctx.rule('R-GRIDSLOT', 'inqarlpackedbit: the x offset comes from GRID[0] and is added to NX, the y offset from GRID[1] and is added to NY')
    iq = mod.func('inqarlpackedbit')
    wiq = 'src/PseudoNetCDF/%s inqarlpackedbit' % RP
    # the values stored under 'NX' / 'NY' (item stores or a dict display), temporaries substituted: each is its own header count plus
    # an offset decoded from its own GRID byte
    from .. import paths as _paths
    ng = 0
    vals_ = {}
    for st in iter_stmts(iq.body):
        if isinstance(st, ast.Assign):
            env = None
            for t_ in st.targets:
                if isinstance(t_, ast.Subscript) and const_str(t_.slice) in ('NX', 'NY'):
                    env = env if env is not None else _paths.dominating_env(iq, st)
                    vals_[const_str(t_.slice)] = (_paths.subst(st.value, env), st)
            for d_ in [n for n in ast.walk(st.value) if isinstance(n, ast.Dict)]:
                for k_, v_ in zip(d_.keys, d_.values):
                    if const_str(k_) in ('NX', 'NY'):
                        env = env if env is not None else _paths.dominating_env(iq, st)
                        vals_[const_str(k_)] = (_paths.subst(v_, env), st)
        if isinstance(st, ast.Return) and st.value is not None:
            for d_ in [n for n in ast.walk(st.value) if isinstance(n, ast.Dict)]:
                env = _paths.dominating_env(iq, st)
                for k_, v_ in zip(d_.keys, d_.values):
                    if const_str(k_) in ('NX', 'NY'):
                        vals_[const_str(k_)] = (_paths.subst(v_, env), st)
    for key, gi in (('NX', 0), ('NY', 1)):
        if key not in vals_:
            continue
        v_, st = vals_[key]
        ng += 2
        idx = [n.slice.value for n in ast.walk(v_) if isinstance(n, ast.Subscript) and isinstance(n.slice, ast.Constant) and isinstance(n.slice.value, int)
               and "['GRID']" in norm(n.value)]
        hf = [const_str(n.slice) for n in ast.walk(v_) if isinstance(n, ast.Subscript) and const_str(n.slice) in ('NX', 'NY')]
        ax = key[1].lower()
        if idx == [gi]:
            ctx.ok('R-GRIDSLOT', 'grid%s_off' % ax, wiq, "GRID[%d]" % gi)
        else:
            ctx.violation(Finding('R-GRIDSLOT', RP, 'inqarlpackedbit', st, 'the %s offset is decoded from GRID%s instead of GRID[%d]: grids with more than 999 cells in one direction '
                                  'get the wrong shape' % (ax, idx, gi)))
        if hf == [key]:
            ctx.ok('R-GRIDSLOT', "out['%s']" % key, wiq, norm(v_)[:80])
        else:
            ctx.violation(Finding('R-GRIDSLOT', RP, 'inqarlpackedbit', st, "out['%s'] is built from header field(s) %s" % (key, hf)))
    ctx.floor('grid offset statements', ng, 4)
    # ---- R-VGTXT: six-character level texts reproduce the level (finite case analysis over magnitudes incl. exact powers of ten)
    ctx.rule('R-VGTXT', 'getvgtxts: the 6-character text of a level parses back to the level for every magnitude below 1e5')
    gf = mod.func('getvgtxts')
    wgf = 'src/PseudoNetCDF/%s getvgtxts' % RP
    loop = [st for st in gf.body if isinstance(st, ast.For)]
    if not loop or not isinstance(loop[0].target, ast.Name):
        ctx.undec('R-VGTXT', 'loop', wgf, 'loop over the levels not found')
    else:
        lv = loop[0].target.id
        res_name = [st.targets[0].id for st in gf.body if isinstance(st, ast.Assign) and isinstance(st.value, ast.List) and not st.value.elts]
        bad = unk = None
        samples = [0, 0.5, 0.995, 1, 1.5, 9.5, 10, 10.5, 20, 99.9, 100, 101.325, 1000, 1013.25, 9999.5, 10000, 20000.5, 0.001, 0.01, 0.1, 99999, 0.99925, 0.98125, 0.12345, 0.00007]
        for v in samples:
            env = consteval.run_block(loop[0].body, {lv: v, (res_name or ['vgtxts'])[0]: []}, want_env=True)
            if env is consteval.UNK:
                unk = v
                continue
            out_ = env.get((res_name or ['vgtxts'])[0])
            if env.get('$raised'):
                bad = (v, 'raises')
                break
            if out_ is consteval.UNK or not out_:
                unk = v
                continue
            txt = out_[0]
            try:
                back = float(txt)
            except Exception:
                back = None
            nd_ = len(str(int(v))) if v >= 1 else 0
            tol = 0.5 * 10.0 ** (-min(5, 5 - nd_)) * (1 + 1e-6)   # half a unit of the last place six characters can hold
            if len(txt) != 6 or back is None or abs(back - v) > tol:
                bad = (v, 'is written as %r' % txt)
                break
        if bad:
            ctx.violation(Finding('R-VGTXT', RP, 'getvgtxts', loop[0].body[0], 'level %r %s: the index record then carries another vertical coordinate than the file' % bad))
        elif unk is not None:
            ctx.undec('R-VGTXT', 'format', wgf, 'loop body outside the evaluated fragment for level %r' % unk)
        else:
            ctx.ok('R-VGTXT', 'format', wgf, '%d sample levels (0, fractions, exact powers of ten, up to 99999) give 6 characters that parse back' % len(samples))
    ctx.rule('R-RECLEN', 'index record (time header + variable table + filler) and every data record are 50 + nx*ny bytes')
    env = DT.DtypeEnv(mod.assigns)
    vh = DT.nbytes(env.eval(mod.assigns['vhdtype'])).constval()
    th = DT.nbytes(env.eval(mod.assigns['thdtype'])).constval()
    hd = [st for st in iter_stmts(mp.body) if isinstance(st, ast.Assign) and norm(st.targets[0]) == 'hdrdtype']
    wmap = 'src/PseudoNetCDF/%s maparlpackedbit' % RP
    if not hd:
        raise AnalysisError('anchor vanished: hdrdtype in maparlpackedbit')
    # size algebra over nx, ny, hlen and the time-header size; a named cell count (ncell = nx * ny, under any name) is substituted
    from .. import paths as _paths
    atomz = lambda n: 'TH' if norm(n) == 'thdtype.itemsize' else None
    fexpr = hd[0].value.args[0].right if isinstance(hd[0].value, ast.Call) and hd[0].value.args and isinstance(hd[0].value.args[0], ast.BinOp) else None
    if fexpr is None:
        raise AnalysisError('construct not understood: filler length of the index record in maparlpackedbit')
    if isinstance(fexpr, ast.Tuple) and len(fexpr.elts) == 1:
        fexpr = fexpr.elts[0]
    denv = _paths.dominating_env(mp, hd[0], keep=('nx', 'ny', 'hlen'))
    penv = {}
    for k_, v_ in denv.items():
        try:
            if not any(isinstance(x, ast.Call) for x in ast.walk(v_)):
                penv[k_] = to_poly(v_, {}, atomize=atomz)
        except Exception:
            pass
    fill = to_poly(fexpr, penv, atomize=atomz)
    total = fill + Poly.atom('hlen') + Poly.atom('TH')
    data_rec = Poly.const(vh) + Poly.atom('nx') * Poly.atom('ny')
    cellfmt = any(isinstance(n, ast.BinOp) and isinstance(n.op, ast.Mod) and isinstance(n.left, ast.Constant) and n.left.value == '(%d,%d)>1S' and norm(n.right) == '(ny, nx)' for n in ast.walk(mp))
    if total == data_rec and cellfmt:
        ctx.ok('R-RECLEN', 'index vs data record', wmap, 'time header + hlen + filler = %s = vhdtype (%d) + nx*ny' % (total, vh))
    else:
        ctx.violation(Finding('R-RECLEN', RP, 'maparlpackedbit', hd[0], 'index record is %s bytes but a data record is %s bytes: records are not of equal length' % (total, data_rec)))
    # ---- R-LAYKEYSHAPE
    consumer_pairs = any(isinstance(n, ast.comprehension) and isinstance(n.target, ast.Tuple) and norm(n.iter) == 'laykeys' for n in ast.walk(mp)) or \
        any(isinstance(n, ast.For) and isinstance(n.target, ast.Tuple) and len(n.target.elts) == 2 and norm(n.iter) == 'laykeys' for n in ast.walk(mp))      # the same unpacking as a loop
    prod_r = [st for st in iter_stmts(rvd.body) if isinstance(st, ast.Assign) and "out['laykeys']" in norm(st.targets[0])]
    reader_pairs = bool(prod_r) and isinstance(prod_r[0].value, ast.ListComp) and isinstance(prod_r[0].value.elt, ast.Tuple)
    appends = [c for c in walk_expr(wr) if isinstance(c, ast.Call) and dotted(c.func) == 'laykeys.append']
    writer_pairs = bool(appends) and all(isinstance(c.args[0], ast.Tuple) for c in appends)
    if consumer_pairs and reader_pairs:
        ctx.ok('R-LAYKEYSHAPE', 'readvardef -> maparlpackedbit', 'src/PseudoNetCDF/%s' % RP, 'list of (level, keys) pairs on both sides')
    else:
        raise AnalysisError('construct not understood: laykeys producer/consumer in the read path')
    if appends:
        if writer_pairs:
            ctx.ok('R-LAYKEYSHAPE', 'writearlpackedbit -> maparlpackedbit', 'src/PseudoNetCDF/%s' % RP, 'pairs')
        else:
            ctx.violation(Finding('R-LAYKEYSHAPE', RP, 'writearlpackedbit', api.stmt_of(appends[0]),
                                  "writearlpackedbit builds props['laykeys'] as a flat list of variable keys, but maparlpackedbit unpacks "
                                  'each element as a (level, keys) pair (and its length formula assumes the flat form): the writer raises for every input'))
    # ---- R-TDSECONDS
    init = mod.func('arlpackedbit.__init__')
    bad = [n for n in walk_expr(init) if isinstance(n, ast.Attribute) and n.attr == 'seconds' and isinstance(n.value, ast.BinOp) and isinstance(n.value.op, ast.Sub)]
    good = [n for n in walk_expr(init) if isinstance(n, ast.Call) and isinstance(n.func, ast.Attribute) and n.func.attr == 'total_seconds']
    if bad:
        ctx.violation(Finding('R-TDSECONDS', RP, 'arlpackedbit.__init__', api.stmt_of(bad[0]),
                              'timedelta.seconds excludes whole days: hour offsets of records a day or more after the first are wrong'))
    elif good:
        ctx.ok('R-TDSECONDS', 'hours_since', 'src/PseudoNetCDF/%s arlpackedbit.__init__' % RP, 'total_seconds()')
    else:
        ctx.undec('R-TDSECONDS', 'hours_since', 'src/PseudoNetCDF/%s arlpackedbit.__init__' % RP, 'elapsed-time idiom not recognised')
